"""C07: after any seek the reported position matches the audio delivered (explicit-state BFS)."""
import sys, time, json
import vlib, zoo, seekgraph, c07_hist
from seekgraph import Explorer

PID = 'C07'
SEEK = ('ps', 'pp', 'rs', 'ts', 'tp')


def sigma_coarse(rich=False):
    def s(fm, st):
        ops = ['rf4096']
        for p in fm.sample_targets(rich):
            ops += ['ps%d' % p, 'pp%d' % p]
        for o in fm.raw_targets(rich):
            ops.append('rs%d' % o)
        for t in fm.time_targets(rich):
            ops += ['ts' + t, 'tp' + t]
        return ops
    return s


def sigma_fine(depth_cap, rich=False):
    base = sigma_coarse(rich)

    def s(fm, st):
        return base(fm, st) + ['rf1', 'rf37', 'ri4096', 'ri4']
    return s


def classify(fm, hist, r):
    """specific finding key for a failing case (named predicates over the history)."""
    last = hist[-1] if hist else 'open'
    kind = last[:2]
    reason = (r.get('P') or '').split(':')[1] if (r.get('P') or '').startswith('bad') else 'x'
    if kind in ('ps', 'pp', 'ts', 'tp') and reason == 'pcm':
        # named predicate: the seek landed exactly on the start of a link whose first audio page has no granule position
        T = r.get('T', -1)
        for k, l in enumerate(fm.lt):
            if T == fm.start[k] and k < fm.nl:
                ours = [p for p in fm.pages[l['first']:l['last'] + 1] if p.serial == fm.links[k]['serial']]
                audio = [p for p in ours if p.offset >= fm.desc['links'][k]['dataoffset']] if fm.desc.get('open') else []
                if audio and audio[0].gran == -1:
                    return 'seek_to_link_start_first_packet_spans_pages'
    if kind == 'rs':
        o = int(last[2:])
        for k, l in enumerate(fm.lt):
            lastpage = fm.pages[l['last']]
            if k < fm.nl - 1 and lastpage.offset < o <= l['end']:
                return 'raw_seek_into_last_page_of_nonfinal_link:' + reason
    if any(fm.links[k].get('goff', 0) for k in range(fm.nl)) and fm.links[0].get('goff', 0):
        return 'first_link_nonzero_initial_granule:' + reason
    return f'{fm.name}:{kind}:{reason}'


def make_judge(chk, stats):
    def judge(ex, parent, op, r, hist):
        fm = ex.fm
        chk.cov['evaluations'] += 1
        if 'err' in r:
            chk.violation(f'{fm.name}:crash', f'executor died / timed out: {r["err"][:300]}', {'file': fm.name, 'ops': hist})
            return
        if r['F'] != '-':
            chk.violation(classify(fm, hist, r) + ':' + r['F'], f'flags {r["F"]} after {hist}', {'file': fm.name, 'ops': hist})
        # is the position defined?  last seek in history succeeded and every read after it returned >=0
        ok = True
        for o, (rc, tell) in zip(hist, r['R']):
            if o[:2] in SEEK:
                ok = (rc == 0)
            elif rc < 0:
                ok = False
        if not ok:
            stats['undefined_pos'] += 1
            return
        stats['judged'] += 1
        P = r.get('P', '-')
        if not P.startswith('ok'):
            chk.violation(classify(fm, hist, r), f'after {hist[-6:]} (tell={r["T"]}) read-through != linear decode: {P}', {'file': fm.name, 'ops': hist, 'probe': P})
            return
        if parent is None:
            if int(P.split(':')[1]) != fm.L or r['T'] != 0:
                chk.violation(f'{fm.name}:linear_total', f'linear decode delivered {P}, constructed length {fm.L}', {'file': fm.name, 'ops': hist})
            return
        # coverage facts
        k0 = fm.link_of_pos(max(0, parent['rec']['T']))
        k1 = fm.link_of_pos(max(0, r['T']))
        if op[:2] in SEEK:
            if k1 > k0:
                stats['cross_fwd'] += 1
            if k1 < k0:
                stats['cross_back'] += 1
            stats['seeks'] += 1
            stats['sigs'].add((op[:2], k0, k1, r['T'] in fm.fence[k1], parent['rec']['T'] == fm.L))
    return judge


def run(tier):
    chk = vlib.Check(PID, tier, 'model_checking')
    chk.soft_guards_when_cut = False          # quick is deadline-bounded by design; the guards below hold long before any cut
    vlib.build('plain')
    files = zoo.standard_files()
    files.update(zoo.large_files())          # links > CHUNKSIZE: quick explores them to depth 2 only, thorough to the fix-point
    files.update(zoo.mux_files())            # multiplexed links with packets split over two pages
    exe, listfile, models = seekgraph.load_models(files)
    t_end = time.time() + (240 if tier == 'quick' else 1500)
    # family HIST (pylib/c07_hist.py): plain seek judged after histories of lapped seeks / crosslap / halfrate / reads / refused seeks; fixed enumeration, no deadline, before the BFS
    c07_hist.run_family(chk, tier, files)
    tot_states = tot_trans = 0
    per_file = {}
    stats = {'undefined_pos': 0, 'judged': 0, 'cross_fwd': 0, 'cross_back': 0, 'seeks': 0, 'sigs': set()}
    all_fix = True
    merr = []
    bis = 0
    nfiles = len(models)
    for i, fm in enumerate(models):
        budget = time.time() + max(5.0, (t_end - time.time()) / (nfiles - i))
        rich = tier == 'thorough'
        big = fm.size > 65536 * 2
        ex = Explorer(exe, listfile, fm, sigma_coarse(rich), make_judge(chk, stats), deadline=budget, depth_cap=(2 if (big and tier == 'quick') else 99)).explore()
        bad = ex.validate_merges()
        bis += ex.bisim_checked
        for b in bad[:3]:
            merr.append(('unsound merge', fm.name, b))
        merr += ex.machinery_errors[:3]
        per_file[fm.name] = {'states': len(ex.states), 'transitions': ex.trans, 'fixpoint': ex.fixpoint, 'cut': ex.cut, 'max_depth': ex.max_depth, 'alphabet': len(sigma_coarse(rich)(fm, None))}
        tot_states += len(ex.states)
        tot_trans += ex.trans
        all_fix = all_fix and ex.fixpoint
        if big and tier == 'quick':
            continue
        # fine alphabet, depth-bounded (adds sample-granular reads and 16-bit reads)
        dcap = 2 if tier == 'quick' else 4
        ex2 = Explorer(exe, listfile, fm, sigma_fine(dcap, False), make_judge(chk, stats), depth_cap=dcap, deadline=budget + 10).explore()
        per_file[fm.name]['fine'] = {'states': len(ex2.states), 'transitions': ex2.trans, 'depth_cap': dcap, 'cut': ex2.cut}
        tot_states += len(ex2.states)
        tot_trans += ex2.trans
        merr += ex2.machinery_errors[:3]
        if len(chk.cov['samples']) < 10:
            hs = [s['hist'] for s in ex.states.values() if len(s['hist']) >= 2][:2]
            chk.cov['samples'] += [{'file': fm.name, 'history': h} for h in hs]
    if merr:
        print('MACHINERY ERROR:', merr[:5], file=sys.stderr)
        chk.guard(False, 'replay determinism / merge soundness: %r' % (merr[:2],))
    chk.cov.update({'states': tot_states, 'transitions': tot_trans, 'traces_validated_against_impl': tot_trans,
                    'distinct_nontrivial': len(stats['sigs']), 'per_file': per_file, 'exhaustive': all_fix,
                    'bisimulation_probes': bis, 'judged_states': stats['judged'], 'position_undefined_states': stats['undefined_pos'],
                    'seeks_crossing_link_forward': stats['cross_fwd'], 'seeks_crossing_link_backward': stats['cross_back'],
                    'rule': 'BFS over histories of real ov_* calls on a fresh handle; alphabet = 5 seek kinds x boundary targets + reads; state = canonical hash of OggVorbis_File; '
                            'coarse alphabet to fix-point (exhaustive=true iff every file reached it), fine alphabet depth-bounded; every transition executed on the implementation; '
                            'distinct_nontrivial = distinct (seek kind, from-link, to-link, landed-on-fencepost, from-EOF) signatures'})
    chk.assumptions += ['libogg 1.3.5 binary trusted', 'state hash drops dead buffer regions and bitrate statistics (DESIGN 2.6)', 'streams are encoder-made; alphabets listed in evidence per file']
    chk.guard(stats['cross_fwd'] > 0 and stats['cross_back'] > 0, 'seeks crossed a link boundary in both directions')
    chk.guard(stats['judged'] > 100, 'more than 100 states judged')
    return chk.finish()


def replay(path):
    r = json.load(open(path))
    vlib.build('plain')
    if r['replay'].get('family') == 'hist':
        return c07_hist.replay(r)
    files = zoo.standard_files()
    files.update(zoo.large_files())
    files.update(zoo.mux_files())
    exe, listfile, models = seekgraph.load_models(files)
    fm = [m for m in models if m.name == r['replay']['file']][0]
    out = vlib.run_cases(exe, [f"{fm.idx} s - plin " + ' '.join(r['replay']['ops'])], ['--files', listfile], jobs=1)
    print(out[0])
    return 0 if ' P=ok' in (out[0] or '') else 1
