"""C12: I/O failures surface as error codes and leave the handle usable.

Deviation-bounded fault enumeration (DEV explorer) over the real vorbisfile code, ASan build:
every scenario is run once without deviations to count its N environment points (every
invocation of the read/seek/tell callbacks); then for EVERY point k in 0..N-1 and every fault
kind {read->0+EIO, read->0, read->1 byte, seek->-1, tell->-1} x {one-shot, persisting-from-k}
the scenario is run again (bound 1).  The thorough tier adds all PAIRS of one-shot faults on
the smallest scenarios (bound 2) and more scenarios / recovery operations.

Oracles
  safety   no sanitizer report, no call that never returns (per-case CPU watchdog, confirmed
           alone with a 10x limit), return codes inside the OV_* code set;
  source   close is never invoked except by ov_clear of a successfully opened handle; a failed
           open leaves a zeroed handle;
  recovery only when open succeeded AND every fault fell after open had returned: once the
           script is back to default answers (op `q`) the FIRST seek to each position of an
           8-point target set, and the read-through after it, behave exactly as on a handle
           that ran the same history without any fault.
Faults during open that open swallows are logged as observations by the scenario explorer; they are JUDGED by the
open-API family (pylib/c12_open.py, harness/c12_open.c): every fault schedule of an open through ov_open_callbacks
and through ov_test_callbacks + ov_test_open, seekable and streaming, with the source clause on both steps, the
two-step == one-step clause and the "failure surfaces" clause (a hard callback failure during an open makes the
open fail or has no observable effect).
"""
import os, sys, json, time, hashlib
import vlib, zoo, seekgraph
import c12_open
from seekgraph import parse_out

PID = 'C12'
# fault kinds: name -> (memio deviation number, arg, callback class)
FAULTS = {'err': (3, 0, 'R'), 'zero': (2, 0, 'R'), 'one': (1, 1, 'R'), 'seek': (4, 0, 'S'), 'tell': (5, 0, 'T')}
FORDER = ('err', 'zero', 'one', 'seek', 'tell')
OV_CODES = set([-1, -2, -3] + list(range(-138, -127)))   # OV_FALSE, OV_EOF, OV_HOLE, OV_EREAD..OV_ENOSEEK
SEEK2 = ('ps', 'pp', 'rs', 'ts', 'tp', 'PS', 'PP', 'RS', 'TS', 'TP')
C12_FLAGS = ('open_fail_not_zeroed', 'open_fail_closed_source', 'clear_close_count', 'clear_closed_failed_open', 'double_close')
CHUNKSIZE = 65536


# ---------------------------------------------------------------------------- set-up
def mux_tail(kind, serial, pages, fserial):
    """zoo link `kind` with a foreign logical stream multiplexed into it: foreign BOS right after ours, foreign data pages
    interleaved, and the foreign EOS page AFTER our EOS page (zoo.multiplexed puts it before).  Returns (path, meta)."""
    p, m = zoo.link(kind, serial, pages)
    pg = vlib.parse_pages(open(p, 'rb').read())

    def fpage(seq, flags, body):
        lac, n = [], len(body)
        while n >= 255:
            lac.append(255)
            n -= 255
        lac.append(n)
        return vlib.Page(flags, seq * 1000, fserial, seq, lac, body)
    out = [pg[0], fpage(0, 2, b'fishead\0' + bytes(56))]
    fseq = 1
    for i, q in enumerate(pg[1:]):
        if i % 2 == 1:
            out.append(fpage(fseq, 0, bytes([fseq & 255]) * (300 + 37 * fseq)))
            fseq += 1
        out.append(q)
    out.append(fpage(fseq, 4, b'end'))
    blob = b''.join(x.encode() for x in out)
    path = vlib.write_file('c12_muxtail_%s_%d_%s.ogg' % (kind, serial, pages), blob)
    m = dict(m)
    m.update({'bytes': len(blob), 'file': path, 'foreign': fserial})
    return path, m


def load(tier):
    allf = zoo.standard_files()
    files = {'F1': allf['F1'], 'F2': allf['F2']}
    if tier == 'thorough':
        files['F2z'] = allf['F2z']     # 4 links incl. a single-page and a zero-sample link
        files['F6'] = allf['F6']       # foreign logical stream multiplexed into the first link
    # one large chain: links > 64 KiB so that open's backward scans and bisection really hop
    files['BIG'] = zoo.make_chain('c12_big', ['M', 'A', 'N'], pages='natural', serial0=1200)
    # chains whose LAST link is multiplexed with a foreign logical stream that owns the physically last page of the
    # file: only then does open's "find the last Vorbis page of this link" loop (_bisect_forward_serialno, single-link
    # branch) run its backward search at recursion depth >= 1, i.e. while the link tables are still one entry long
    files['MT2'] = vlib.chain('c12_mt2', [zoo.link('A', 1301, '3'), mux_tail('B', 1302, '3', 7301)])
    files['MT3'] = vlib.chain('c12_mt3', [zoo.link('A', 1311, '4'), zoo.link('C', 1312, '2'), mux_tail('A', 1313, '3', 7302)])
    exe, listfile, models = seekgraph.load_models(files, 'asan')
    # the executor is harness/vfx.c itself (#included by c12_fx.c) with ov_raw_tell added to every result line as W=
    sha = hashlib.sha256(open(os.path.join(vlib.ROOT, 'harness', 'vfx.c'), 'rb').read()).hexdigest()[:16]
    exe = vlib.harness('asan', 'c12_fx', extra='-DC12_VFX_SHA=0x%s' % sha)
    return exe, listfile, {m.name: m for m in models}


def env_str(faults):
    """faults: tuple of (k, kind, persist)"""
    if not faults:
        return '-'
    return ';'.join('%d:%d:%d:%d' % (k, FAULTS[kind][0], FAULTS[kind][1], per) for k, kind, per in faults)


def fault_name(faults):
    return '+'.join('%s%s@%d' % (kind, '*' if per else '', k) for k, kind, per in faults) or 'none'


def case_line(fm, mode, faults, probe, ops):
    return ('%d %s %s %s %s' % (fm.idx, mode, env_str(faults), probe, ' '.join(ops))).rstrip()


class Runner:
    """run_cases wrapper: (1) a worker that prints '<idx> TIMEOUT' exits, and vlib.run_cases then marks the
    NEXT case of that shard 'DIED rc=3' without having run it -- such cases are re-run here;
    (2) counts executions."""

    def __init__(self, exe, listfile, timeout):
        self.exe, self.listfile, self.timeout = exe, listfile, timeout
        self.executed = 0

    def run(self, cases, timeout=None, jobs=None):
        if not cases:
            return []
        args = ['--files', self.listfile, '--timeout', str(timeout or self.timeout)]
        res = vlib.run_cases(self.exe, cases, args, tag='c12', jobs=jobs)
        self.executed += len(cases)
        for _ in range(8):
            redo = [i for i, r in enumerate(res) if r is None or r.startswith('DIED rc=3 ')]
            if not redo:
                break
            again = vlib.run_cases(self.exe, [cases[i] for i in redo], args, tag='c12r', jobs=jobs)
            stable = True
            for i, r in zip(redo, again):
                if r != res[i]:
                    stable = False
                res[i] = r
            if stable:
                break
        return [parse_out(r) for r in res]


class Scn:
    def __init__(self, cls, fm, mode, ops, recover, tag):
        self.cls, self.fm, self.mode, self.ops, self.recover, self.tag = cls, fm, mode, list(ops), recover, tag
        self.name = '%s/%s/%s/%s' % (cls, fm.name, mode, tag)
        self.base = None        # parsed baseline
        self.N = 0              # environment points of the fault-free run
        self.cum = []           # cum[i] = points consumed after open (i=0) / after ops[i-1]
        self.pclass = {}        # point index -> 'R'|'S'|'T'

    def phase(self, k):
        """which call of the fault-free run consumes point k"""
        if k < self.cum[0]:
            return 'open'
        for i, op in enumerate(self.ops):
            if k < self.cum[i + 1]:
                return op[:2] if op[:2] in SEEK2 or op[:2] in ('rf', 'ri') else op
        return 'beyond'


def time_of(fm, p):
    k = fm.link_of_pos(min(p, fm.L - 1))
    return repr(fm.tstart[k] + (p - fm.start[k] + 0.25) / float(fm.links[k]['rate']))


def seek_targets(fm):
    """3 targets per seek kind: inside the first page, middle of the middle link, inside the last page"""
    mid_link = fm.nl // 2
    pts = [1, (fm.start[mid_link] + fm.start[mid_link + 1]) // 2, fm.L - 2]
    last = fm.pages[-1]
    raw = [fm.pages[min(3, len(fm.pages) - 1)].offset + 1, fm.size // 2, last.offset + 5]
    return pts, raw


def recovery_targets(fm):
    """8 valid positions: both ends, every link middle, link boundaries, first/last fence posts, fillers"""
    L = fm.L
    P = [0, 1, L - 1, L]
    for k in range(fm.nl):
        s, e = fm.start[k], fm.start[k + 1]
        P += [(s + e) // 2]
    for k in range(1, fm.nl):
        P += [fm.start[k], fm.start[k] - 1]
    for k in range(fm.nl):
        fp = [f for f in fm.fence[k] if fm.start[k] < f < fm.start[k + 1]]
        if fp:
            P += [fp[0] + 1, fp[-1]]
    P += [L // 3 + 7, (2 * L) // 3 + 1, L // 5, L - L // 7]
    out = []
    for p in P:
        if 0 <= p <= L and p not in out:
            out.append(p)
    return sorted(out[:8])


def scenarios(models, tier):
    S = []
    thorough = tier == 'thorough'
    small = ('F1', 'F2') + (('F2z', 'F6') if thorough else ())
    for name in small + ('MT2', 'MT3', 'BIG'):
        S.append(Scn('S1open', models[name], 's', [], name in small, 'open'))
    for name in small:
        fm = models[name]
        full = name in ('F1', 'F2')
        nreads = len(fm.chunks) + 2
        S.append(Scn('S5stream', fm, 'n', [], False, 'open'))
        S.append(Scn('S2readthrough', fm, 's', ['rf4096'] * nreads, True, 'all'))
        pts, raw = seek_targets(fm)
        for kind in ('ps', 'pp', 'rs', 'ts', 'tp'):
            for i in range(3):
                arg = str(pts[i]) if kind in ('ps', 'pp') else str(raw[i]) if kind == 'rs' else time_of(fm, pts[i])
                # seek from a handle whose decoder is running, and from a fresh handle
                S.append(Scn('S3seek', fm, 's', ['rf4096', kind + arg, 'rf4096'], True, '%s%d' % (kind, i)))
                S.append(Scn('S3seek', fm, 's', [kind + arg, 'rf4096', 'rf4096'], True, '%s%dfresh' % (kind, i)))
                if full:
                    S.append(Scn('S6lap', fm, 's', ['rf4096', kind.upper() + arg, 'rf4096'], True, '%s%d' % (kind.upper(), i)))
            if full and fm.nl > 1:
                # lapped seeks that certainly cross a link boundary, in both directions, landing in the middle of the
                # other link (the decoder of the old link is dumped and the new one must be primed through reads)
                first_mid, last_mid = fm.start[1] // 2, (fm.start[fm.nl - 1] + fm.L) // 2
                for tag, frm, to in (('xfwd', first_mid, last_mid), ('xback', last_mid, first_mid)):
                    lk = fm.lt[fm.link_of_pos(to)]
                    arg = str(to) if kind in ('ps', 'pp') else str((lk['offset'] + lk['end']) // 2) if kind == 'rs' else time_of(fm, to)
                    S.append(Scn('S6lap', fm, 's', ['ps%d' % frm, 'rf4096', kind.upper() + arg, 'rf4096'], True, '%s%s' % (kind.upper(), tag)))
        if full:
            S.append(Scn('S4halfrate', fm, 's', ['h1', 'ps%d' % pts[1], 'rf4096'], True, 'h1ps'))
            S.append(Scn('S4halfrate', fm, 's', ['rf4096', 'h1', 'rf4096', 'pp%d' % pts[2], 'rf4096'], True, 'rfh1pp'))
            S.append(Scn('S4halfrate', fm, 's', ['rf4096', 'h1', 'ts' + time_of(fm, pts[1]), 'rf4096', 'h0', 'rf4096'], True, 'h1tsh0'))
        S.append(Scn('S5stream', fm, 'n', ['rf4096'] * nreads, False, 'all'))
    return S


# ---------------------------------------------------------------------------- judging
def safety_problems(r, scn, ops):
    """-> list of (what, description); r is a parsed vfx result of a run of `ops` on scn's file/mode"""
    out = []
    if 'err' in r:
        e = r['err']
        if e.startswith('TIMEOUT'):
            return [('timeout', 'a library call did not return within the CPU watchdog')]
        if e.startswith('DIED rc=2 ') or e.startswith('BAD') or e == 'NOOUTPUT':
            # exit code 2 is the executor's own set-up failure (file list / zoo file vanished, bad case line): never a verdict
            return [('machinery', e[:300])]
        return [('crash', 'executor died: ' + e[:600])]
    fl = [f for f in r.get('F', '-').split(',') if f in C12_FLAGS]
    for f in fl:
        out.append((f, 'source/handle discipline flag %s (O=%d C=%s)' % (f, r['O'], r.get('C'))))
    want_close = 1 if r['O'] == 0 else 0
    if int(r.get('C', -1)) != want_close and not fl:
        out.append(('close_count', 'close callback invoked %s times, expected %d (open rc %d)' % (r.get('C'), want_close, r['O'])))
    if r['O'] != 0 and r['O'] not in OV_CODES:
        out.append(('open_code', 'open returned %d, not an OV_* code' % r['O']))
    for op, (rc, tell) in zip(ops, r['R']):
        k2 = op[:2]
        if k2 in ('rf', 'ri'):
            if rc < 0 and rc not in OV_CODES:
                out.append(('read_code', '%s returned %d' % (op, rc)))
        elif k2 in SEEK2:
            if rc != 0 and rc not in OV_CODES:
                out.append(('seek_code', '%s returned %d' % (op, rc)))
        elif op in ('h0', 'h1'):
            if rc not in (0, -131):
                out.append(('halfrate_code', '%s returned %d' % (op, rc)))
    return out


def recovery_view(r, nops):
    """what the application sees of the recovery seek (the op after `q`) and of everything read after it"""
    if 'err' in r:
        return ('err', r['err'][:40])
    rr = r['R']
    if len(rr) <= nops + 1:
        return ('short', len(rr))
    return (rr[nops + 1][0], rr[nops + 1][1], r.get('P'))


def key_for(what, scn, faults, phase):
    shape = 'single' if scn.fm.nl == 1 else 'chain_last_link_multiplexed_tail' if scn.fm.links[-1].get('foreign') and scn.fm.pages[-1].serial == scn.fm.links[-1]['foreign'] else 'chain'
    if not faults:
        # the scenario misbehaves without any deviation: "nothing is accessed out of bounds" / termination fail outright
        return '%s:%s:fault_free_baseline:%s' % (what, scn.cls, shape)
    k0, kind0, per0 = faults[0]
    if (what == 'timeout' and scn.mode == 's' and len(faults) == 1 and kind0 == 'zero' and per0 and phase == 'open'):
        return 'open_persisting_zero_read_never_returns'
    # one-shot faults only, all of them inside open, at least one of them a premature zero read (bound 2: the other one may be anything)
    if (what == 'timeout' and scn.mode == 's' and all(not per and k < scn.cum[0] for k, kind, per in faults) and any(kind == 'zero' for _, kind, _ in faults)):
        return 'open_oneshot_zero_read_never_returns'
    fk = '+'.join('%s%s' % (kind, '*' if per else '') for _, kind, per in faults)
    return '%s:%s:fault_%s_during_%s:%s' % (what, scn.cls, fk, phase, shape)


# ---------------------------------------------------------------------------- the explorer
class Dev:
    def __init__(self, chk, runner, tier, deadline):
        self.chk, self.rn, self.tier, self.deadline = chk, runner, tier, deadline
        self.open_rc = {}          # (file, mode, env) -> open rc (from the S1 scenarios), None = died/timeout
        self.stats = {'effective_faults': 0, 'not_reached': 0, 'recovery_cases': 0, 'recovery_faults': 0, 'skipped_equiv_persist': 0,
                      'skipped_open_failed': 0, 'timeouts': 0, 'timeouts_confirmed': 0, 'slow_not_hung': 0, 'pairs': 0}
        self.phase_hits = {}       # (scenario class, phase, fault class) -> count of effective faults
        self.outcomes = set()
        self.effective = set()
        self.obs = {'open_swallowed_fault': 0, 'open_swallowed_fault_view_changed': 0, 'samples': []}
        self.per_scn = {}
        self.det_errors = []
        self.samples = []
        self.cut = False
        self.rtargets = {}
        self.pending_timeouts = []
        self.open_scn = {}
        self.timing = []
        self.machinery = []
        self.rawtells = set()      # distinct (scenario, raw position reported after a faulted history)
        self.dropped = []          # scenarios whose fault-free run did not complete (reported as violations)
        self.xlap = {}             # lapped seek kind -> persisting read faults applied inside a link-crossing lapped seek
        self.ref_total, self.ref_unclean = 0, []

    # -- baseline ----------------------------------------------------------
    def faultfree_failure(self, s, ops, probe, r, what_run):
        """a fault-free run died / hung / could not be parsed.  A sanitizer report, crash or non-returning call of the
        tree under test is a VIOLATION of the safety clause (with a replay); only unparseable executor output is machinery."""
        probs = safety_problems(r, s, ops)
        what, desc = probs[0]
        if what == 'machinery':
            self.machinery.append((s.name, 'none', desc))
        elif what == 'timeout':
            self.pending_timeouts.append((s, (), 'fault_free_baseline', list(ops), probe))
        else:
            self.chk.violation(key_for(what, s, (), 'fault_free_baseline'), '%s: %s WITHOUT any callback fault (%s): %s' % (s.name, what_run, ' '.join(ops) or 'open only', desc),
                               self.replay_of(s, (), probe, ops, 'safety'))

    def baselines(self, scns):
        """fault-free runs of every scenario and of every prefix of it.  Returns the scenarios that can be enumerated
        (a scenario whose fault-free run does not complete is reported and dropped)."""
        cases, idx = [], []
        for s in scns:
            for i in range(len(s.ops) + 1):
                cases.append(case_line(s.fm, s.mode, (), 'none', s.ops[:i]))
                idx.append((s, i))
        res = self.rn.run(cases)
        dead = set()
        for (s, i), r in zip(idx, res):
            if s.name in dead:
                continue
            if 'err' in r:
                # prefixes come in increasing length: this is the shortest history that fails
                self.faultfree_failure(s, s.ops[:i], 'none', r, 'fault-free run')
                dead.add(s.name)
                self.dropped.append(s.name)
                continue
            if r['O'] != 0:
                # not an I/O-failure matter (C09's): the scenario cannot be enumerated, the run is incomplete
                self.chk.guard(False, 'fault-free open of %s returned %d' % (s.name, r['O']))
                dead.add(s.name)
                self.dropped.append(s.name)
                continue
            if i == 0:
                s.cum = []
            s.cum.append(int(r['E']))
            if i == len(s.ops):
                s.base, s.N = r, int(r['E'])
                s.xlink = False
                for j, op in enumerate(s.ops):
                    if op[:2] in SEEK2 and op[:2].isupper() and j > 0 and r['R'][j][0] == 0 and r['R'][j - 1][1] >= 0:
                        s.xlink = s.fm.link_of_pos(r['R'][j - 1][1]) != s.fm.link_of_pos(r['R'][j][1])
                for p in safety_problems(r, s, s.ops):
                    self.chk.violation('faultfree:%s:%s' % (s.cls, p[0]), 'fault-free run of %s: %s' % (s.name, p[1]), self.replay_of(s, (), 'none', s.ops, 'safety'))
        scns = [s for s in scns if s.name not in dead]
        # recovery references: same history, no fault, then q + seek + read-through
        cases, idx = [], []
        for s in scns:
            if not s.recover:
                continue
            for rop in self.recovery_ops(s.fm):
                cases.append(case_line(s.fm, s.mode, (), 'plin', s.ops + ['q', rop]))
                idx.append((s, rop))
        res = self.rn.run(cases)
        for s in scns:
            s.ref = {}
        for (s, rop), r in zip(idx, res):
            if 'err' in r:
                self.faultfree_failure(s, s.ops + ['q', rop], 'plin', r, 'fault-free recovery reference')
                s.ref[rop] = None          # this target cannot be judged
                continue
            v = recovery_view(r, len(s.ops))
            s.ref[rop] = v
            # The verdict is equality with this reference whatever it is ("exactly as on a handle that never saw the
            # failure"); whether a fault-free seek itself is right is C07/C08's business.  References that are not a
            # clean seek are listed, and the run is vacuous (guard) if they are more than a few.
            good = (len(v) == 3 and v[0] == 0 and isinstance(v[2], str) and v[2].startswith('ok'))
            if rop.startswith('ps') and good:
                p = int(rop[2:])
                good = v[1] in (p, p & ~1)     # half-rate handles land on the even position at or below
            self.ref_total += 1
            if not good:
                self.ref_unclean.append({'scenario': s.name, 'recovery_op': rop, 'fault_free_view': list(v)})
        self.chk.guard(len(self.ref_unclean) * 20 <= self.ref_total, 'fault-free recovery references are clean seeks (rc 0, tell = target, read-through = linear decode): %d of %d are not, e.g. %r'
                       % (len(self.ref_unclean), self.ref_total, self.ref_unclean[:2]))
        return scns

    def recovery_ops(self, fm):
        if fm.name not in self.rtargets:
            ops = ['ps%d' % p for p in recovery_targets(fm)]
            pts, raw = seek_targets(fm)
            # raw seeks to three fixed offsets (just behind a page boundary near the start, mid-file, inside the last
            # page); the raw seek to the handle's OWN raw position is added per faulted run (see _stage)
            ops += ['rs%d' % o for o in raw]
            if self.tier == 'thorough':
                ops += ['pp%d' % pts[1], 'ts' + time_of(fm, pts[1])]
            self.rtargets[fm.name] = ops
        return self.rtargets[fm.name]

    def replay_of(self, s, faults, probe, ops, kind, rop=None):
        return {'file': s.fm.name, 'mode': s.mode, 'scenario': s.name, 'faults': [list(f) for f in faults], 'env': env_str(faults), 'probe': probe, 'ops': list(ops),
                'kind': kind, 'base_ops': list(s.ops), 'recovery_op': rop, 'case': case_line(s.fm, s.mode, faults, probe, ops)}

    # -- one stage: run a list of fault schedules through the safety run, then the recovery runs ------------
    def stage(self, todo, step=4000):
        """todo: list of (scn, faults).  Returns dict (scn.name, faults) -> parsed safety result.
        Runs in slices; the deadline is looked at between slices (what was not run is counted in stats['cut_cases'])."""
        out = {}
        for i in range(0, len(todo), step):
            if time.time() > self.deadline:
                self.cut = True
                self.stats['cut_cases'] = self.stats.get('cut_cases', 0) + len(todo) - i
                break
            out.update(self._stage(todo[i:i + step]))
        return out

    def _stage(self, todo):
        t_st = time.time()
        res = self.rn.run([case_line(s.fm, s.mode, f, 'none', s.ops) for s, f in todo])
        self.timing.append(('safety runs', len(todo), round(time.time() - t_st, 1)))
        out = {}
        rec_cases, rec_idx, dyn_refs = [], [], []
        for (s, f), r in zip(todo, res):
            out[(s.name, f)] = r
            self.chk.cov['evaluations'] += 1
            ps = self.per_scn.setdefault(s.name, {'points': s.N, 'open_points': s.cum[0], 'cases': 0, 'effective': 0, 'recovery_cases': 0})
            ps['cases'] += 1
            kmin = min(k for k, _, _ in f)
            phase = s.phase(kmin)
            if s.cls.startswith('S1') or s.tag == 'open':
                self.open_rc[(s.fm.name, s.mode, env_str(f))] = None if 'err' in r else r['O']
            probs = safety_problems(r, s, s.ops)
            if probs and probs[0][0] == 'machinery':
                self.machinery.append((s.name, fault_name(f), probs[0][1]))
                continue
            for what, desc in probs:
                if what == 'timeout':
                    self.pending_timeouts.append((s, f, phase))
                    continue
                self.chk.violation(key_for(what, s, f, phase), '%s, faults %s (first in %s): %s' % (s.name, fault_name(f), phase, desc), self.replay_of(s, f, 'none', s.ops, 'safety'))
            if 'err' in r:
                self.outcomes.add((s.cls, phase, tuple(x[1:] for x in f), 'err', r['err'][:7]))
                self.stats['effective_faults'] += 1
                self.effective.add((s.name, f))
                ps['effective'] += 1
                continue
            hits = int(r['D'])
            if hits == 0:
                self.stats['not_reached'] += 1
                # nothing was deviated: the run must be indistinguishable from the fault-free one
                if any(r.get(x) != s.base.get(x) for x in ('O', 'R', 'H', 'T', 'E', 'C', 'N', 'F')):
                    self.det_errors.append((s.name, fault_name(f), r, s.base))
                continue
            if len(f) == 2 and hits < 2 and not any(per for _, _, per in f):
                # second fault never applied: identical to a single-fault case already enumerated
                self.stats['not_reached'] += 1
                continue
            self.stats['effective_faults'] += 1
            self.effective.add((s.name, f))
            ps['effective'] += 1
            fcls = ''.join(sorted(set(FAULTS[kind][2] for _, kind, _ in f)))
            self.phase_hits[(s.cls, phase, fcls)] = self.phase_hits.get((s.cls, phase, fcls), 0) + 1
            if s.cls == 'S6lap' and getattr(s, 'xlink', False) and len(f) == 1 and f[0][2] and FAULTS[f[0][1]][2] == 'R' and phase in SEEK2 and phase.isupper():
                self.xlap[phase] = self.xlap.get(phase, 0) + 1
            self.outcomes.add((s.cls, phase, tuple(x[1:] for x in f), r['O'], tuple(rc for rc, _ in r['R']), r.get('F')))
            if len(self.samples) < 400:
                self.samples.append({'scenario': s.name, 'faults': fault_name(f), 'phase': phase, 'case': case_line(s.fm, s.mode, f, 'none', s.ops), 'open': r['O'], 'rcs': [rc for rc, _ in r['R']]})
            if kmin < s.cum[0]:
                # fault during open
                if r['O'] == 0:
                    self.obs['open_swallowed_fault'] += 1
                    if (r.get('N'), r['R'], r['T']) != (s.base.get('N'), s.base['R'], s.base['T']):
                        self.obs['open_swallowed_fault_view_changed'] += 1
                        if len(self.obs['samples']) < 12 and (len(self.obs['samples']) < 6 or r.get('N') != s.base.get('N')):
                            self.obs['samples'].append({'scenario': s.name, 'faults': fault_name(f), 'pcm_total': r.get('N'), 'fault_free_total': s.base.get('N'), 'tell': r['T']})
                continue
            # fault after a successful open: recovery clause applies
            if not s.recover:
                continue
            if r['O'] != 0:
                self.chk.guard(False, 'post-open fault changed the open result in %s %s' % (s.name, fault_name(f)))
                continue
            self.stats['recovery_faults'] += 1
            for rop in self.recovery_ops(s.fm):
                if s.ref.get(rop) is None:
                    continue
                rec_cases.append(case_line(s.fm, s.mode, f, 'plin', s.ops + ['q', rop]))
                rec_idx.append((s, f, rop, phase, False))
            # ov_raw_seek(vf, ov_raw_tell(vf)): the raw position THIS faulted handle reports (W of the run above; `q` does
            # not move it).  The reference is a handle with the same history and no fault seeking to the same number.
            w = int(r.get('W', -1))
            if 0 <= w <= s.fm.size:
                rop = 'rs%d' % w
                if rop not in s.ref:
                    s.ref[rop] = 'pending'
                    dyn_refs.append((s, rop))
                rec_cases.append(case_line(s.fm, s.mode, f, 'plin', s.ops + ['q', rop]))
                rec_idx.append((s, f, rop, phase, True))
                self.stats['raw_tell_probes'] = self.stats.get('raw_tell_probes', 0) + 1
                self.rawtells.add((s.name, w))
            else:
                self.chk.violation(key_for('raw_tell_out_of_range', s, f, phase), '%s, faults %s: ov_raw_tell reports %d on an open handle (file size %d)' % (s.name, fault_name(f), w, s.fm.size),
                                   self.replay_of(s, f, 'none', s.ops, 'safety'))
        if dyn_refs:
            res = self.rn.run([case_line(s.fm, s.mode, (), 'plin', s.ops + ['q', rop]) for s, rop in dyn_refs])
            for (s, rop), r in zip(dyn_refs, res):
                if 'err' in r:
                    self.faultfree_failure(s, s.ops + ['q', rop], 'plin', r, 'fault-free recovery reference')
                    s.ref[rop] = None
                else:
                    s.ref[rop] = recovery_view(r, len(s.ops))
                    self.ref_total += 1
        t_st = time.time()
        res = self.rn.run(rec_cases)
        self.timing.append(('recovery runs', len(rec_cases), round(time.time() - t_st, 1)))
        for (s, f, rop, phase, dyn), r in zip(rec_idx, res):
            self.chk.cov['evaluations'] += 1
            self.stats['recovery_cases'] += 1
            if s.ref.get(rop) is None:
                continue
            rk = 'rs_at_raw_tell' if dyn else rop[:2]
            self.per_scn[s.name]['recovery_cases'] += 1
            ops = s.ops + ['q', rop]
            probs = safety_problems(r, s, ops)
            if probs and probs[0][0] == 'machinery':
                self.machinery.append((s.name, fault_name(f), probs[0][1]))
                continue
            for what, desc in probs:
                if what == 'timeout':
                    self.pending_timeouts.append((s, f, 'recovery_' + rop[:2], ops, 'plin'))
                    continue
                self.chk.violation(key_for('recovery_' + what, s, f, phase), '%s, faults %s, then q %s: %s' % (s.name, fault_name(f), rop, desc), self.replay_of(s, f, 'plin', ops, 'recovery', rop))
            if 'err' in r:
                continue
            v = recovery_view(r, len(s.ops))
            self.outcomes.add((s.cls, phase, tuple(x[1:] for x in f), 'rec', rk, v[0], (v[2] or '')[:6] if len(v) > 2 else ''))
            if v != s.ref[rop]:
                why = 'rc%d' % v[0] if v[0] != s.ref[rop][0] else 'tell' if v[1] != s.ref[rop][1] else 'audio'
                self.chk.violation(key_for('recovery_%s_%s' % (rk, why), s, f, phase),
                                   '%s: after faults %s (first in %s) and q, %s gives (rc, tell, read-through)=%r; a handle that never saw the failure gives %r'
                                   % (s.name, fault_name(f), phase, rop, v, s.ref[rop]), self.replay_of(s, f, 'plin', ops, 'recovery', rop))
        return out

    # -- bound 1 -----------------------------------------------------------
    def bound1(self, scns):
        # one-shot faults: every point x every kind.  Also teaches us the callback class of every point.
        todo = []
        for s in scns:
            for k in range(s.N):
                for kind in FORDER:
                    f = ((k, kind, 0),)
                    if k < s.cum[0] and not (s.tag == 'open'):
                        rc = self.open_rc.get((s.fm.name, s.mode, env_str(f)), 'unknown')
                        if rc != 0 and rc != 'unknown':
                            self.stats['skipped_open_failed'] += 1
                            continue
                    todo.append((s, f))
        res = self.stage(todo)
        for s in scns:
            s.pclass = {}
            opn = self.open_scn.get((s.fm.name, s.mode))
            for k in range(s.N):
                if k < s.cum[0] and opn is not None and opn is not s:
                    # the callback sequence inside open does not depend on what is called afterwards
                    if k in opn.pclass:
                        s.pclass[k] = opn.pclass[k]
                    continue
                for kind, cls in (('zero', 'R'), ('seek', 'S'), ('tell', 'T')):
                    r = res.get((s.name, ((k, kind, 0),)))
                    if r is not None and ('err' in r or int(r['D']) >= 1):
                        s.pclass[k] = cls
            if s.tag == 'open':
                self.open_scn[(s.fm.name, s.mode)] = s
        # persisting faults: a fault persisting from k is the same schedule as one persisting from the next point of
        # its own callback class, so only points of the matching class are run (exact reduction, counted).
        todo = []
        for s in scns:
            for k in range(s.N):
                for kind in FORDER:
                    if s.pclass.get(k) != FAULTS[kind][2]:
                        self.stats['skipped_equiv_persist'] += 1
                        continue
                    f = ((k, kind, 1),)
                    if k < s.cum[0] and not (s.tag == 'open'):
                        rc = self.open_rc.get((s.fm.name, s.mode, env_str(f)), 'unknown')
                        if rc != 0 and rc != 'unknown':
                            self.stats['skipped_open_failed'] += 1
                            continue
                    todo.append((s, f))
        self.stage(todo)
        return res

    # -- bound 2: pairs of one-shot faults ----------------------------------
    def bound2(self, scns, singles):
        """all pairs (k1,x1) < (k2,x2) of one-shot faults: the first must have been applied in its single-fault run; the
        second index ranges over the points of THAT run (indices are interpreted on the fly).  Pairs that fall entirely
        inside open are enumerated in the open scenario of the file only (open does not depend on later calls)."""
        todo = []
        for s in scns:
            for k in range(s.N):
                for kind in FORDER:
                    f1 = (k, kind, 0)
                    r = singles.get((s.name, (f1,)))
                    if r is None or 'err' in r or int(r['D']) < 1:
                        continue
                    n1 = int(r['E'])     # points of the run with the first fault applied
                    lo = k + 1 if s.tag == 'open' else max(k + 1, s.cum[0])
                    for k2 in range(lo, n1):
                        for kind2 in FORDER:
                            todo.append((s, (f1, (k2, kind2, 0))))
        self.stats['pairs'] += len(todo)
        self.stage(todo, step=8000)

    # -- watchdog expiries: confirm alone with a 10x limit ------------------
    def confirm_timeouts(self):
        groups = {}
        for t in self.pending_timeouts:
            s, f, phase = t[0], t[1], t[2]
            what = 'timeout' if len(t) == 3 or not f else 'recovery_timeout'
            groups.setdefault(key_for(what, s, f, phase), []).append(t)
        cases = []
        for key, ts in sorted(groups.items()):
            self.stats['timeouts'] += len(ts)
            ts.sort(key=lambda t: (t[0].fm.size, t[0].name, t[1]))      # smallest file first: it becomes the recorded reproducer
            n = len(ts)
            pick = ts if n <= 4 else [ts[0], ts[n // 3], ts[(2 * n) // 3], ts[-1]]
            for t in pick:
                s, f = t[0], t[1]
                ops, probe = (t[3], t[4]) if len(t) > 3 else (s.ops, 'none')
                cases.append((key, n, len(pick), t, case_line(s.fm, s.mode, f, probe, ops), ops, probe))
        # every picked case alone in its own process, 10x the CPU limit
        for i in range(0, len(cases), vlib.NPROC):
            part = cases[i:i + vlib.NPROC]
            res = self.rn.run([c[4] for c in part], timeout=self.rn.timeout * 10, jobs=len(part))
            for (key, n, npick, t, line, ops, probe), r in zip(part, res):
                s, f, phase = t[0], t[1], t[2]
                if 'err' in r and not r['err'].startswith('TIMEOUT'):
                    self.machinery.append((s.name, fault_name(f), 'timeout re-run: ' + r['err'][:200]))
                elif 'err' in r:
                    self.stats['timeouts_confirmed'] += 1
                    self.chk.violation(key, '%s with faults %s (first in %s): a library call never returned (CPU watchdog %d s, confirmed alone with %d s); %d cases of this class timed out, %d re-run'
                                       % (s.name, fault_name(f), phase, self.rn.timeout, self.rn.timeout * 10, n, npick),
                                       dict(self.replay_of(s, f, probe, ops, 'timeout'), timeout=self.rn.timeout * 10))
                else:
                    self.stats['slow_not_hung'] += 1
        self.pending_timeouts = []


# ---------------------------------------------------------------------------- entry points
def run(tier):
    chk = vlib.Check(PID, tier, 'fault_enumeration')
    t0 = time.time()
    vlib.build('asan', 'plain')      # plain: the zoo encoder (mkzoo) links against it
    exe, listfile, models = load(tier)
    wd = 1 if tier == 'quick' else 2
    rn = Runner(exe, listfile, wd)
    # internal deadline (s): ends the run with exhaustive:false; C12_DEADLINE_S overrides it on an overloaded machine
    dev = Dev(chk, rn, tier, t0 + float(os.environ.get('C12_DEADLINE_S', 150 if tier == 'quick' else 1380)))
    scns = scenarios(models, tier)
    scns = dev.baselines(scns)      # scenarios whose fault-free run fails are reported (violation) and dropped
    # order: open scenarios of the small files (their open results prune the other scenarios), all other scenarios, and
    # the large chain last: if calls hang (1 CPU-second each) and the deadline strikes, it cuts the most redundant tail
    first = [s for s in scns if s.tag == 'open' and s.fm.name != 'BIG']
    rest = [s for s in scns if s.tag != 'open']
    big = [s for s in scns if s.fm.name == 'BIG']
    singles = dev.bound1(first)
    singles.update(dev.bound1(rest))
    singles.update(dev.bound1(big))
    dev.confirm_timeouts()
    # open-API family (bound 1 on every open flavour; thorough: + pairs on the small files).  It has its own time allowance, so that a
    # deadline cut of the scenario explorer above never removes it, and runs before the deadline-cut bound-2 part.
    fam = c12_open.run_family(chk, tier, {n: (models[n].path, models[n].meta) for n in ('MT2', 'MT3', 'BIG')},
                              time.time() + float(os.environ.get('C12_OPEN_DEADLINE_S', 90 if tier == 'quick' else 420)), wd)
    if tier == 'thorough':
        # smallest scenarios first: everything on F1, everything on the 3-link chain, then open / seek scenarios of the two extra files
        small = [s for s in scns if s.fm.name == 'F1' and s.mode == 's']
        small += [s for s in scns if s.fm.name == 'F2' and s.mode == 's']
        small += [s for s in scns if s.fm.name in ('F2z', 'F6') and s.cls in ('S1open', 'S3seek') and not s.tag.endswith('fresh')]
        dev.bound2(small, singles)
        dev.confirm_timeouts()
    # ---- evidence
    cls_points = {}
    for s in scns:
        cls_points.setdefault(s.cls + '/' + s.fm.name, []).append(s.N)
    chk.cov['evaluations'] = rn.executed + fam.executed
    chk.cov.update({
        'distinct_nontrivial': len(dev.effective) + len(fam.effective),
        'distinct_outcomes': len(dev.outcomes),
        'rule': 'DEV: every scenario (open; open+read-through; open+read+{ps,pp,rs,ts,tp}x3 targets+read; half-rate+seek; streaming; lapped seeks) is run fault-free to count its N callback '
                'invocations, then re-run for every k<N x {read 0+EIO, read 0, read 1 byte, seek -1, tell -1} one-shot, and persisting from every k whose callback class matches the fault '
                '(exact reduction); post-open faults are followed by one run per recovery target: <history> q <seek p> + read-through compared with the same history without fault. '
                'thorough: two more files (4-link chain with single-page and empty links; multiplexed link), three more recovery seeks (pp, rs, ts), and all pairs of one-shot faults on every seekable F1 and F2 scenario and on the open / seek scenarios of the two extra files (pairs lying entirely inside open are run in the open scenario only; the large chain has bound 1 only). distinct_nontrivial = distinct (scenario, fault schedule) whose deviation(s) were actually applied '
                '(D>=1, both for pairs); distinct_outcomes = distinct (scenario class, call hit, fault kinds, open rc, rc list, flags / recovery verdict) tuples',
        'scenarios': len(scns),
        'points_per_scenario': {k: (v[0] if len(set(v)) == 1 else [min(v), max(v)]) for k, v in sorted(cls_points.items())},
        'open_points': {s.fm.name + '/' + s.mode: s.cum[0] for s in scns if s.tag == 'open'},
        'recovery_targets': dev.rtargets,
        'stats': dev.stats,
        'effective_faults_by_phase': {'%s/%s/%s' % k: v for k, v in sorted(dev.phase_hits.items())},
        'observations_not_judged': dev.obs,
        'distinct_raw_tell_probe_offsets': len(dev.rawtells),
        'scenarios_dropped_fault_free_run_failed': dev.dropped,
        'persisting_read_faults_inside_cross_link_lapped_seeks': dev.xlap,
        'recovery_references': {'total': dev.ref_total, 'not_a_clean_seek': dev.ref_unclean[:20]},
        'per_scenario': dev.per_scn if len(dev.per_scn) <= 60 else {k: v for k, v in list(sorted(dev.per_scn.items()))[::max(1, len(dev.per_scn) // 40)]},
        'watchdog_cpu_s': wd,
        'stage_timing_cases_wall_s': dev.timing,
        'exhaustive': not dev.cut and not fam.cut,
        'samples': dev.samples[::max(1, len(dev.samples) // 12)][:12],
    })
    chk.assumptions += [
        '"returns an error code or end-of-file" is read as: the return value is 0/EOF/a sample count or any OV_* code of vorbis/codec.h; the per-function lists in doc/vorbisfile are narrower '
        '(e.g. open returns OV_EINVAL for a failing tell and OV_EBADLINK for a failing seek) and are not enforced',
        'short (1-byte) and zero reads are legitimate answers; the call in progress may succeed (a seek that meets a zero read reports position = total, i.e. end-of-file)',
        'faults that fall inside ov_open_callbacks and are swallowed by it (open returns 0, possibly with a shorter link table) are recorded under observations_not_judged; the recovery clause '
        'is only applied when the first fault index >= the number of callback invocations open consumed fault-free',
        'recovery is demanded for the FIRST seek after the callbacks work again, one fresh handle per target; its verdict is equality with the same history run without faults '
        '(return code, ov_pcm_tell, and read-through bit-identical to the linear reference at that position)',
        'streaming handles (no seek callback) cannot seek, so only the safety and source clauses apply to them; OV_HOLE at link boundaries of a streamed chain is C10 territory',
        'a watchdog expiry is reported only after the same case, run alone with 10x the CPU limit, expired again (at most 4 cases per finding class are confirmed)',
    ]
    ph = dev.phase_hits
    need = [('open', 'R'), ('open', 'S'), ('open', 'T'), ('rf', 'R'), ('ps', 'R'), ('ps', 'S'), ('pp', 'R'), ('pp', 'S'), ('rs', 'R'), ('rs', 'S'), ('ts', 'S'), ('tp', 'S'), ('PS', 'S'), ('RS', 'R')]
    for phase, fc in need:
        chk.guard(dev.cut or any(p == phase and fc in c for (_, p, c) in ph), 'at least one applied %s-class fault inside %s' % (fc, phase))
    c12_open.report(fam, chk)
    chk.guard(not dev.machinery, 'executor ran every case (no set-up failure such as a zoo file removed by a concurrent rebuild): %d failures, e.g. %r' % (len(dev.machinery), dev.machinery[:1]))
    chk.guard(not dev.det_errors, 'runs whose deviation was never reached are identical to the fault-free run: %r' % (dev.det_errors[:1],))
    chk.guard(dev.cut or dev.stats['recovery_cases'] > 500, 'recovery clause exercised')
    chk.guard(all(len(v) >= 8 for v in dev.rtargets.values()) and len(dev.rtargets) >= 2, '8 recovery targets per file')
    chk.guard(dev.cut or (dev.stats.get('raw_tell_probes', 0) > 200 and len(set(w for _, w in dev.rawtells)) >= 4), 'raw seek to the faulted handle\'s own ov_raw_tell probed after post-open faults, at >= 4 distinct offsets')
    for big in [s for s in scns if s.fm.name == 'BIG']:
        chk.guard(int(big.base.get('B', 0)) > CHUNKSIZE and big.fm.size > 2 * CHUNKSIZE, 'large chain: open performs seeks further than CHUNKSIZE back (bisection / chunked backward scan reached)')
    for s in scns:
        if s.fm.name in ('MT2', 'MT3'):
            fm = s.fm
            chk.guard(fm.nl >= 2 and fm.pages[-1].serial == fm.links[-1]['foreign'] and fm.pages[-1].serial != fm.links[-1]['serial']
                      and int(s.base.get('N', -1)) == fm.L,
                      '%s: chain of %d links, the physically last page belongs to the foreign stream of the last link, fault-free open reports the constructed length' % (fm.name, fm.nl))
    chk.guard(dev.cut or bool(dev.dropped) or all(dev.xlap.get(k, 0) >= 2 for k in ('PS', 'PP', 'RS', 'TS', 'TP')),
              'persisting read faults applied inside link-crossing lapped seeks of every kind (from every read index of the call): %r' % (dev.xlap,))
    unk = [s.name for s in scns if len(s.pclass) != s.N]
    chk.guard(dev.cut or not unk, 'callback class (read/seek/tell) learned for every point of every scenario: %r' % (unk[:3],))
    return chk.finish()


def replay(path):
    rec = json.load(open(path))['replay']
    vlib.build('asan', 'plain')      # plain: the zoo encoder (mkzoo) links against it
    if rec.get('family') == 'openapi':
        load('thorough')             # regenerates the zoo files the record points to
        c12_open.files_for('thorough')
        return c12_open.replay(rec)
    exe, listfile, models = load('thorough')
    fm = models[rec['file']]
    wd = int(rec.get('timeout', 10))
    rn = Runner(exe, listfile, wd)
    s = Scn('replay', fm, rec['mode'], rec['base_ops'], rec['kind'] == 'recovery', 'replay')
    faults = tuple(tuple(f) for f in rec['faults'])
    r = rn.run([case_line(fm, rec['mode'], faults, rec['probe'], rec['ops'])], jobs=1)[0]
    print('case   :', case_line(fm, rec['mode'], faults, rec['probe'], rec['ops']))
    print('result :', r.get('err') or {k: r[k] for k in ('O', 'R', 'T', 'P', 'E', 'D', 'C', 'F')})
    bad = safety_problems(r, s, rec['ops'])
    if rec['kind'] == 'recovery' and not bad:
        ref = rn.run([case_line(fm, rec['mode'], (), rec['probe'], rec['ops'])], jobs=1)[0]
        v, w = recovery_view(r, len(rec['base_ops'])), recovery_view(ref, len(rec['base_ops']))
        print('recovery (rc, tell, read-through):', v, ' never-faulted handle:', w)
        if v != w:
            bad.append(('recovery', 'differs from the never-faulted handle'))
    for b in bad:
        print('FAIL   :', b[0], '-', b[1])
    return 1 if bad else 0
