"""C09: opening a chained file accounts for every link and every sample (bounded-exhaustive enumeration of link sequences)."""
import sys, time, json, itertools
import vlib, zoo

PID = 'C09'
KINDS = ['A', 'B', 'C', 'D', 'Z', 'G', 'X', 'S', 'Y']
LAYOUTS = ['natural', 'flush', '4']


def mklink(kind, pos, layout, hiserial=False):
    serial = 1000 + pos * 37 + KINDS.index(kind) if kind in KINDS else 5000 + pos
    if hiserial:
        # serial numbers with the top bit set (stored sign-extended by the library): 0x80000000.., 0xfffffff0..
        serial = -(1 << 31) + pos * 37 + KINDS.index(kind) if pos % 2 == 0 else -16 + pos
    if kind == 'S':
        # synthesised 3-channel 64/128 link with floor 0 whose padded packets straddle pages (some pages carry no granule position)
        return zoo.synth_link('c09_S_%d' % serial, serial, 64, 128, 14, ch=3, rate=16000, pad=500, span=3, floortype=0)
    if kind == 'X':
        # (the 'natural' layout puts all audio into ONE page behind a foreign page: first==last audio page away from the data offset)
        return zoo.multiplexed('A', serial, layout, fserial=9000 + pos)
    if kind == 'Y':
        # multiplexed short clip: a foreign page lies between the headers and the only audio page (the flush layout gives several audio pages)
        return zoo.multiplexed('D', serial, layout, fserial=9100 + pos)
    if kind == 'G' and layout == 'natural':
        layout = '3'   # a start offset is only defined when the first page is not also the last
    return zoo.link(kind, serial, layout)


def spec(p, m):
    return f"{p}:{m['ch']}:{m['rate']}:{m['n']}:{m['serial']}:{m['tag']}"


def classify(seq, layouts, res):
    what = res.split(':')[1] if res.startswith('bad') else res.split(' ')[0]
    # named predicate: a link whose whole audio sits in one page (first==last page)
    return f"{what}:kinds={''.join(seq)}:layouts={','.join(layouts)}"


def run(tier):
    chk = vlib.Check(PID, tier, 'exploration')
    vlib.build('plain')
    exe = vlib.harness('plain', 'chainx')
    maxlen = 3 if tier == 'quick' else 4
    cases, meta = [], []
    for k in range(1, maxlen + 1):
        for seq in itertools.product(KINDS, repeat=k):
            lays = LAYOUTS if (tier == 'thorough' or k <= 2) else LAYOUTS[:2]
            for lay in lays:
                links = [mklink(kind, pos, lay) for pos, kind in enumerate(seq)]
                cases.append('s 0 ' + ' '.join(spec(p, m) for p, m in links))
                meta.append((seq, [lay] * k))
    # mixed layouts on length-2/3 chains
    for seq in itertools.product(['A', 'D', 'C'], repeat=3):
        for lays in itertools.product(LAYOUTS, repeat=3):
            links = [mklink(kind, pos, lay) for pos, (kind, lay) in enumerate(zip(seq, lays))]
            cases.append('s 0 ' + ' '.join(spec(p, m) for p, m in links))
            meta.append((seq, list(lays)))
    # a non-zero starting granule position with ordinary 4 KiB pages (the first audio page lies beyond the open-time read-ahead), in every position
    for seq in (['H'], ['H', 'A'], ['A', 'H'], ['H', 'H'], ['B', 'H', 'A'], ['H', 'Z', 'H']):
        links = [zoo.link('A', 1000 + pos * 37, '3') if kind == 'A' else zoo.link('B', 1000 + pos * 37, 'natural') if kind == 'B' else zoo.link('Z', 1000 + pos * 37, 'flush') if kind == 'Z'
                 else zoo.link('K', 1000 + pos * 37, 'natural', n=9000, goff=100000 + pos, q=0.6, ch=2) for pos, kind in enumerate(seq)]
        cases.append('s 0 ' + ' '.join(spec(p, m) for p, m in links))
        meta.append((seq, ['goff-bigpages'] * len(seq)))
    # a link whose comment header is very large (embedded cover art: comment + setup span 3-5 maximal pages), in every position of a chain
    for size in (70000, 140000, 200000):
        for seq in (['L'], ['A', 'L'], ['L', 'A'], ['A', 'L', 'B']):
            links = [zoo.big_comment('A', 1400 + pos * 13, size) if kind == 'L' else zoo.link(kind, 1400 + pos * 13, '3') for pos, kind in enumerate(seq)]
            cases.append('s 0 ' + ' '.join(spec(p, m) for p, m in links))
            meta.append((seq, ['bigcomment%d' % size if k == 'L' else '3' for k in seq]))
    # adjacent links of the SAME format (channels, rate, block sizes) but different set-up headers (encoded at different qualities): the decoder must be
    # rebuilt from each link's own codebooks
    for qs in ((0.1, 0.9), (0.9, 0.1), (0.1, 0.5, 0.9), (0.5, 0.5, 0.0)):
        links = [zoo.link('K', 1300 + pos * 11, 'natural' if pos % 2 else '3', q=q) for pos, q in enumerate(qs)]
        cases.append('s 0 ' + ' '.join(spec(p, m) for p, m in links))
        meta.append((['K'] * len(qs), ['q%s' % q for q in qs]))
    # serial numbers >= 2^31 in every position of short chains
    for seq in itertools.product(['A', 'B', 'D', 'Z'], repeat=3):
        links = [mklink(kind, pos, 'natural' if kind != 'A' else '3', hiserial=True) for pos, kind in enumerate(seq)]
        cases.append('s 0 ' + ' '.join(spec(p, m) for p, m in links))
        meta.append((seq, ['hiserial'] * 3))
    # large links: CHUNKSIZE=65536 switches the open-time scans to real bisection / backward hops
    big = ['A', 'M', 'N']
    for seq in itertools.product(big, repeat=3):
        links = [zoo.link(kind, 7000 + pos * 11 + big.index(kind), 'natural') for pos, kind in enumerate(seq)]
        cases.append('s 0 ' + ' '.join(spec(p, m) for p, m in links))
        meta.append((seq, ['natural'] * 3))
    # long alternating chains
    for k in range(5, 9 if tier == 'quick' else 13):
        seq = [KINDS[(i * 3 + k) % len(KINDS)] for i in range(k)]
        links = [mklink(kind, pos, LAYOUTS[pos % 3]) for pos, kind in enumerate(seq)]
        cases.append('s 0 ' + ' '.join(spec(p, m) for p, m in links))
        meta.append((seq, [LAYOUTS[pos % 3] for pos in range(k)]))
    res = vlib.run_cases(exe, cases, tag='c09')
    sigs = set()
    maxhop = 0
    for c, (seq, lays), r in zip(cases, meta, res):
        chk.cov['evaluations'] += 1
        r = r or 'NOOUTPUT'
        if not r.startswith('ok'):
            chk.violation(classify(seq, lays, r), f'chain {"".join(seq)} layouts {lays}: {r[:200]}', {'case': c})
        else:
            sigs.add((tuple(seq), tuple(lays)))
            try:
                maxhop = max(maxhop, int(r.split('B=')[1]))
            except Exception:
                pass
    chk.cov['samples'] = [{'kinds': ''.join(m[0]), 'layouts': m[1]} for m in meta[::max(1, len(meta) // 8)]][:10]
    chk.cov.update({'distinct_nontrivial': len([s for s in sigs if len(s[0]) > 1]), 'exhaustive': True, 'max_backward_hop_bytes': maxhop,
                    'rule': f'all sequences of length 1..{maxlen} over link kinds {KINDS} (A 8k mono, B 11k stereo, C 44.1k 256/2048, D audio in a single page, Z zero samples, G non-zero start granule, X multiplexed foreign stream, S synthesised 3-channel floor-0 64/128 link with page-spanning packets) '
                            'x page layouts, mixed layouts on ADC^3, 27 large chains over {small,>64KiB,>128KiB}^3, long alternating chains; oracle: link table vs construction, read-through == concatenation of packet-API solo decodes; '
                            'distinct_nontrivial = distinct multi-link (kinds, layouts) cases that passed'})
    chk.assumptions += ['solo decode uses the packet-level API of the same library (C01/C04 cover it)', 'ov_raw_total per link only required to be positive and not larger than the link']
    chk.guard(maxhop >= 65536, 'at least one backward CHUNKSIZE hop occurred (large files reached the bisection paths)')
    return chk.finish()


def replay(path):
    r = json.load(open(path))
    vlib.build('plain')
    exe = vlib.harness('plain', 'chainx')
    out = vlib.run_cases(exe, [r['replay']['case']], jobs=1)
    print(out[0])
    return 0 if (out[0] or '').startswith('ok') else 1
