"""C04: encode -> decode preserves the exact sample count and starts at zero.

Bounded-exhaustive enumeration (ENUM): every N in 0..Nmax for the sweep configurations, every 2-part split (a, N-a)
for small / boundary N, boundary sets of N around multiples of blocksize/4 for every (rate, channels, mode) configuration
that sets up.  Every case is judged by the real encoder and the real decoders (harness/c04_encdec.c); ground truth is N.
"""
import sys, os, json, time, random
import vlib

PID = 'C04'
HARNESS = 'c04_encdec'

# chunkings of DESIGN C04 ("whole" = one piece of N samples)
CHUNKS = ['whole', 'u1024', 'u512', 'u511', 'u64', 'u7']
RATES_Q = [8000, 16000, 44100]
RATES_T = [8000, 11025, 16000, 22050, 32000, 44100, 48000]
CHANS = [1, 2, 6]


def managed_modes(rate, ch, tier):
    """nominal bitrates that the encoder accepts for (rate, ch); unsupported ones come back as setupfail and are skipped"""
    base = {1: 16000, 2: 32000, 6: 64000} if rate < 15000 else ({1: 32000, 2: 64000, 6: 128000} if rate < 30000 else {1: 64000, 2: 128000, 6: 256000})
    nom = base[ch]
    ms = [f'm-1,{nom},-1', f'm{nom * 5 // 4},{nom},{nom * 3 // 4}']
    if tier == 'thorough':
        ms += [f'm{nom},{nom},{nom}', f'm-1,{nom * 2},-1']
    return ms


def vbr_modes(tier):
    """q = packets through the bitrate interface, d = packets straight from vorbis_analysis(vb,&op)"""
    return ['q-0.1', 'q0.3', 'q0.9', 'd0.3'] if tier == 'quick' else ['q-0.1', 'q0.0', 'q0.3', 'q0.5', 'q0.9', 'q1.0', 'd-0.1', 'd0.3']


def exotic_configs(tier):
    """configurations outside the rate x {1,2,6} x mode grid: other channel counts and the extremes of the supported rate range.
    Returns [(rate, ch, mode, reduced)]; reduced = use the small boundary set (the 255-channel cases cost ~0.3 s each)"""
    if tier == 'quick':
        return [(44100, 3, 'q0.3', True), (44100, 8, 'q0.3', True), (4000, 1, 'q0.3', True), (200000, 1, 'q0.3', True), (8000, 255, 'q0.3', 'tiny')]
    out = [(r, c, 'q0.3', False) for r in (4000, 7999, 9000, 12000, 15000, 19000, 26000, 40000, 50000, 64000, 96000, 192000, 200000) for c in (1, 2)]
    out += [(r, c, 'q0.3', False) for r in (8000, 44100) for c in (3, 4, 5, 7, 8, 16)]
    out += [(r, c, 'q0.3', True) for r in (8000, 44100) for c in (64, 255)]
    return out


def reduced_boundary_set(bs0, bs1, how):
    s = {0, 1, 2, 3}
    if how == 'tiny':
        return sorted(s | {bs0 // 4, bs0 // 2 - 1, bs0 // 2, bs0 // 2 + 1, bs1 + 1})
    for q, kmax in ((bs0 // 4, 4), (bs1 // 4, 6)):
        for k in range(1, kmax + 1):
            s.update((k * q - 1, k * q, k * q + 1))
    return sorted(s)


def chunk_of(c, n):
    return ('u%d' % max(n, 1)) if c == 'whole' else c


def case(rate, ch, mode, n, chunk, sig, lay, group, cclass=None):
    line = f'{rate} {ch} {mode} {n} {chunk} {sig} {lay}'
    return line, {'rate': rate, 'ch': ch, 'mode': mode, 'N': n, 'chunk': chunk, 'cclass': cclass or chunk, 'sig': sig, 'lay': lay, 'group': group}


def sweep(name, rate, ch, mode, nmax, combos):
    out = []
    for n in range(nmax + 1):
        for c, sig, lay in combos:
            out.append(case(rate, ch, mode, n, chunk_of(c, n), sig, lay, name, c))
    return out


def splits(name, rate, ch, mode, ns, sig, lay='n'):
    out = []
    for n in ns:
        for a in range(1, n):
            out.append(case(rate, ch, mode, n, f's{a}', sig, lay, name, 'split'))
    return out


def boundary_set(bs0, bs1, tier):
    """N around multiples of blocksize/4 (both block sizes), plus the smallest N"""
    s = {0, 1, 2, 3}
    q0, q1 = bs0 // 4, bs1 // 4
    lim0 = bs1 + bs0 if tier == 'quick' else 3 * bs1 + bs0
    lim1 = 4 * bs1 if tier == 'quick' else 5 * bs1
    for q, lim in ((q0, lim0), (q1, lim1)):
        k = 1
        while k * q <= lim:
            for d in (-1, 0, 1):
                s.add(k * q + d)
            k += 1
    return sorted(s)


def nclass(n, bs0, bs1):
    if n == 0:
        return 'N=0'
    if n <= bs0 // 2:
        return '0<N<=short/2'
    if n <= bs1:
        return 'short/2<N<=long'
    return 'N>long'


def parse(r):
    """'ok pk=.. lg=..' -> (status, fields)"""
    sp = (r or 'NOOUTPUT').split(' ')
    f = {}
    for t in sp[1:]:
        if '=' in t:
            k, v = t.split('=', 1)
            f[k] = v
    return sp[0], f


class Runner:
    def __init__(self, chk, exe, deadline):
        self.chk, self.exe, self.deadline = chk, exe, deadline
        self.sigs = set()
        self.fail = []          # (N, len(line), line, meta, result)
        self.groups = {}        # name -> dict(cases, ok, complete)
        self.setupfail = {}     # config -> rc
        self.cfg_ok = {}        # config -> count of passes
        self.cfg_n0 = set()     # configs whose N=0 case passed
        self.stat = {'n0_ok': 0, 'below_short_block_ok': 0, 'mixed_blocks_ok': 0, 'short_after_long_ok': 0, 'mixed_blocks_44k_impulse_ok': 0, 'managed_ok': 0, 'hardmax_ok': 0, 'abr_easy_ok': 0, 'abr_easy_top_blob_ok': 0, 'abr_easy_top_blob_packets': 0, 'managed_bottom_blob_ok': 0, 'hardmax_reservoir_full_ok': 0, 'hardmax_reservoir_full_packets': 0,
                     'multi_audio_page_natural_ok': 0, 'packets': 0, 'max_packets': 0}
        self.ch_ok = {}
        self.bs_seen = {}
        self.samples = []
        self.cut = False
        self.cut_why = None
        self.hard = 0           # cases that crashed or ran into the watchdog
        self.badcase = []
        self.bsinfo = {}        # config -> (bs0, bs1)

    def run_group(self, name, items, batch=16384):
        g = self.groups.setdefault(name, {'cases': 0, 'ok': 0, 'planned': 0, 'complete': True})
        g['planned'] += len(items)
        if vlib.SEED:
            random.Random(vlib.SEED).shuffle(items)
        o = 0
        step = 512      # small first batches: a tree on which cases hang or crash must not cost hours (10 s watchdog per case)
        while o < len(items):
            if time.time() > self.deadline or self.hard >= 16 or len(self.fail) >= 20000:
                # deadline, or the tree is so broken that continuing only burns time (violations are already recorded)
                g['complete'] = False
                self.cut = True
                self.cut_why = 'deadline' if time.time() > self.deadline else 'aborted after %d failing cases (%d crashed/timed out)' % (len(self.fail), self.hard)
                return
            part = items[o:o + step]
            o += step
            step = min(batch, step * 8)
            lines = [x[0] for x in part]
            res = vlib.run_cases(self.exe, lines, ('--timeout', '10'), tag='c04')
            # a worker that died (or whose predecessor timed out) leaves DIED/None: re-run those alone once
            redo = [i for i, r in enumerate(res) if r is None or r.startswith('DIED')]
            for i in redo[:200]:
                r2 = vlib.run_cases(self.exe, [lines[i]], jobs=1, tag='c04r')[0]
                if r2 is not None and not r2.startswith('DIED'):
                    res[i] = r2
            for (line, m), r in zip(part, res):
                self.judge(line, m, r, g)

    def judge(self, line, m, r, g):
        chk = self.chk
        st, f = parse(r)
        cfg = (m['rate'], m['ch'], m['mode'])
        if st == 'setupfail':
            self.setupfail[cfg] = f.get('rc')
            g['rejected_by_setup'] = g.get('rejected_by_setup', 0) + 1
            return
        if st == 'BADCASE':
            self.badcase.append(line)
            return
        if st in ('TIMEOUT', 'DIED', 'NOOUTPUT'):
            self.hard += 1
        chk.cov['evaluations'] += 1
        g['cases'] += 1
        bs0 = bs1 = 0
        if 'bs' in f:
            try:
                bs0, bs1 = [int(x) for x in f['bs'].split('/')]
                self.bsinfo[cfg] = (bs0, bs1)
            except ValueError:
                pass
        if st != 'ok':
            self.fail.append((m['N'], len(line), line, m, r or 'NOOUTPUT', bs0, bs1))
            return
        g['ok'] += 1
        n = m['N']
        pk, lg, sh, sal, pg = int(f['pk']), int(f['lg']), int(f['sh']), int(f['sal']), int(f['pg'])
        self.cfg_ok[cfg] = self.cfg_ok.get(cfg, 0) + 1
        self.ch_ok[m['ch']] = self.ch_ok.get(m['ch'], 0) + 1
        self.bs_seen[f['bs']] = self.bs_seen.get(f['bs'], 0) + 1
        s = self.stat
        s['packets'] += pk
        s['max_packets'] = max(s['max_packets'], pk)
        if n == 0:
            s['n0_ok'] += 1
            self.cfg_n0.add(cfg)
        elif n < bs0:
            s['below_short_block_ok'] += 1
        if lg > 0 and sh > 1:
            s['mixed_blocks_ok'] += 1
        if sal > 0:
            s['short_after_long_ok'] += 1
            if m['rate'] == 44100 and m['sig'][:3] in ('imp', 'trn') and lg > 1:
                s['mixed_blocks_44k_impulse_ok'] += 1
        if m['mode'][0] == 'm':
            s['managed_ok'] += 1
        if int(f.get('bot', 0)) > 0:
            s['managed_bottom_blob_ok'] += 1
        if m['group'].startswith('abr_easy'):
            s['abr_easy_ok'] += 1
            tb = int(f.get('top', 0))
            if tb > 0:
                s['abr_easy_top_blob_ok'] += 1
                s['abr_easy_top_blob_packets'] += tb
        if m['group'].startswith('hardmax'):
            s['hardmax_ok'] += 1
            rf = int(f.get('rfull', 0))
            if rf > 0:
                s['hardmax_reservoir_full_ok'] += 1
                s['hardmax_reservoir_full_packets'] += rf
        if m['lay'][0] == 'n' and pg > 3:
            s['multi_audio_page_natural_ok'] += 1
        if n > 0 and bs1:
            self.sigs.add((cfg, n % (bs1 // 4), m['cclass'], m['sig'][:3]))
        if len(self.samples) < 12 and (chk.cov['evaluations'] % 9973 == 1):
            self.samples.append({'case': line, 'result': r})


def hardmax_cases(tier):
    """Hard bitrate ceiling well below what the quality wants, short reservoir, dense input: the regime in which vorbis_bitrate_addblock has to
    pick smaller packet blobs and finally truncate frames (seed C04r3-1 escaped without it).  Modes: h<q>,<max kbps>,<reservoir bits>,<bias> =
    vorbis_encode_setup_vbr + OV_ECTL_RATEMANAGE2_SET (hard max only; reservoir 0 = the library default of 2 s) + setup_init, and
    m<max>,-1,-1 = vorbis_encode_init with a maximum only.  Full product of the listed domains."""
    q = tier == 'quick'
    it = []
    g = 'hardmax'
    for rate in (8000, 22050, 44100):
        for ch in (1, 2):
            maxes = [24, 40, 64] + ([8, 12, 16] if rate == 8000 else [])      # at 8 kHz only the low ceilings bite
            for qual in ((0.1,) if q else (0.1, 0.4)):
                for mx in maxes:
                    for rb in ((1000, 4000, 0) if q else (128, 1000, 4000, 16000, 0)):
                        for bias in ((0, 0.5, 1) if q else (0, 0.1, 0.5, 1)):
                            mode = f'h{qual},{mx},{rb},{bias}'
                            it.append(case(rate, ch, mode, 0, 'u1024', 'fsn', 'nf3', g))
                            for sig, chunk in (('fsn', 'u1024'), ('mtone', 'u777')):
                                for n in (3001, 12001, 12288, 40001):
                                    it.append(case(rate, ch, mode, n, chunk, sig, 'nf3' if n == 3001 else 'n', g))
                            if rb == 1000 and bias == 1:        # reservoir full from the first frame: the smallest N as well
                                for n in (1, 2, 255, 256, 257, 1023, 1024, 1025):
                                    it.append(case(rate, ch, mode, n, 'u1024', 'fsn', 'nf3', g))
            for mx in maxes:
                for sig in ('fsn', 'mtone'):
                    for n in (0, 3001, 12001, 40001):
                        it.append(case(rate, ch, f'm{mx * 1000},-1,-1', n, 'u1024', sig, 'n', g))
    if not q:
        # the three configurations of the seed's demonstration, at its lengths, and every N in a window for two configurations
        for rate, ch, mode, n, chunk in ((44100, 2, 'h0.1,40,8000,0.1', 200000, 'u1024'), (44100, 1, 'h0.2,24,4000,0.1', 150001, 'u777'), (44100, 2, 'h0.4,64,16000,0.1', 120000, 'u4096')):
            for sig in ('fsn', 'mtone'):
                it.append(case(rate, ch, mode, n, chunk, sig, 'n', g))
                it.append(case(rate, ch, mode, 100001, chunk, sig, 'n', g))
        for rate, ch, mode in ((44100, 2, 'h0.1,24,1000,0.1'), (22050, 2, 'h0.1,40,4000,0.1')):
            for n in range(11800, 12400):
                it.append(case(rate, ch, mode, n, 'u1024', 'fsn', 'n', g))
    return it


ABR_NOMINALS = {8000: {1: [8000, 16000, 32000], 2: [16000, 32000, 64000]}, 22050: {1: [32000, 64000, 86000], 2: [32000, 64000, 128000]},
                44100: {1: [64000, 96000, 128000], 2: [96000, 128000, 256000]}}


def abr_easy_cases(tier):
    """Average-bitrate management (vorbis_encode_init with a nominal rate, alone and with min/max around it) on EASY input: the floater
    bm->avgfloat slews up to the highest packet blob within a few tenths of a second, so every blob index 0..PACKETBLOBS-1 gets emitted
    (seed C04r4-2, a top blob that was never encoded, escaped without it).  Full product of the listed domains."""
    q = tier == 'quick'
    it = []
    g = 'abr_easy'
    for rate in (8000, 22050, 44100):
        for ch in (1, 2):
            for nom in ABR_NOMINALS[rate][ch]:
                modes = [f'm-1,{nom},-1', f'm{nom * 5 // 4},{nom},{nom * 3 // 4}', f'm-1,{nom},{nom // 2}', f'm{nom * 3 // 2},{nom},-1']
                if not q:
                    modes.append(f'm{nom},{nom},{nom}')
                for mode in modes:
                    it.append(case(rate, ch, mode, 0, 'u1024', 'sil', 'nf3', g))
                    sigs = [('sil', 'u1024'), ('qtone', 'u1024'), ('ntail', 'u777')]
                    if not q:
                        sigs += [('ntail%d' % (rate // 4), 'u4096'), ('ntail%d' % rate, 'u1024'), ('dc', 'u1024')]
                    for sig, chunk in sigs:
                        for n in ((5001, 12001, 25001, 50001, 100000, 176400) if q else (5001, 12001, 25001, 50001, 66150, 88201, 100000, 132301, 176400)):
                            it.append(case(rate, ch, mode, n, chunk, sig, 'nf3' if n == 12001 else 'n', g))
    return it


def plan(tier, probe_bs, reduced={}):
    """Returns the ordered list of (group name, items).  probe_bs: config -> (bs0, bs1) for the configurations that set up.
    thorough = the quick plan (with larger boundary sets) followed by the extra groups, most valuable first, so that a deadline cut loses the tail only."""
    A8 = (8000, 1, 'q0.3')
    B16 = (16000, 1, 'q0.3')
    C44 = (44100, 1, 'q0.3')
    C44S = (44100, 2, 'q0.3')
    NMAX = {A8: 5200, B16: 4200, C44: 9300, C44S: 9300}
    QCOMBOS = {
        'sweep_8k_mono_512_512': (A8, [('whole', 'sine', 'nf3'), ('u1024', 'noise', 'n'), ('u511', 'sil', 'n'), ('u64', 'dc', 'n'), ('u7', 'trn1300', 'n')]),
        'sweep_16k_mono_512_1024': (B16, [('whole', 'sine', 'nf3'), ('u1024', 'trn1300', 'n'), ('u511', 'noise', 'n'), ('u64', 'dc', 'n'), ('r333', 'trn700', 'n')]),
        'sweep_44k_mono_256_2048': (C44, [('whole', 'trn3000', 'nf3'), ('u1024', 'sine', 'n'), ('u511', 'noise', 'n')]),
        'sweep_44k_stereo_256_2048': (C44S, [('u1024', 'trn1700', 'n')]),
    }
    G = []
    # ---- boundary sets for every configuration that sets up
    it = []
    for cfg, (bs0, bs1) in sorted(probe_bs.items()):
        rate, ch, mode = cfg
        for n in (reduced_boundary_set(bs0, bs1, reduced[cfg]) if reduced.get(cfg) else boundary_set(bs0, bs1, tier)):
            it.append(case(rate, ch, mode, n, 'u1024', 'noise', 'n', 'boundary'))
            it.append(case(rate, ch, mode, n, 'u511', 'imp%d' % max(0, n - bs1 // 2 - bs0), 'nf3', 'boundary'))
            if tier != 'quick':
                it.append(case(rate, ch, mode, n, 'u7', 'sine', 'n', 'boundary'))
    # ---- big pieces: "in pieces of any sizes" includes pieces far beyond one block and beyond 64 Ki samples (round-8 seed C04r8-2: the encoder never started when the
    # FIRST piece exceeded ~64 Ki samples). N around 2^16 and 2^17 x {one piece, 2^16(+1) pieces, 2^15, 1024, first piece big then the rest (s<a>), small then big}
    bigit = []
    for cfg in (A8, C44S):
        for n in (65535, 65536, 65537, 70001, 131073):
            for chunk in ('u%d' % n, 'u65536', 'u65537', 'u32768', 'u1024', 's65536', 's65537', 's%d' % (n - 1), 's1', 's1024'):
                if chunk.startswith('s') and not (0 < int(chunk[1:]) < n):
                    continue
                bigit.append(case(*cfg, n, chunk, 'noise', 'n', 'bigpieces', 'big:' + ('whole' if chunk == 'u%d' % n else chunk)))
    G.insert(0, ('bigpieces', bigit))
    # the two small bitrate-management groups go first so that a deadline never cuts them
    G.insert(0, ('abr_easy', abr_easy_cases(tier)))
    G.insert(0, ('hardmax', hardmax_cases(tier)))
    G.append(('boundary', it))
    # ---- full N sweeps, a few chunkings (both tiers)
    for name, (cfg, combos) in QCOMBOS.items():
        G.append((name, sweep(name, *cfg, NMAX[cfg], combos)))
    # ---- pieces of one sample
    G.append(('onesample_pieces', sweep('onesample_pieces', *A8, 600, [('u1', 'noise', 'n')])))
    # ---- every 2-part split (a, N-a)
    it = splits('splits', *A8, list(range(2, 129)) + [511, 512, 513, 514, 515, 640, 768, 769, 1024, 1025, 1100], 'noise')
    it += splits('splits', *B16, [1023, 1024, 1025, 1026, 1100], 'sine')
    it += splits('splits', *C44, [2049], 'trn900')
    G.append(('splits', it))
    if tier == 'quick':
        return G
    # ---- thorough only
    seen = set(x[0] for _, items in G for x in items)

    def fresh(items):
        out = [x for x in items if x[0] not in seen]
        seen.update(x[0] for x in out)
        return out
    # full sweeps of the other block-size pairs, managed mode, the direct packet interface, 5.1
    for name, cfg, nmax, combos in (
            ('sweep_16k_mono_lowq_1024_1024', (16000, 1, 'q-0.1'), 4200, [('whole', 'sine', 'nf3'), ('u1024', 'noise', 'n'), ('u511', 'trn3000', 'n')]),
            ('sweep_44k_mono_lowq_512_4096', (44100, 1, 'q-0.1'), 9300, [('whole', 'sine', 'nf3'), ('u1024', 'noise', 'n'), ('u511', 'trn3000', 'n')]),
            ('sweep_44k_stereo_managed', (44100, 2, 'm-1,128000,-1'), 9300, [('u1024', 'noise', 'n'), ('u511', 'trn3000', 'n')]),
            ('sweep_44k_stereo_managed_hard', (44100, 2, 'm160000,128000,96000'), 9300, [('u1024', 'trn3000', 'n')]),
            ('sweep_8k_mono_direct', (8000, 1, 'd0.3'), 5200, [('u1024', 'noise', 'nf3')]),
            ('sweep_44k_stereo_direct', (44100, 2, 'd0.3'), 9300, [('u511', 'trn3000', 'n')]),
            ('sweep_44k_5point1', (44100, 6, 'q0.3'), 9300, [('u1024', 'noise', 'n')])):
        G.append((name, fresh(sweep(name, *cfg, nmax, combos))))
    # impulse at every 64th position (256/2048: where the short blocks sit relative to the end of input)
    it = []
    for cfg in (C44, C44S):
        bs0, bs1 = probe_bs.get(cfg, (256, 2048))
        for n in [k * (bs1 // 4) + d for k in range(1, 19) for d in (-1, 0, 1)]:
            for p in range(0, n, 64):
                it.append(case(*cfg, n, 'u1024', 'imp%d' % p, 'n', 'impulse_positions'))
    G.append(('impulse_positions', fresh(it)))
    it = []
    for s in ['sil', 'dc', 'sine', 'noise', 'trn300']:
        it += sweep('onesample_pieces_more', *A8, 600, [('u1', s, 'n')])
    it += sweep('onesample_pieces_more', *B16, 1100, [('u1', 'noise', 'n')])
    it += [case(*C44, n, 'u1', 'trn900', 'n', 'onesample_pieces_more') for n in range(2030, 2120)]
    G.append(('onesample_pieces_more', fresh(it)))
    # every 2-part split for every N <= 1100 (8 kHz), and around the long block size elsewhere
    it = splits('splits_all', *A8, range(2, 1101), 'noise')
    it += splits('splits_all', *B16, list(range(2, 301)) + list(range(1000, 1101)), 'sine')
    it += splits('splits_all', *C44, range(2040, 2061), 'trn900')
    it += splits('splits_all', *C44S, [2049, 2305], 'noise', 'nf3')
    G.append(('splits_all', fresh(it)))
    # all chunkings x 5 signals on the full N sweeps
    sigs = lambda t: ['sil', 'dc', 'sine', 'noise', t]
    for name, cfg, t in (('sweep_8k_mono_512_512', A8, 'trn1300'), ('sweep_16k_mono_512_1024', B16, 'trn1300'), ('sweep_44k_mono_256_2048', C44, 'trn3000')):
        combos = [(c, s, 'n') for c in CHUNKS for s in sigs(t)] + [('r333', t, 'n'), ('r1000', 'noise', 'n')]
        G.append((name + '_all_chunkings_x_signals', fresh(sweep(name + '_all_chunkings_x_signals', *cfg, NMAX[cfg], combos))))
    G.append(('sweep_44k_stereo_256_2048_all_chunkings', fresh(sweep('sweep_44k_stereo_256_2048_all_chunkings', *C44S, NMAX[C44S], [(c, s, 'n') for c in CHUNKS for s in ('noise', 'trn1700')]))))
    return G


def run(tier):
    chk = vlib.Check(PID, tier, 'exploration')
    vlib.build('plain')
    exe = vlib.harness('plain', HARNESS)
    t0 = time.time()
    # internal deadline; C04_DEADLINE_S overrides it (only to measure a complete run on an overloaded machine)
    deadline = t0 + float(os.environ.get('C04_DEADLINE_S') or (225 if tier == 'quick' else 21 * 60))
    R = Runner(chk, exe, deadline)
    # phase 1: probe every configuration with N=0 (this is also the N=0 member of every configuration)
    rates = RATES_Q if tier == 'quick' else RATES_T
    probe = []
    for rate in rates:
        for ch in CHANS:
            for mode in vbr_modes(tier) + managed_modes(rate, ch, tier):
                probe.append(case(rate, ch, mode, 0, 'u1', 'sil', 'nf3', 'probe_N0'))
    reduced = {}
    for rate, ch, mode, red in exotic_configs(tier):
        probe.append(case(rate, ch, mode, 0, 'u1', 'sil', 'nf3', 'probe_N0'))
        reduced[(rate, ch, mode)] = red
    R.run_group('probe_N0', probe)
    probe_bs = dict(R.bsinfo)
    for n, _, line, m, r, _, _ in R.fail:
        cfg = (m['rate'], m['ch'], m['mode'])
        probe_bs.pop(cfg, None)     # a configuration failing at N=0 is already a violation; no boundary set for it
    # phase 2
    groups = plan(tier, probe_bs, reduced)
    planned = sum(len(it) for _, it in groups) + len(probe)
    for name, items in groups:
        if time.time() > deadline:
            R.cut = True
            R.groups.setdefault(name, {'cases': 0, 'ok': 0, 'planned': len(items), 'complete': False})['complete'] = False
            continue
        R.run_group(name, items)
    # violations: smallest N first so that the replay kept per key is the minimal one
    for n, _, line, m, r, bs0, bs1 in sorted(R.fail, key=lambda x: x[:3]):
        st = r.split(' ')[0]
        parts = st.split(':')
        if st.startswith('bad:'):
            what = parts[1]
            if len(parts) > 2 and (parts[2] in ('natural', 'flush') or parts[2].startswith('every')):
                what += ':' + parts[2]
        else:
            what = st.lower()   # died / timeout / nooutput
        key = f"{what}:bs{bs0}_{bs1}:{ {'m': 'managed', 'q': 'vbr', 'd': 'vbr_direct', 'h': 'vbr_hardmax'}[m['mode'][0]] }:{nclass(n, bs0, bs1) if bs0 else 'N?'}"
        chk.violation(key, f"{m['rate']} Hz {m['ch']} ch {m['mode']} N={n} chunking {m['chunk']} signal {m['sig']} layouts {m['lay']}: expected {n} samples/granule; executor says: {r[:300]}", {'case': line})
    sweeps_complete = {k: v for k, v in R.groups.items() if k.startswith('sweep_')}
    chk.cov.update({
        'distinct_nontrivial': len(R.sigs),
        'exhaustive': not R.cut,
        'cut_reason': R.cut_why,
        'planned_cases': planned,
        'groups': R.groups,
        'configs_passing': len(R.cfg_ok),
        'configs_rejected_by_encoder_setup': len(R.setupfail),
        'configs_rejected_list': ['%d Hz %d ch %s' % c for c in sorted(R.setupfail)][:40],
        'blocksize_pairs': R.bs_seen,
        'channels_ok': {str(k): v for k, v in sorted(R.ch_ok.items())},
        'stats': R.stat,
        'rule': 'ENUM over (rate, channels, mode, N, piece schedule, signal, page layouts): every N in 0..Nmax for the sweep configs (8 kHz mono 512/512 Nmax 5200, 16 kHz mono 512/1024 Nmax 4200, '
                '44.1 kHz mono+stereo 256/2048 Nmax 9300; thorough adds 1024/1024, 512/4096, managed and 5.1 sweeps and all chunkings x 5 signals), every 2-part split (a,N-a) for the listed N, '
                'one-sample pieces, average-bitrate managed encodes of easy signals (vorbis_encode_init (-1,nom,-1) and with min/max around nom, 3 nominal rates per rates {8000,22050,44100} x {1,2} ch, silence / 0.01 tone / 0.5 s loud noise then quiet tail, N in {5001,12001,25001,50001,100000,176400}), hard-maximum encodes (setup_vbr q + OV_ECTL_RATEMANAGE2_SET max {24,40,64 kbps; 8,12,16 at 8 kHz} x reservoir bits x bias, and vorbis_encode_init max-only, rates {8000,22050,44100} x {1,2} ch, full-scale noise / loud 7-tone mix, N in {3001,12001,12288,40001,...}), boundary sets of N around multiples of short/4 and long/4 for every (rate x {1,2,6} ch x VBR/managed/direct mode) configuration that sets up plus other channel counts (3..255) and the extremes of the rate range (4000..200000 Hz); each case: real encoder -> libogg pages in memory '
                '(layouts n=pageout, f=flush per packet, 3=flush per 3 packets) -> packet-API decode, vorbisfile seekable, vorbisfile streaming; oracle = construction (N). '
                'distinct_nontrivial = number of distinct (config, N mod long/4, chunking class, signal kind) among passing cases with N>0',
        'samples': R.samples,
    })
    chk.assumptions += [
        'the application drains vorbis_analysis_blockout/vorbis_bitrate_flushpacket after every vorbis_analysis_wrote (the documented loop); other call orders are not enumerated',
        'pages are produced by libogg (trusted base) with three policies; the property is judged for each policy separately',
        '"starts at zero" is judged as: ov_pcm_tell()==0 after open, and at every packet that carries a granule position the number of samples decoded so far equals that granule position',
        'configurations that vorbis_encode_init* rejects are outside the quantifier and are skipped (counted in configs_rejected_by_encoder_setup)',
        'alignment/quality of the decoded audio is C06; this check only counts samples and reads positions',
        'an audio packet of zero bytes is reported under its own predicate enc_empty_audio_packet: libvorbis decoders reject it (OV_ENOTAUDIO), so it always also loses samples',
        'the executor reads the hard-limit reservoir fill from codec_internal.h for the vacuity statistics only (rfull); it never enters a verdict',
    ]
    s = R.stat
    chk.guard(not R.badcase, 'executor accepted every generated case line (%s)' % R.badcase[:2])
    done = lambda name: R.groups.get(name, {}).get('complete') and R.groups[name]['cases'] + R.groups[name].get('rejected_by_setup', 0) == R.groups[name]['planned']
    # coverage facts are demanded of the groups that ran to completion (a deadline cut is reported as exhaustive:false, not as a broken check)
    if done('probe_N0'):
        chk.guard(set(R.cfg_ok) <= R.cfg_n0 and len(R.cfg_n0) >= 20, 'N=0 passed for every configuration that sets up')
    if done('abr_easy'):
        chk.guard(s['abr_easy_ok'] >= 1000, 'average-bitrate managed encodes of easy signals covered')
        chk.guard(s['abr_easy_top_blob_ok'] >= 300, 'rate manager reached the highest packet blob in at least 300 passing cases')
        chk.guard(s['managed_bottom_blob_ok'] >= 100, 'rate manager reached the lowest packet blob in at least 100 passing cases')
    if done('hardmax'):
        chk.guard(s['hardmax_ok'] >= 1000, 'hard-maximum (RATEMANAGE2 / max-only) encodes covered')
        chk.guard(s['hardmax_reservoir_full_ok'] >= 300, 'hard-maximum reservoir driven to full (blob down-selection / frame truncation regime) in at least 300 passing cases')
    if done('boundary'):
        chk.guard(s['below_short_block_ok'] >= 100, '0<N<one short block covered')
        chk.guard(s['managed_ok'] >= 100, 'bitrate-managed encodes covered')
        chk.guard(all(R.ch_ok.get(c, 0) >= 50 for c in CHANS) and R.ch_ok.get(255, 0) >= 5, 'channel counts 1, 2, 6 (and 255) covered')
        chk.guard(len(R.bs_seen) >= 4, 'at least 4 distinct block-size pairs covered')
        chk.guard(s['multi_audio_page_natural_ok'] >= 1, 'at least one natural-layout stream with more than one audio page')
        chk.guard(any(c[2][0] == 'd' for c in R.cfg_ok), 'direct vorbis_analysis(vb,&op) packet interface covered')
    if done('sweep_44k_mono_256_2048'):
        chk.guard(s['mixed_blocks_44k_impulse_ok'] >= 50, 'streams with long blocks and short blocks following long blocks (44.1 kHz impulse signals) covered')
    for name, g in sweeps_complete.items():
        if g['complete']:
            chk.guard(g['cases'] == g['planned'], f'{name}: every planned N executed ({g["planned"]} cases)')
    chk.guard(any(g['complete'] for g in sweeps_complete.values()), 'at least one full N sweep completed before the deadline')
    return chk.finish()


def replay(path):
    r = json.load(open(path))
    vlib.build('plain')
    exe = vlib.harness('plain', HARNESS)
    out = vlib.run_cases(exe, [r['replay']['case']], jobs=1, tag='c04replay')
    print('case    :', r['replay']['case'])
    print('expected: ok (decoded count, last granule and ov_pcm_total all equal N)')
    print('observed:', out[0])
    return 0 if (out[0] or '').startswith('ok') else 1
