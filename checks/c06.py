"""C06: decoded audio is time-aligned with the input, finite, channel-faithful, peak-bounded and quality-bounded.
Bounded-exhaustive enumeration of a finite parametrised signal family x configurations through the real encoder and
the real packet-level decoder (harness/c06_quality.c); every member is judged, nothing is sampled."""
import sys, os, time, json, itertools
import vlib

PID = 'C06'
RATES = [8000, 22050, 44100, 96000]
CHS = [1, 2, 3, 6]
QS = [0.0, 0.3, 0.5, 0.8, 1.0]
MODES = ['q', 'a']            # q: vorbis_encode_init_vbr(q); a: ABR vorbis_encode_init(-1, nominal(q), -1)
# highest frequency any tone / sweep uses: min(0.4 x Nyquist, comfortably below the lowest encoder lowpass of that rate
# (96 kHz uses the 44.1k lowpass table: 15.1 kHz at q=0)).  Noise additionally stays below 0.3 x Nyquist (in the harness).
FMAX = {8000: 1600, 22050: 4410, 44100: 8820, 96000: 12000}
# In the 5.1 template (6 channels, 40-50 kHz) channel 5 is the LFE channel: vorbisenc.c low-passes its residue at ~250 Hz
# by design ("LFE channel; lowpass at ~ 250Hz").  Its content is therefore drawn from the same family with fmax = 200 Hz.
LFE_FMAX = 200

UNIQUE = 1.2   # peak / second-largest-local-maximum of the input autocorrelation needed for a channel to be used for alignment
APERIODIC = ('b2', 'b5', 'sw', 'nz', 'ck')       # classes with a unique correlation peak by construction -> alignment judged
BANDLIMITED = ('t2', 't5', 'b2', 'b5', 'sw', 'nz')  # classes with an SNR floor (click trains are full-band)

# ----------------------------------------------------------------------------------------------------------------
# SNR floor table, dB: FLOOR[class][mode][quality index].  Regression-style bound: measured minimum over the whole
# thorough family (all rates, channel counts, lengths, parameters; min over channels) on the unchanged tree, minus 6 dB,
# then made non-decreasing in q by lowering (floor(q) = min over q' >= q).  MEASURED holds the raw minima.
# (filled in from a measurement run: VERIF_C06_MEASURE=1 bin/check C06 --tier thorough)
MEASURED = {}
FLOOR = {}
# ----------------------------------------------------------------------------------------------------------------


def family(tier):
    """-> list of (class, sig string)."""
    fam = []
    if tier == 'quick':
        fam += [('t2', 't:%d,%d:5' % p) for p in itertools.combinations(range(5), 2)]
        fam += [('t5', 't:%s:6' % ','.join(map(str, s))) for s in itertools.combinations(range(6), 5)]
        fam += [('b2', 'b:%d,%d:4:384:400' % p) for p in itertools.combinations(range(4), 2)]
        fam += [('b5', 'b:0,1,2,3,4:5:512:600')]
        fam += [('sw', 's:%d:%d' % p) for p in itertools.permutations([50, 500, 1000], 2)]
        fam += [('nz', 'n:%d:64' % s) for s in (1, 2, 3)]
        fam += [('ck', 'c:%d:12:%d' % (s, w)) for s in (1, 2, 3) for w in (1, 5)]
    else:
        fam += [('t2', 't:%d,%d:12' % p) for p in itertools.combinations(range(12), 2)]
        fam += [('t5', 't:%s:8' % ','.join(map(str, s))) for s in itertools.combinations(range(8), 5)]
        fam += [('b2', 'b:%d,%d:6:%d:%d' % (p[0], p[1], L, pos)) for p in itertools.combinations(range(6), 2) for L in (256, 1024) for pos in (250, 600)]
        fam += [('b5', 'b:%s:6:512:600' % ','.join(map(str, s))) for s in itertools.combinations(range(6), 5)]
        fam += [('sw', 's:%d:%d' % p) for p in itertools.permutations([50, 350, 650, 1000], 2)]
        fam += [('nz', 'n:%d:%d' % (s, K)) for s in range(1, 7) for K in (32, 128)]
        fam += [('ck', 'c:%d:%d:%d' % (s, cnt, w)) for s in range(1, 7) for cnt in (6, 20) for w in (1, 5)]
    return fam


def lengths(tier, rate):
    n0 = int(round(0.3 * rate))
    if tier == 'quick':
        return [n0]
    return [n0, int(round(0.17 * rate)) | 1, int(round(0.45 * rate)) + 37]


def is51(ch, rate):
    return ch == 6 and 40000 <= rate <= 50000


def mkcase(rate, ch, mode, q, n, sig):
    fm = '%d' % FMAX[rate]
    return '%d %d %s%g %d %s%s %s' % (rate, ch, mode, q, n, fm, (',%d' % LFE_FMAX) if is51(ch, rate) else '', sig)


def parse(r):
    d = {}
    for tok in r.split()[1:]:
        k, _, v = tok.partition('=')
        d[k] = v
    return d


def fl(d, k):
    return [float(x) for x in d[k].split(',')]


def judge(m, r):
    """m: member dict (cls, rate, ch, mode, q, n, sig); r: harness result text.  -> (status, [(key, desc)], info dict)
    status: 'ok' | 'skip' | 'bad'"""
    cfg = 'r%d:c%d:%s%g' % (m['rate'], m['ch'], m['mode'], m['q'])
    r = r or 'NOOUTPUT'
    if r.startswith('skip:'):
        return 'skip', [], {'why': r.split()[0]}
    if not r.startswith('ok '):
        return 'bad', [('executor:%s:%s:%s' % (r.split()[0][:40], m['cls'], cfg), 'member %s: %s' % (m['case'], r[:300]))], {}
    d = parse(r)
    v = []
    cls, ch, n = m['cls'], m['ch'], m['n']
    qi = QS.index(m['q'])
    snr, lag, rat, ids, ira = fl(d, 'snr'), [int(x) for x in d['lag'].split(',')], fl(d, 'rat'), [int(x) for x in d['id'].split(',')], fl(d, 'ira')
    if is51(ch, m['rate']):
        # LFE channel (residue low-passed at ~250 Hz by design): kept in the finiteness / peak / identity tests, but its content
        # (< 200 Hz, or a burst/click whose spectrum the low-pass truncates) can neither resolve a lag to one sample nor carry an SNR bound
        snr, lag, rat, ira = snr[:5], lag[:5], rat[:5], ira[:5]
    pki, pko, dec = float(d['pki']), float(d['pko']), int(d['dec'])
    cplsteps = int(d['cpl'])
    pf = 3.0 if cplsteps >= 2 else 2.0
    info = {'pkratio': pko / pki if pki > 0 else 0.0, 'snr': min(snr), 'snrs': snr, 'rat': min(rat), 'cpl': int(d['cpl']), 'sal': int(d['sal']), 'sh': int(d['sh']), 'lg': int(d['lg']),
            'xin': float(d['xin']), 'idm': float(d['idm']), 'lag_judged': False, 'lag_channels': 0, 'lag_channels_ambiguous': 0, 'id_judged': False, 'snr_judged': False}
    if d['fin'] != '1':
        v.append(('nonfinite_sample:%s:%s' % (cls, cfg), 'a decoded sample is NaN/Inf: %s' % m['case']))
    if dec < 0.9 * n:
        v.append(('output_too_short:%s:%s' % (cls, cfg), 'decoded %d of %d samples, nothing to compare: %s' % (dec, n, m['case'])))
        return 'ok', v, info
    if pko > pf * pki + 0.05:
        v.append(('peak_blowup:%s:%s' % (cls, cfg), 'output peak %.4f > %g x input peak %.4f + 0.05: %s' % (pko, pf, pki, m['case'])))
    if cls in APERIODIC:
        # a channel is judged iff the autocorrelation of its INPUT has a unique peak (signal property, independent of the codec)
        jc = [c for c in range(len(lag)) if ira[c] >= UNIQUE]
        info['lag_judged'] = bool(jc)
        info['lag_channels'] = len(jc)
        info['lag_channels_ambiguous'] = len(lag) - len(jc)
        info['rat'] = min([rat[c] for c in jc]) if jc else None
        if any(lag[c] != 0 for c in jc):
            v.append(('misaligned:%s:%s' % (cls, cfg), 'cross-correlation peak at lags %s (must be 0 on every channel whose input autocorrelation peak is unique: channels %s), peak/second ratios %s: %s' % (lag, jc, rat, m['case'])))
    if ch >= 2:
        info['id_judged'] = True
        if ids != list(range(ch)):
            v.append(('channel_permuted:%s:%s' % (cls, cfg), 'best-correlated input channel per output channel %s (must be identity), margin %s: %s' % (ids, d['idm'], m['case'])))
    if cls in BANDLIMITED and FLOOR:
        info['snr_judged'] = True
        f = FLOOR[cls][m['mode']][qi]
        if min(snr) < f:
            v.append(('snr_below_floor:%s:%s' % (cls, cfg), 'SNR %s dB (min %.2f) below floor(%s,%s,q=%g)=%.1f dB: %s' % (d['snr'], min(snr), cls, m['mode'], m['q'], f, m['case'])))
    return 'ok', v, info


def exe_():
    vlib.build('plain')
    return vlib.harness('plain', 'c06_quality', extra='-O3')


def run(tier):
    chk = vlib.Check(PID, tier, 'exploration')
    exe = exe_()
    measure = os.environ.get('VERIF_C06_MEASURE') == '1'
    budget = float(os.environ.get('VERIF_C06_BUDGET', (25 * 60 - 150) if tier == 'thorough' else 170))
    fam = family(tier)
    # enumeration order: batches = one (length index, class) slice over all configurations; complete batches only
    members = []
    for li in range(len(lengths(tier, 8000))):
        for cls in ('ck', 'sw', 'nz', 'b2', 'b5', 't2', 't5'):
            batch = []
            for rate in RATES:
                n = lengths(tier, rate)[li]
                for ch in CHS:
                    for mode in MODES:
                        for q in QS:
                            for c, sig in fam:
                                if c != cls:
                                    continue
                                m = {'cls': cls, 'rate': rate, 'ch': ch, 'mode': mode, 'q': q, 'n': n, 'sig': sig}
                                m['case'] = mkcase(rate, ch, mode, q, n, sig)
                                batch.append(m)
            members.append(((li, cls), batch))
    total = sum(len(b) for _, b in members)
    passed, skipped, nviol = set(), {}, 0
    stats = {'members': total, 'executed': 0, 'lag_judged': 0, 'lag_channels_judged': 0, 'lag_channels_ambiguous_not_judged': 0, 'lag_judged_by_class': {}, 'min_ratio': 1e9, 'id_judged': 0, 'id_ge3ch': 0, 'id_coupled_stereo': 0,
             'id_coupled_51': 0, 'snr_judged': 0, 'long_to_short_members': 0, 'short_block_members': 0, 'max_input_crosscorr': 0.0, 'min_id_margin': 1e9,
             'max_peak_ratio_uncoupled_or_stereo': 0.0, 'max_peak_ratio_multichannel_coupled': 0.0}
    meas = {}     # (cls, mode, qi) -> min snr ; also per rate
    series = {}   # (cls, sig, ch, rate, mode, n) -> {qi: snr}
    done_batches, cut = [], []
    samples = []
    ratios = {}
    peaks = []
    for (li, cls), batch in members:
        if time.time() - chk.t0 > budget:
            cut.append('%s@len%d' % (cls, li))
            continue
        if vlib.SEED:
            import random
            random.Random(vlib.SEED).shuffle(batch)
        res = vlib.run_cases(exe, [m['case'] for m in batch], tag='c06')
        done_batches.append('%s@len%d' % (cls, li))
        for m, r in zip(batch, res):
            chk.cov['evaluations'] += 1
            stats['executed'] += 1
            st, v, info = judge(m, r)
            if st == 'skip':
                skipped.setdefault((m['rate'], m['mode'], info['why']), 0)
                skipped[(m['rate'], m['mode'], info['why'])] += 1
                continue
            for key, desc in v:
                nviol += 1
                chk.violation(key, desc, {'case': m['case'], 'member': m, 'result': (r or '')[:600]})
            if st != 'ok':
                continue
            if not v:
                passed.add((m['cls'], m['ch'], m['rate'], m['q'], m['mode']))
            pk = 'max_peak_ratio_multichannel_coupled' if info['cpl'] >= 2 else 'max_peak_ratio_uncoupled_or_stereo'
            stats[pk] = max(stats[pk], round(info['pkratio'], 4))
            peaks.append((round(info['pkratio'], 4), info['cpl'], m['case']))
            if m['cls'] in APERIODIC:
                stats['lag_channels_ambiguous_not_judged'] += info['lag_channels_ambiguous']
            if info['lag_judged']:
                ratios.setdefault(m['cls'], []).append(info['rat'])
                stats['lag_judged'] += 1
                stats['lag_channels_judged'] += info['lag_channels']
                stats['lag_judged_by_class'][m['cls']] = stats['lag_judged_by_class'].get(m['cls'], 0) + 1
                stats['min_ratio'] = min(stats['min_ratio'], info['rat'])
            if info['id_judged']:
                stats['id_judged'] += 1
                stats['id_ge3ch'] += m['ch'] >= 3
                stats['id_coupled_stereo'] += (m['ch'] == 2 and info['cpl'] > 0)
                stats['id_coupled_51'] += (m['ch'] == 6 and info['cpl'] > 1)
                stats['max_input_crosscorr'] = max(stats['max_input_crosscorr'], info['xin'])
                stats['min_id_margin'] = min(stats['min_id_margin'], info['idm'])
            stats['snr_judged'] += info['snr_judged']
            stats['long_to_short_members'] += info['sal'] > 0
            stats['short_block_members'] += (info['sh'] > 0 and info['lg'] > 0)
            if m['cls'] in BANDLIMITED:
                qi = QS.index(m['q'])
                for k in ((m['cls'], m['mode'], qi), (m['cls'], m['mode'], qi, m['rate']), (m['cls'], m['mode'], qi, m['rate'], m['ch'])):
                    if info['snr'] < meas.get(k, (1e9,))[0]:
                        meas[k] = (info['snr'], m['case'])
                series.setdefault((m['cls'], m['sig'], m['ch'], m['rate'], m['mode'], m['n']), {})[qi] = info['snr']
            if len(samples) < 12 and (chk.cov['evaluations'] % max(1, total // 12) == 1):
                samples.append({'case': m['case'], 'class': m['cls'], 'result': (r or '')[:260]})
    # informational: how many (signal, channels, rate, mode, length) series have SNR non-decreasing in q
    mono = sum(1 for s in series.values() if len(s) == len(QS) and all(s[i] <= s[i + 1] for i in range(len(QS) - 1)))
    full = sum(1 for s in series.values() if len(s) == len(QS))
    endsup = sum(1 for s in series.values() if len(s) == len(QS) and s[0] <= s[len(QS) - 1])
    stats.update({'snr_series_complete': full, 'snr_series_monotone_in_q': mono, 'snr_series_q1_ge_q0': endsup})
    if measure:
        for c_, rr in ratios.items():
            rr.sort()
            print('peak/second ratio', c_, 'n', len(rr), 'min %.3f p1 %.3f p10 %.3f med %.3f' % (rr[0], rr[len(rr) // 100], rr[len(rr) // 10], rr[len(rr) // 2]))
        peaks.sort(reverse=True)
        for cp in (0, 1, 4):
            print('top peak ratios cpl=%d:' % cp, [x for x in peaks if x[1] == cp][:6])
        print('MEASURED minima (class, mode): per q')
        for cls in BANDLIMITED:
            for mode in MODES:
                row = [meas.get((cls, mode, qi), (None,))[0] for qi in range(len(QS))]
                print("    '%s/%s': %s," % (cls, mode, json.dumps([None if x is None else round(x, 2) for x in row])))
                for rate in RATES:
                    rr = [meas.get((cls, mode, qi, rate), (None,))[0] for qi in range(len(QS))]
                    print('        # %5d: %s' % (rate, ' '.join('%7s' % ('-' if x is None else '%.2f' % x) for x in rr)), ' | '.join(
                        ' '.join('-' if meas.get((cls, mode, qi, rate, ch)) is None else '%.0f' % meas[(cls, mode, qi, rate, ch)][0] for qi in range(len(QS))) for ch in CHS))
                for qi in range(len(QS)):
                    if (cls, mode, qi) in meas:
                        print('        # worst q=%g: %s' % (QS[qi], meas[(cls, mode, qi)][1]))
    table_ok = bool(FLOOR) and all(FLOOR[c][mo][i] <= FLOOR[c][mo][i + 1] for c in BANDLIMITED for mo in MODES for i in range(len(QS) - 1))
    if stats['min_ratio'] > 1e8:
        stats['min_ratio'] = None
    if stats['min_id_margin'] > 1e8:
        stats['min_id_margin'] = None
    stats['skipped'] = {'%d:%s:%s' % k: n for k, n in sorted(skipped.items())}
    chk.cov.update(stats)
    chk.cov['samples'] = samples
    chk.cov['batches_complete'] = done_batches
    chk.cov['batches_not_run'] = cut
    chk.cov['exhaustive'] = not cut
    chk.cov['snr_floor_table_dB'] = {c: FLOOR[c] for c in FLOOR}
    chk.cov['distinct_nontrivial'] = len(passed)
    chk.cov['rule'] = (
        'every member of the finite family {two-tone chords: all pairs of a frequency grid; five-tone chords: all 5-subsets of a grid; Hann-windowed chord bursts; linear sweeps: all ordered pairs of band edges; '
        'band-limited LCG noise (sums of 32-128 random-phase sinusoids below 0.3 Nyquist); aperiodic LCG click trains (1- and 5-sample clicks)} with per-channel distinct content '
        f'x channels {CHS} x rates {RATES} x quality {QS} x {{VBR, ABR at the nominal bitrate of that quality}} x lengths ({"0.3 s" if tier == "quick" else "0.3 s, 0.17 s (odd), 0.45 s+37"}); tones/sweeps below min(0.4 Nyquist, encoder lowpass), '
        'LFE channel of the 5.1 template below 200 Hz. Judged on every member: all samples finite; output peak <= 2 x input peak + 0.05; best lag-0-correlated input channel of every output channel is itself (>=2 channels); '
        'SNR >= floor(class, mode, q) for the band-limited classes (regression table, non-decreasing in q). ALIGNMENT (arg max of the input/output cross-correlation over all lags -4096..4096 is 0, every channel) is judged only on members with '
        'aperiodic structure (click trains, sweeps, noise, Hann-windowed bursts): stationary chords have a periodic, ambiguous correlation peak and are NOT used for alignment. '
        'distinct_nontrivial = distinct (signal class, channels, rate, quality, managed) tuples with at least one member that passed every judged predicate')
    chk.assumptions += [
        'finite family only: "for any input signal" is out of reach; nothing is claimed about signals outside the enumerated family',
        'the SNR floor is a regression-style table (measured minimum on the unchanged tree minus 6 dB, monotone in q); the property only demands that such a quality-dependent, tightening bound exists',
        'channel identity is judged as "arg max over input channels of the normalised lag-0 correlation is the channel itself", not as a separation bound (lossy coupling may legitimately leak between channels)',
        'ABR members exist only where the bitrate-managed set-up succeeds (the 50-200 kHz template has no bitrate map: ABR at 96000 Hz is not a successfully configured setting and is skipped)',
        'in the 5.1 template (6 ch, 40-50 kHz) channel 5 is the LFE channel, low-passed at ~250 Hz by design; its test content stays below 200 Hz',
        'input and output are compared over the decoded range (the exact sample count is property C04)']
    if not measure:
        chk.guard(table_ok, 'SNR floor table present and non-decreasing in q for every (class, mode)')
    chk.guard(stats['lag_judged'] >= 1000 and len(stats['lag_judged_by_class']) >= 4, 'alignment judged on >=1000 members from >=4 signal classes, each judged channel having a unique input autocorrelation peak (peak/second-peak >= %g)' % UNIQUE)
    chk.guard(stats['id_ge3ch'] >= 200 and stats['id_coupled_stereo'] >= 50 and stats['id_coupled_51'] >= 10, 'channel identity judged on >=200 members with >=3 channels, >=50 coupled-stereo members and >=10 coupled 5.1 members')
    chk.guard(stats['max_input_crosscorr'] < 0.5, 'input channels carry distinct content (max normalised cross-correlation between input channels < 0.5)')
    chk.guard(stats['long_to_short_members'] >= 100, '>=100 members contained a long->short block transition')
    chk.guard(all(k[0] == 96000 and k[1] == 'a' for k in skipped), 'only ABR at 96000 Hz was refused by the encoder set-up')
    chk.guard(len(passed) >= 100 or nviol > 0, 'at least 100 distinct configurations passed')
    return chk.finish()


def replay(path):
    r = json.load(open(path))
    exe = exe_()
    m = r['replay']['member']
    out = vlib.run_cases(exe, [r['replay']['case']], jobs=1)
    st, v, info = judge(m, out[0])
    print(out[0])
    for key, desc in v:
        print('STILL FAILS', key, desc)
    return 1 if (v or st == 'bad') else 0
