"""C06: decoded audio is time-aligned with the input, finite, channel-faithful, peak-bounded and quality-bounded.
Bounded-exhaustive enumeration of a finite parametrised signal family x configurations through the real encoder and
the real packet-level decoder (harness/c06_quality.c); every member is judged, nothing is sampled."""
import sys, os, time, json, itertools, subprocess
import vlib
import c06_sched as S

PID = 'C06'
RATES = [8000, 22050, 44100, 96000]
CHS = [1, 2, 3, 6]
QS = [0.0, 0.3, 0.5, 0.8, 1.0]
MODES = ['q', 'a']            # q: vorbis_encode_init_vbr(q); a: ABR vorbis_encode_init(-1, nominal(q), -1)
# highest frequency any tone / sweep uses: min(0.4 x Nyquist, comfortably below the lowest encoder lowpass of that rate
# (96 kHz uses the 44.1k lowpass table: 15.1 kHz at q=0)).  Noise additionally stays below 0.3 x Nyquist (in the harness).
FMAX = {8000: 1600, 22050: 4410, 44100: 8820, 48000: 9600, 96000: 12000}
# In the 5.1 template (6 channels, 40-50 kHz) channel 5 is the LFE channel: vorbisenc.c low-passes its residue at ~250 Hz
# by design ("LFE channel; lowpass at ~ 250Hz").  Its content is therefore drawn from the same family with fmax = 200 Hz.
LFE_FMAX = 200
# LFE-content slice: 6 channels on the 5.1 template, qualities down to -0.1, LFE tone (amplitude 0.5) at these frequencies, abrupt and faded
LFE_RATES = [44100, 48000]
LFE_QS = [-0.1, -0.05, 0.0, 0.3]
LFE_HZ = [60, 130, 200, 260]

# level-gap slice: one quiet channel (channel 1: two-tone at GAP_DB dBFS, base frequency GAP_HZ) next to loud channels, and the same quiet content
# with silent neighbours.  Differential oracle: SNR(quiet | loud neighbours) >= SNR(quiet | silent neighbours) - GAP_D; absolute floor GAP_FLOOR.
# Measured on /repo 8b10cf9 (0.3 s and 1 s, 2 and 3 channels, VBR and ABR): largest deficit 0.8 dB at 60/90 Hz and 6.0 dB at 13 kHz (the encoder
# floats the ATH and selects tone curves by a stream-wide level by design, which costs the 13 kHz member up to 6 dB: tolerated, +3 dB margin).
GAP_RATE, GAP_CHS, GAP_QS, GAP_HZ, GAP_DB = 44100, [3, 2], [0.3, 0.5, 0.7], [60, 90, 13000], [-80, -60]
GAP_D = {'low': 3.0, 'high': 9.0}
# measured minima of the quiet channel's SNR next to loud channels, dB, per quality: low/-80 18.9 20.4 22.3, low/-60 25.8 29.6 31.9,
# high/-80 11.3 14.3 16.0, high/-60 16.3 18.5 21.5; floor = measured - 6 dB
GAP_FLOOR = {('low', -80): [12.9, 14.4, 16.3], ('low', -60): [19.8, 23.6, 25.9], ('high', -80): [5.3, 8.3, 10.0], ('high', -60): [10.3, 12.5, 15.5]}

UNIQUE = 1.2   # peak / second-largest-local-maximum of the input autocorrelation needed for a channel to be used for alignment
APERIODIC = ('b2', 'b5', 'sw', 'nz', 'ck')       # classes with a unique correlation peak by construction -> alignment judged
BANDLIMITED = ('t2', 't2d', 't5', 'b2', 'b5', 'sw', 'nz')  # classes with an SNR floor (click trains are full-band, t2x is over-range)

# ----------------------------------------------------------------------------------------------------------------
# SNR floor table, dB: FLOOR[class][mode][quality index] (mode q = VBR, a = ABR; quality index over QS).
# Regression-style bound: minimum over the whole quick + thorough family (all rates, channel counts, lengths, parameters;
# minimum over the non-LFE channels of a member) minus 6 dB, rounded down to 0.1, then made non-decreasing in q by
# lowering (floor(q) = min over q' >= q).  Measured 2026-09-29 on /repo cb789c6 ("unchanged") and on the same tree with
# the candidate fix of finding enc_besterror_clamp (v clamped in local_book_besterror); the table uses the smaller of
# the two, where unchanged-tree members that sit more than 6 dB below their own candidate-fix value, or violate another
# predicate, are not used (135 of 66780 members: manifestations of that defect, which this check reports).
# Regenerate with VERIF_C06_MEASURE=1 bin/check C06 --tier thorough (prints MEASURED/FLOOR in this form for one tree).
# The low ABR values at q=1.0 (8 kHz, top nominal bitrate) are clipping where the managed residue books' range ends.
MEASURED_CANDIDATE_FIX = {
    't2': {'q': [9.26, 19.36, 23.48, 29.69, 33.09], 'a': [12.37, 21.73, 26.58, 32.62, 19.33]},
    't2d': {'q': [13.55, 19.88, 24.46, 30.85, 33.74], 'a': [15.65, 23.15, 26.85, 32.60, 13.02]},
    't5': {'q': [7.64, 17.82, 22.56, 26.66, 29.44], 'a': [6.32, 20.00, 23.91, 28.54, 25.25]},
    'b2': {'q': [4.90, 11.75, 16.02, 28.32, 30.54], 'a': [7.32, 19.39, 18.49, 31.62, 33.30]},
    'b5': {'q': [7.42, 16.82, 17.41, 31.99, 34.70], 'a': [12.24, 23.66, 24.61, 34.64, 36.81]},
    'sw': {'q': [1.33, 10.51, 15.90, 24.05, 27.61], 'a': [1.86, 10.51, 16.20, 26.96, 20.75]},
    'nz': {'q': [0.91, 4.78, 6.82, 13.38, 17.55], 'a': [-0.11, 8.96, 11.53, 17.96, 21.07]},
}
MEASURED_UNCHANGED = {   # without the 135 defect-affected members
    't2': {'q': [9.26, 19.36, 23.48, 29.69, 33.09], 'a': [12.37, 21.73, 26.58, 32.62, 16.77]},
    't2d': {'q': [13.55, 19.88, 24.46, 30.85, 33.74], 'a': [15.65, 23.15, 26.85, 32.60, 14.72]},
    't5': {'q': [7.64, 17.82, 22.56, 26.66, 29.44], 'a': [6.32, 20.00, 23.91, 28.54, 23.27]},
    'b2': {'q': [4.90, 11.75, 16.02, 28.32, 30.54], 'a': [7.32, 19.95, 18.49, 31.62, 33.30]},
    'b5': {'q': [7.42, 16.82, 17.41, 31.99, 34.70], 'a': [12.21, 23.66, 24.61, 34.64, 36.81]},
    'sw': {'q': [1.33, 10.51, 15.90, 24.05, 27.61], 'a': [0.64, 10.51, 16.20, 26.96, 20.80]},
    'nz': {'q': [0.91, 4.78, 6.82, 13.38, 17.55], 'a': [-0.11, 8.96, 11.53, 17.96, 21.07]},
}
FLOOR = {
    't2': {'q': [3.2, 13.3, 17.4, 23.6, 27.0], 'a': [6.3, 10.7, 10.7, 10.7, 10.7]},
    't2d': {'q': [7.5, 13.8, 18.4, 24.8, 27.7], 'a': [7.0, 7.0, 7.0, 7.0, 7.0]},
    't5': {'q': [1.6, 11.8, 16.5, 20.6, 23.4], 'a': [0.3, 13.9, 17.2, 17.2, 17.2]},
    'b2': {'q': [-1.1, 5.7, 10.0, 22.3, 24.5], 'a': [1.3, 12.4, 12.4, 25.6, 27.3]},
    'b5': {'q': [1.4, 10.8, 11.4, 25.9, 28.6], 'a': [6.2, 17.6, 18.6, 28.6, 30.8]},
    'sw': {'q': [-4.7, 4.5, 9.8, 18.0, 21.6], 'a': [-5.4, 4.5, 10.1, 14.7, 14.7]},
    'nz': {'q': [-5.1, -1.3, 0.8, 7.3, 11.5], 'a': [-6.2, 2.9, 5.5, 11.9, 15.0]},
}
# ----------------------------------------------------------------------------------------------------------------


def family(tier, li=0):
    """-> list of (class, sig string).  thorough: the dense family at the main length (li=0), the quick family at the two extra lengths."""
    fam = []
    if tier == 'quick' or li > 0:
        fam += [(c, 't:%d,%d:5%s' % (p[0], p[1], v)) for p in itertools.combinations(range(5), 2) for c, v in (('t2', ''), ('t2d', ':d'), ('t2x', ':x'))]
        if tier == 'quick':   # loud chords in the upper half of the dense grid as well (same members as in the thorough family)
            fam += [(c, 't:%d,%d:10%s' % (p[0], p[1], v)) for p in itertools.combinations(range(5, 10), 2) for c, v in (('t2d', ':d'), ('t2x', ':x'))]
        fam += [('t5', 't:%s:6' % ','.join(map(str, s))) for s in itertools.combinations(range(6), 5)]
        fam += [('b2', 'b:%d,%d:4:384:400' % p) for p in itertools.combinations(range(4), 2)]
        fam += [('b5', 'b:0,1,2,3,4:5:512:600')]
        fam += [('sw', 's:%d:%d' % p) for p in itertools.permutations([50, 500, 1000], 2)]
        fam += [('nz', 'n:%d:64' % s) for s in (1, 2, 3)]
        fam += [('ck', 'c:%d:12:%d' % (s, w)) for s in (1, 2, 3) for w in (1, 5)]
    else:
        fam += [(c, 't:%d,%d:10%s' % (p[0], p[1], v)) for p in itertools.combinations(range(10), 2) for c, v in (('t2', ''), ('t2d', ':d'), ('t2x', ':x'))]
        fam += [('t5', 't:%s:8' % ','.join(map(str, s))) for s in itertools.combinations(range(8), 5)]
        fam += [('b2', 'b:%d,%d:6:%d:%d' % (p[0], p[1], L, pos)) for p in itertools.combinations(range(6), 2) for L in (256, 1024) for pos in (250, 600)]
        fam += [('b5', 'b:%s:6:512:600' % ','.join(map(str, s))) for s in itertools.combinations(range(6), 5)]
        fam += [('sw', 's:%d:%d' % p) for p in itertools.permutations([50, 350, 650, 1000], 2)]
        fam += [('nz', 'n:%d:%d' % (s, K)) for s in range(1, 7) for K in (32, 128)]
        fam += [('ck', 'c:%d:%d:%d' % (s, cnt, w)) for s in range(1, 7) for cnt in (6, 20) for w in (1, 5)]
    return fam


def lengths(tier, rate):
    n0 = int(round(0.3 * rate))
    if tier == 'quick':
        return [n0]
    return [n0, int(round(0.17 * rate)) | 1, int(round(0.45 * rate)) + 37]


def is51(ch, rate):
    return ch == 6 and 40000 <= rate <= 70000   # ve_setup_44_51


def mkcase(rate, ch, mode, q, n, sig):
    fm = '%d' % FMAX[rate]
    return '%d %d %s%g %d %s%s %s' % (rate, ch, mode, q, n, fm, (',%d' % LFE_FMAX) if is51(ch, rate) else '', sig)


def parse(r):
    d = {}
    for tok in r.split()[1:]:
        k, _, v = tok.partition('=')
        d[k] = v
    return d


def fl(d, k):
    return [float(x) for x in d[k].split(',')]


def judge(m, r):
    """m: member dict (cls, rate, ch, mode, q, n, sig); r: harness result text.  -> (status, [(key, desc)], info dict)
    status: 'ok' | 'skip' | 'bad'"""
    cfg = 'r%d:c%d:%s%g' % (m['rate'], m['ch'], m['mode'], m['q'])
    r = r or 'NOOUTPUT'
    if r.startswith('skip:'):
        return 'skip', [], {'why': r.split()[0]}
    if not r.startswith('ok '):
        return 'bad', [('executor:%s:%s:%s' % (r.split()[0][:40], m['cls'], cfg), 'member %s: %s' % (m['case'], r[:300]))], {}
    d = parse(r)
    v = []
    cls, ch, n = m['cls'], m['ch'], m['n']
    snr, lag, rat, ids, ira = fl(d, 'snr'), [int(x) for x in d['lag'].split(',')], fl(d, 'rat'), [int(x) for x in d['id'].split(',')], fl(d, 'ira')
    iw = [int(x) for x in d['iw'].split(',')]
    if is51(ch, m['rate']):
        # LFE channel (residue low-passed at ~250 Hz by design): kept in the finiteness / peak / identity tests, but its content
        # (< 200 Hz, or a burst/click whose spectrum the low-pass truncates) can neither resolve a lag to one sample nor carry an SNR bound
        snr, lag, rat, ira = snr[:5], lag[:5], rat[:5], ira[:5]
    pki, pko, dec = float(d['pki']), float(d['pko']), int(d['dec'])
    cplsteps = int(d['cpl'])
    pf = 3.0 if cplsteps >= 1 else 2.0   # lossy channel coupling may rebuild a channel from the magnitudes of its partners
    info = {'pkratio': pko / pki if pki > 0 else 0.0, 'snr': min(snr), 'snrs': snr, 'rat': min(rat), 'cpl': int(d['cpl']), 'sal': int(d['sal']), 'sh': int(d['sh']), 'lg': int(d['lg']),
            'xin': float(d['xin']), 'idm': float(d['idm']), 'lag_judged': False, 'lag_exact': 0, 'lag_channels': 0, 'lag_channels_ambiguous': 0, 'id_judged': False, 'snr_judged': False, 'lfe_peak_judged': False, 'lfe_pkratio': 0.0, 'bs': d.get('bs', '')}
    if d['fin'] != '1':
        v.append(('nonfinite_sample:%s:%s' % (cls, cfg), 'a decoded sample is NaN/Inf: %s' % m['case']))
    if dec < 0.9 * n:
        v.append(('output_too_short:%s:%s' % (cls, cfg), 'decoded %d of %d samples, nothing to compare: %s' % (dec, n, m['case'])))
        return 'ok', v, info
    if pko > pf * pki + 0.05:
        v.append(('peak_blowup:%s:%s' % (cls, cfg), 'output peak %.4f > %g x input peak %.4f + 0.05: %s' % (pko, pf, pki, m['case'])))
    if is51(ch, m['rate']):
        # the LFE channel sits alone in its submap (never coupled): its own output peak against its own input peak, factor 2
        lo, li_ = float(d['pkc'].split(',')[5].split('@')[0]), fl(d, 'pic')[5]
        info['lfe_peak_judged'] = True
        info['lfe_pkratio'] = lo / li_ if li_ > 0 else 0.0
        if lo > 2.0 * li_ + 0.05:
            v.append(('lfe_peak_blowup:%s:%s' % (cls, cfg), 'LFE channel output peak %.4f > 2 x its input peak %.4f + 0.05 (at sample %s): %s' % (lo, li_, d['pkc'].split(',')[5].split('@')[1], m['case'])))
    if cls in APERIODIC:
        # a channel is judged iff the autocorrelation of its INPUT has a unique peak (signal property, independent of the codec)
        jc = [c for c in range(len(lag)) if ira[c] >= UNIQUE]
        info['lag_judged'] = bool(jc)
        info['lag_channels'] = len(jc)
        info['lag_channels_ambiguous'] = len(lag) - len(jc)
        info['lag_exact'] = sum(1 for c in jc if iw[c] == 0)
        info['rat'] = min([rat[c] for c in jc]) if jc else None
        # resolution: lags inside the flat top (>= 98% of the peak) of the input's own autocorrelation cannot be told from 0
        if any(abs(lag[c]) > iw[c] for c in jc):
            v.append(('misaligned:%s:%s' % (cls, cfg), 'cross-correlation peak at lags %s (must be 0, tolerance %s = flat top of the input autocorrelation, on every channel whose input autocorrelation peak is unique: channels %s), peak/second ratios %s: %s' % (lag, iw, jc, rat, m['case'])))
    if ch >= 2 and not (cls == 'gap' and m['sig'].endswith(':0')):   # (silent input channels have no correlation to speak of)
        info['id_judged'] = True
        if ids != list(range(ch)):
            v.append(('channel_permuted:%s:%s' % (cls, cfg), 'best-correlated input channel per output channel %s (must be identity), margin %s: %s' % (ids, d['idm'], m['case'])))
    if cls in BANDLIMITED and FLOOR and m['q'] in QS:   # (over-range class t2x: finiteness / peak / identity only; no table for the negative-quality members of the schedule slice)
        info['snr_judged'] = True
        f = FLOOR[cls][m['mode']][QS.index(m['q'])]
        if min(snr) < f:
            v.append(('snr_below_floor:%s:%s' % (cls, cfg), 'SNR %s dB (min %.2f) below floor(%s,%s,q=%g)=%.1f dB: %s' % (d['snr'], min(snr), cls, m['mode'], m['q'], f, m['case'])))
    return 'ok', v, info


def judge_gap_pair(m, info_loud, info_alone):
    """m: the loud member; info_*: judge() infos.  -> [(key, desc)]"""
    cfg = 'r%d:c%d:%s%g' % (m['rate'], m['ch'], m['mode'], m['q'])
    hz, db = int(m['sig'].split(':')[1]), int(m['sig'].split(':')[2])
    band = 'low' if hz < 1000 else 'high'
    sl, sa = info_loud['snrs'][1], info_alone['snrs'][1]
    v = []
    if sl < sa - GAP_D[band]:
        v.append(('levelgap_snr_depends_on_neighbours:gap:%s' % cfg, 'quiet channel 1 (%d Hz two-tone at %d dBFS): SNR %.2f dB next to loud channels, %.2f dB with silent neighbours (allowed deficit %.1f dB): %s' % (hz, db, sl, sa, GAP_D[band], m['case'])))
    f = GAP_FLOOR[(band, db)][GAP_QS.index(m['q'])]
    if sl < f:
        v.append(('levelgap_snr_below_floor:gap:%s' % cfg, 'quiet channel 1 (%d Hz two-tone at %d dBFS) next to loud channels: SNR %.2f dB below floor %.1f dB: %s' % (hz, db, sl, f, m['case'])))
    return v, sa - sl


# ---- submission-schedule axis (pylib/c06_sched.py) ------------------------------------------------------------------
# Windowed SNR floor, dB: WFLOOR[class][mode][q] for the continuous band-limited classes: minimum over the thorough schedule slice (every
# configuration x signal x schedule; every complete 1024-sample window that starts at or after 2 x blocksizes[1] and whose input energy is within
# 20 dB of the member's mean window energy; non-LFE channels) of the window's SNR against the input, minus 6 dB, rounded down to 0.1, then made
# non-decreasing in q by lowering.  Regenerate with VERIF_C06_MEASURE=1 VERIF_C06_ONLY=sched bin/check C06 --tier thorough.
# Measured 2026-09-29 on /repo ee2b4f0 (unchanged): 37758 executed cases (1302 configuration x signal groups x 29 schedules), none violating.
WMEASURED = {
    't2': {'q': {-0.1: 17.77, 0: 12.19, 0.3: 16.94, 0.5: 22.06, 0.8: 31.88, 1: 33.54}, 'a': {-0.1: 22.19, 0: 15.74, 0.3: 24.22, 0.5: 29.23, 0.8: 36.51, 1: 22.13}},
    't5': {'q': {-0.1: 5.52, 0: 5.99, 0.3: 15.78, 0.5: 18.74, 0.8: 27.45, 1: 32.78}, 'a': {-0.1: 8.48, 0: 7.37, 0.3: 22.03, 0.5: 23.66, 0.8: 34.06, 1: 37.17}},
    'sw': {'q': {-0.1: 0.52, 0: 0.48, 0.3: 11.54, 0.5: 15.82, 0.8: 28.39, 1: 33.35}, 'a': {-0.1: 5.68, 0: 0.78, 0.3: 12.21, 0.5: 16.72, 0.8: 31.77, 1: 35.14}},
    'nz': {'q': {-0.1: 2.36, 0: 0.89, 0.3: 6.27, 0.5: 10.89, 0.8: 18.22, 1: 21.08}, 'a': {-0.1: 3.40, 0: -1.42, 0.3: 9.08, 0.5: 15.64, 0.8: 20.77, 1: 23.71}},
}
WFLOOR = {
    't2': {'q': {-0.1: 6.1, 0: 6.1, 0.3: 10.9, 0.5: 16.0, 0.8: 25.8, 1: 27.5}, 'a': {-0.1: 9.7, 0: 9.7, 0.3: 16.1, 0.5: 16.1, 0.8: 16.1, 1: 16.1}},
    't5': {'q': {-0.1: -0.5, 0: -0.1, 0.3: 9.7, 0.5: 12.7, 0.8: 21.4, 1: 26.7}, 'a': {-0.1: 1.3, 0: 1.3, 0.3: 16.0, 0.5: 17.6, 0.8: 28.0, 1: 31.1}},
    'sw': {'q': {-0.1: -5.6, 0: -5.6, 0.3: 5.5, 0.5: 9.8, 0.8: 22.3, 1: 27.3}, 'a': {-0.1: -5.3, 0: -5.3, 0.3: 6.2, 0.5: 10.7, 0.8: 25.7, 1: 29.1}},
    'nz': {'q': {-0.1: -5.2, 0: -5.2, 0.3: 0.2, 0.5: 4.8, 0.8: 12.2, 1: 15.0}, 'a': {-0.1: -7.5, 0: -7.5, 0.3: 3.0, 0.5: 9.6, 0.8: 14.7, 1: 17.7}},
}
# Differential bound between schedules, dB: in no such window may the error energy (in-out) under a schedule exceed the error energy of the same window
# under the reference schedule (1024-sample submissions) by more than SCHED_DIFF_DB (error energies 60 dB below the mean window energy count as equal).
# Outputs of different schedules are mostly, but not always, bit-identical beyond the stream start: a different amount of look-ahead at the first
# blockouts can move a block-size decision (and with it the whole later block grid), and the ABR reservoir carries the difference on.
SCHED_DIFF_MEASURED = ('303342 of 304500 windows beyond 2 x blocksizes[1] bit-identical to the output of 1024-sample submissions, 238 of 36456 non-reference cases differ in some such window; '
                       'largest growth of a window\'s error energy 5.95 dB in the thorough slice (44100 Hz mono ABR q=-0.1 two-tone, whole-signal submission) and 7.35 dB in a wider exploratory sweep '
                       'with 30000..57600-sample signals (38106 cases; 96000 Hz 3 ch q=0 sweep, whole-signal submission)')
SCHED_DIFF_DB = 10.4     # 7.35 dB + 3 dB margin, rounded up


def wfloor(cls, mode, q):
    t = WFLOOR.get(cls, {}).get(mode, {})
    return t.get(q) if cls in S.CONTINUOUS else None


def judge_sched(m, r, refw):
    """m: schedule member (member dict + 'sched'); r: harness result text; refw: S.parse_windows() of the reference-schedule result of the same
    configuration/signal (None: not available).  -> (status, [(key, desc)], info, parsed windows or None, window view or None)"""
    st, v, info = judge(m, r)
    sc = m['sched']
    v = [('sched:%s:%s' % (sc, k), 'schedule %s: %s' % (sc, d)) for k, d in v]
    if st != 'ok':
        return st, v, info, None, None
    d = parse(r)
    if 'ws' not in d:
        return 'bad', [('executor:no_window_view:%s' % sc, 'member %s: %s' % (m['case'], r[:300]))], info, None, None
    w = S.parse_windows(d)
    nch = 5 if is51(m['ch'], m['rate']) else m['ch']
    wf = wfloor(m['cls'], m['mode'], m['q'])
    view = S.window_view(w, refw if refw is not None else w, nch, wf, SCHED_DIFF_DB if SCHED_DIFF_DB is not None else 1e9)
    cfg = 'r%d:c%d:%s%g' % (m['rate'], m['ch'], m['mode'], m['q'])
    if view['floor_hits']:
        c, k, s = min(view['floor_hits'], key=lambda x: x[2])
        v.append(('sched:%s:window_snr_floor:%s' % (sc, m['cls']), 'schedule %s, %s, channel %d, window %d (samples %d..%d): SNR against the input %.2f dB below the windowed floor(%s,%s,q=%g)=%.1f dB (%d windows below): %s'
                  % (sc, cfg, c, k, k * S.WLEN, (k + 1) * S.WLEN - 1, s, m['cls'], m['mode'], m['q'], wf, len(view['floor_hits']), m['case'])))
    if refw is not None and view['diff_hits']:
        c, k, s, sr = max(view['diff_hits'], key=lambda x: x[3] - x[2])
        v.append(('sched:%s:window_snr' % sc, 'schedule %s, %s %s, channel %d, window %d (samples %d..%d, first window judged %d): SNR against the input %.2f dB, but %.2f dB with %s submissions of the same signal (error energy may grow by at most %.1f dB; %d windows beyond that): %s'
                  % (sc, m['cls'], cfg, c, k, k * S.WLEN, (k + 1) * S.WLEN - 1, view['k0'], s, sr, S.REF, SCHED_DIFF_DB, len(view['diff_hits']), m['case'])))
    return st, v, info, w, view


def exe_():
    vlib.build('plain')
    return vlib.harness('plain', 'c06_quality', extra='-O3 -march=native')


# ---- differential attribution of the known encoder defect "enc_besterror_clamp" -------------------------------------
# lib/res0.c local_book_besterror(): a residue value outside the first-stage book's range gets the entry index clamped to qv-1
# (the POSITIVE maximum, even for a negative value) while the value removed from the residual (p[o]) is not clamped.
# A violating member is attributed to that defect iff the same member, run against a private copy of res0.c in which v is
# clamped to [0,qv-1] (everything else identical), no longer violates the predicate.  The variant can only be built while
# res0.c still has the unclamped form; otherwise nothing is attributed.
CLAMP_KEY = 'enc_besterror_clamp:violation_cured_by_clamping_v_in_local_book_besterror'
CLAMP_SITES = ("      int v = (a[--o]-minval+(del>>1))/del;\n", "      int v = a[--o]-minval;\n")
CLAMP_MAX_RERUN = 800


def clamp_variant():
    try:
        src = open(os.path.join(vlib.REPO, 'lib', 'res0.c')).read()
    except OSError:
        return None
    a, b = src.find('static int local_book_besterror('), src.find('static int _encodepart(')
    if a < 0 or b < a:
        return None
    body = src[a:b]
    if any(body.count(x) != 1 for x in CLAMP_SITES) or 'v=qv-1' in body.replace(' ', ''):
        return None
    for x in CLAMP_SITES:
        body = body.replace(x, x + "      if(v<0)v=0; if(v>=qv)v=qv-1;\n")
    d = os.path.join(vlib.BUILD, 'c06_clamp')
    os.makedirs(d, exist_ok=True)
    cpath, opath = os.path.join(d, 'res0_clamped.c'), os.path.join(d, 'res0_clamped.o')
    new = src[:a] + body + src[b:]
    if not (os.path.exists(cpath) and open(cpath).read() == new and os.path.exists(opath)):
        open(cpath, 'w').write(new)
        # same flags as bin/build.sh uses for the 'plain' library
        p = subprocess.run(['gcc', '-O2', '-g', '-DNDEBUG', '-w', '-I' + vlib.REPO + '/include', '-I' + vlib.REPO + '/lib', '-c', cpath, '-o', opath], stdout=subprocess.PIPE, stderr=subprocess.STDOUT, text=True)
        if p.returncode != 0:
            sys.stderr.write(p.stdout)
            return None
    # the object precedes libvorbisall.a on the link line and defines every external symbol of res0.o, so the archive member is not pulled in
    return vlib.harness('plain', 'c06_quality_clampvariant', extra='-O3 -march=native', srcs=[os.path.join(vlib.ROOT, 'harness', 'c06_quality.c'), opath])


def sched_members(tier):
    """the schedule slice: (configuration x signal) groups, each encoded under every schedule of the tier"""
    batch = []
    groups = [(rate, ch, mode, q, n, cls, sig) for rate, ch, mode, q, n in S.configs(tier, RATES, CHS, QS, MODES) for cls, sig in (S.SIG_QUICK if tier == 'quick' else S.SIG_THOROUGH)]
    groups += S.long_members(tier)
    for rate, ch, mode, q, n, cls, sig in groups:
        base = mkcase(rate, ch, mode, q, n, sig)
        for sc in S.schedules(tier):
            batch.append({'cls': cls, 'rate': rate, 'ch': ch, 'mode': mode, 'q': q, 'n': n, 'sig': sig, 'sched': sc, 'case': base + ' ' + sc, 'ref_case': base + ' ' + S.REF})
    return batch


def run_sched(chk, exe, tier, batch, measure, samples):
    """executes and judges the schedule slice; emits violations; -> stats dict"""
    res = vlib.run_cases(exe, [m['case'] for m in batch], tag='c06s')
    st_ = {'cases': len(batch), 'cases_ok': 0, 'cases_skipped': 0, 'cases_passed': 0, 'groups': 0, 'groups_all_schedules_ok': 0, 'schedules': list(S.schedules(tier)), 'by_schedule': {},
           'far_windows': 0, 'far_windows_bit_identical_to_reference': 0, 'cases_bit_identical_to_reference_in_all_far_windows': 0, 'snr_windows_judged': 0, 'diff_windows_judged': 0,
           'worst_window_snr_margin_dB': None, 'worst_window_snr_margin_at': None, 'max_window_deficit_dB': None, 'max_window_deficit_at': None,
           'lag_judged': 0, 'id_judged': 0, 'snr_judged': 0, 'length_gt_6_long_blocks': 0, 'violations': 0, 'cases_skipped_other_than_abr_at_96000': 0, 'first_window_judged': {}}
    bys = {sc: {'cases': 0, 'submissions_min': None, 'submissions_max': None, 'buffered_at_preextrapolation_gt_centerW_plus_2_long': 0,
                'buffered_minus_centerW_minus_2_long': {}} for sc in S.schedules(tier)}
    refs = {}
    for m, r in zip(batch, res):
        if m['sched'] == S.REF and (r or '').startswith('ok ') and ' ws=' in r:
            refs[m['ref_case']] = S.parse_windows(parse(r))
    wmeas = {}   # (cls, mode, q) -> (min windowed snr, where)
    groups = {}
    for m, r in zip(batch, res):
        chk.cov['evaluations'] += 1
        g = groups.setdefault(m['ref_case'], {'n': 0, 'ok': 0})
        g['n'] += 1
        st, v, info, w, view = judge_sched(m, r, refs.get(m['ref_case']))
        if st == 'skip':
            st_['cases_skipped'] += 1
            st_['cases_skipped_other_than_abr_at_96000'] += not (m['rate'] == 96000 and m['mode'] == 'a')
            g['skip'] = True
            continue
        if st == 'ok' and w is not None and m['ref_case'] not in refs:
            v.append(('sched:%s:no_reference' % m['sched'], 'the reference schedule of this member did not produce a result: %s' % m['ref_case']))
        for key, desc in v:
            st_['violations'] += 1
            rep = {'case': m['case'], 'member': m, 'result': (r or '')[:600]}
            if view is not None:
                rep['window_view'] = {k: view[k] for k in ('k0', 'nw', 'min_snr', 'min_at', 'max_deficit', 'deficit_at')}
                rep['windows_failing'] = {'floor': view['floor_hits'][:20], 'differential(channel, window, snr, snr under reference schedule)': view['diff_hits'][:20]}
            chk.violation(key, desc, rep)
        if st != 'ok' or w is None:
            continue
        st_['cases_ok'] += 1
        g['ok'] += 1
        st_['cases_passed'] += not v
        b = bys[m['sched']]
        b['cases'] += 1
        b['submissions_min'] = w['nsub'] if b['submissions_min'] is None else min(b['submissions_min'], w['nsub'])
        b['submissions_max'] = w['nsub'] if b['submissions_max'] is None else max(b['submissions_max'], w['nsub'])
        over = w['pre_cur'] - w['pre_cw'] - 2 * w['bs1']
        b['buffered_at_preextrapolation_gt_centerW_plus_2_long'] += over > 0
        ko = str(over) if -2 <= over <= 2 else ('<-2' if over < 0 else '>2')
        b['buffered_minus_centerW_minus_2_long'][ko] = b['buffered_minus_centerW_minus_2_long'].get(ko, 0) + 1
        st_['length_gt_6_long_blocks'] += m['n'] > 6 * w['bs1']
        st_['first_window_judged'][str(view['k0'])] = st_['first_window_judged'].get(str(view['k0']), 0) + 1
        st_['far_windows'] += view['far']
        st_['far_windows_bit_identical_to_reference'] += view['identical']
        st_['cases_bit_identical_to_reference_in_all_far_windows'] += (view['identical'] == view['far'] and m['sched'] != S.REF)
        st_['diff_windows_judged'] += view['diff_windows'] if m['sched'] != S.REF else 0
        st_['lag_judged'] += info['lag_judged']
        st_['id_judged'] += info['id_judged']
        st_['snr_judged'] += info['snr_judged']
        where = '%s ch%d window %d' % (m['case'], (view['min_at'] or (0, 0))[0], (view['min_at'] or (0, 0))[1])
        wf = wfloor(m['cls'], m['mode'], m['q'])
        if view['min_snr'] is not None and m['cls'] in S.CONTINUOUS:
            k = (m['cls'], m['mode'], m['q'])
            if not [1 for key, _ in v if 'window_snr_floor' not in key] and view['min_snr'] < wmeas.get(k, (1e9,))[0]:
                wmeas[k] = (view['min_snr'], where)
            if wf is not None:
                st_['snr_windows_judged'] += view['snr_windows']
                if st_['worst_window_snr_margin_dB'] is None or view['min_snr'] - wf < st_['worst_window_snr_margin_dB']:
                    st_['worst_window_snr_margin_dB'], st_['worst_window_snr_margin_at'] = round(view['min_snr'] - wf, 2), where + ' (floor %.1f)' % wf
        if m['sched'] != S.REF and view['max_deficit'] is not None and (st_['max_window_deficit_dB'] is None or view['max_deficit'] > st_['max_window_deficit_dB']):
            st_['max_window_deficit_dB'] = round(view['max_deficit'], 2)
            st_['max_window_deficit_at'] = '%s ch%d window %d' % (m['case'], view['deficit_at'][0], view['deficit_at'][1])
        if len(samples) < 12 and m['sched'] in ('R', 'D+1,x1024', 'G') and m['cls'] == 'sw' and m['ch'] == 2:
            samples.append({'case': m['case'], 'class': m['cls'] + '@sched', 'result': (r or '').split(' ws=')[0][:330]})
    st_['groups'] = len(groups)
    st_['groups_all_schedules_ok'] = sum(1 for g in groups.values() if g['ok'] == g['n'])
    st_['groups_skipped_by_encoder_setup'] = sum(1 for g in groups.values() if g.get('skip'))
    st_['by_schedule'] = bys
    st_['diff_bound_dB'] = SCHED_DIFF_DB
    st_['window_snr_floor_table_dB'] = {c: {mo: {str(q): f for q, f in t.items()} for mo, t in WFLOOR[c].items()} for c in WFLOOR}
    if measure:
        import math
        qs_ = sorted(set(k[2] for k in wmeas))
        print('SCHED max window deficit: %s dB at %s' % (st_['max_window_deficit_dB'], st_['max_window_deficit_at']))
        print('WMEASURED = {')
        for cls in S.CONTINUOUS:
            print("    '%s': {%s}," % (cls, ', '.join("'%s': {%s}" % (mo, ', '.join('%g: %.2f' % (q, wmeas[(cls, mo, q)][0]) for q in qs_ if (cls, mo, q) in wmeas)) for mo in MODES)))
        print('}')
        print('WFLOOR = {')
        for cls in S.CONTINUOUS:
            rows = []
            for mo in MODES:
                qq = [q for q in qs_ if (cls, mo, q) in wmeas]
                f = [math.floor((wmeas[(cls, mo, q)][0] - 6.0) * 10) / 10 for q in qq]
                for i in range(len(f) - 2, -1, -1):
                    f[i] = min(f[i], f[i + 1])
                rows.append("'%s': {%s}" % (mo, ', '.join('%g: %.1f' % (q, x) for q, x in zip(qq, f))))
            print("    '%s': {%s}," % (cls, ', '.join(rows)))
        print('}')
        for k in sorted(wmeas):
            print('        # worst window %s/%s q=%g: %.2f  %s' % (k[0], k[1], k[2], wmeas[k][0], wmeas[k][1]))
    return st_


def run(tier):
    chk = vlib.Check(PID, tier, 'exploration')
    exe = exe_()
    measure = os.environ.get('VERIF_C06_MEASURE') == '1'
    budget = float(os.environ.get('VERIF_C06_BUDGET', (25 * 60 - 180) if tier == 'thorough' else 200))   # seconds of enumeration, counted after the build
    t_enum = time.time()
    # enumeration order: batches = one (length index, class[, rate]) slice over all configurations; only complete batches are run,
    # the deadline is tested between batches (thorough splits by rate so that no batch is long)
    members = []
    # LFE-content slice (first, so a deadline never cuts it): 5.1 template, including the negative qualities (block sizes 512/4096,
    # where the LFE residue reaches beyond the LFE floor's own range), LFE tone inside / at the edge of / beyond the LFE floor range
    batch = []
    for rate in LFE_RATES:
        for n in ([int(round(0.3 * rate))] if tier == 'quick' else [int(round(0.3 * rate)), rate + 37]):
            for mode in MODES:
                for q in LFE_QS:
                    for hz in LFE_HZ:
                        for fd in (0, 1):
                            m = {'cls': 'lfe', 'rate': rate, 'ch': 6, 'mode': mode, 'q': q, 'n': n, 'sig': 'l:%d:%d' % (hz, fd)}
                            m['case'] = mkcase(rate, 6, mode, q, n, m['sig'])
                            batch.append(m)
    members.append(('lfe', batch))
    # level-gap slice (second): pairs (loud neighbours, silent neighbours) of the same quiet content
    batch = []
    for n in ([int(round(0.3 * GAP_RATE))] if tier == 'quick' else [int(round(0.3 * GAP_RATE)), GAP_RATE + 37]):
        for ch in GAP_CHS:
            for mode in MODES:
                for q in GAP_QS:
                    for hz in GAP_HZ:
                        for db in GAP_DB:
                            for loud in (1, 0):
                                m = {'cls': 'gap', 'rate': GAP_RATE, 'ch': ch, 'mode': mode, 'q': q, 'n': n, 'sig': 'g:%d:%d:%d' % (hz, db, loud)}
                                m['case'] = mkcase(GAP_RATE, ch, mode, q, n, m['sig'])
                                batch.append(m)
    members.append(('gap', batch))
    # submission-schedule slice (third): the same configuration/signal under every submission schedule
    members.append(('sched', sched_members(tier)))
    only = os.environ.get('VERIF_C06_ONLY')    # experiments: run one batch only (reported as a cut, non-exhaustive run)
    for li in range(len(lengths(tier, 8000))):
        fam = family(tier, li)
        for cls in ('ck', 'sw', 'nz', 't2d', 't2x', 't2', 'b2', 'b5', 't5'):
            for rgroup in ([RATES] if tier == 'quick' else [[r] for r in RATES]):
                batch = []
                for rate in rgroup:
                    n = lengths(tier, rate)[li]
                    for ch in CHS:
                        for mode in MODES:
                            for q in QS:
                                for c, sig in fam:
                                    if c != cls:
                                        continue
                                    m = {'cls': cls, 'rate': rate, 'ch': ch, 'mode': mode, 'q': q, 'n': n, 'sig': sig}
                                    m['case'] = mkcase(rate, ch, mode, q, n, sig)
                                    batch.append(m)
                members.append(('%s@len%d%s' % (cls, li, '' if tier == 'quick' else '@%d' % rgroup[0]), batch))
    total = sum(len(b) for _, b in members)
    passed, skipped, nviol = set(), {}, 0
    stats = {'members': total, 'executed': 0, 'lag_judged': 0, 'lag_channels_judged': 0, 'lag_channels_judged_with_zero_tolerance': 0, 'lag_channels_ambiguous_not_judged': 0, 'lag_judged_by_class': {}, 'min_ratio': 1e9, 'id_judged': 0, 'id_ge3ch': 0, 'id_coupled_stereo': 0,
             'id_coupled_51': 0, 'snr_judged': 0, 'long_to_short_members': 0, 'short_block_members': 0, 'max_input_crosscorr': 0.0, 'min_id_margin': 1e9,
             'max_peak_ratio_uncoupled': 0.0, 'max_peak_ratio_coupled': 0.0,
             'gap_pairs_judged': 0, 'gap_max_deficit_dB': {'low': -99.0, 'high': -99.0}, 'lfe_peak_judged': 0, 'max_lfe_peak_ratio': 0.0, 'lfe_content_members_negative_q_blocks_512_4096': 0}
    meas = {}     # (cls, mode, qi) -> min snr ; also per rate
    series = {}   # (cls, sig, ch, rate, mode, n) -> {qi: snr}
    done_batches, cut = [], []
    sched_stats = None
    samples = []
    ratios = {}
    rawf = None
    if measure:
        os.makedirs(vlib.OUT, exist_ok=True)
        rawf = open(os.path.join(vlib.OUT, 'c06_measure_%s.jsonl' % tier), 'w')
    peaks = []
    failing = []
    for bname, batch in members:
        if time.time() - t_enum > budget or (only and bname != only):
            cut.append(bname)
            continue
        if bname == 'sched':
            t_s = time.time()
            sched_stats = run_sched(chk, exe, tier, batch, measure, samples)
            nviol += sched_stats['violations']
            done_batches.append(bname)
            if tier == 'quick':
                budget += min(time.time() - t_s, 60.0)   # quick: the slice comes on top of the enumeration budget of the main family (thorough: inside the budget)
            print('  C06 batch %s: %d members, t=%.0fs' % (bname, len(batch), time.time() - chk.t0), file=sys.stderr, flush=True)
            continue
        if vlib.SEED:
            import random
            random.Random(vlib.SEED).shuffle(batch)
        res = vlib.run_cases(exe, [m['case'] for m in batch], tag='c06')
        print('  C06 batch %s: %d members, t=%.0fs' % (bname, len(batch), time.time() - chk.t0), file=sys.stderr, flush=True)
        done_batches.append(bname)
        gapinfo = {}
        for m, r in zip(batch, res):
            chk.cov['evaluations'] += 1
            stats['executed'] += 1
            st, v, info = judge(m, r)
            if st == 'skip':
                skipped.setdefault((m['rate'], m['mode'], info['why']), 0)
                skipped[(m['rate'], m['mode'], info['why'])] += 1
                continue
            if v:
                nviol += len(v)
                failing.append((m, v, (r or '')[:600]))
            if st != 'ok':
                continue
            if m['cls'] == 'gap':
                gapinfo[m['case']] = (m, info, bool(v), (r or '')[:600])
            elif not v:
                passed.add((m['cls'], m['ch'], m['rate'], m['q'], m['mode']))
            pk = 'max_peak_ratio_coupled' if info['cpl'] >= 1 else 'max_peak_ratio_uncoupled'
            stats[pk] = max(stats[pk], round(info['pkratio'], 4))
            peaks.append((round(info['pkratio'], 4), info['cpl'], m['case']))
            if m['cls'] in APERIODIC:
                stats['lag_channels_ambiguous_not_judged'] += info['lag_channels_ambiguous']
            if info['lag_judged']:
                ratios.setdefault(m['cls'], []).append(info['rat'])
                stats['lag_judged'] += 1
                stats['lag_channels_judged'] += info['lag_channels']
                stats['lag_channels_judged_with_zero_tolerance'] += info['lag_exact']
                stats['lag_judged_by_class'][m['cls']] = stats['lag_judged_by_class'].get(m['cls'], 0) + 1
                stats['min_ratio'] = min(stats['min_ratio'], info['rat'])
            if info['id_judged']:
                stats['id_judged'] += 1
                stats['id_ge3ch'] += m['ch'] >= 3
                stats['id_coupled_stereo'] += (m['ch'] == 2 and info['cpl'] > 0)
                stats['id_coupled_51'] += (m['ch'] == 6 and info['cpl'] > 1)
                stats['max_input_crosscorr'] = max(stats['max_input_crosscorr'], info['xin'])
                stats['min_id_margin'] = min(stats['min_id_margin'], info['idm'])
            stats['snr_judged'] += info['snr_judged']
            if info['lfe_peak_judged']:
                stats['lfe_peak_judged'] += 1
                stats['max_lfe_peak_ratio'] = max(stats['max_lfe_peak_ratio'], round(info['lfe_pkratio'], 4))
                stats['lfe_content_members_negative_q_blocks_512_4096'] += (m['cls'] == 'lfe' and m['q'] < 0 and info['bs'] == '512/4096')
            stats['long_to_short_members'] += info['sal'] > 0
            stats['short_block_members'] += (info['sh'] > 0 and info['lg'] > 0)
            if rawf:
                rawf.write(json.dumps({'case': m['case'], 'cls': m['cls'], 'mode': m['mode'], 'q': m['q'], 'rate': m['rate'], 'ch': m['ch'], 'n': m['n'], 'snr': info['snr'],
                                       'pk': info['pkratio'], 'cpl': info['cpl'], 'rat': info['rat'], 'idm': info['idm'], 'viol': [k.split(':')[0] for k, _ in v]}) + '\n')
            if m['cls'] in BANDLIMITED and not [k for k, _ in v if not k.startswith('snr_below_floor')]:
                qi = QS.index(m['q'])
                for k in ((m['cls'], m['mode'], qi), (m['cls'], m['mode'], qi, m['rate']), (m['cls'], m['mode'], qi, m['rate'], m['ch'])):
                    if info['snr'] < meas.get(k, (1e9,))[0]:
                        meas[k] = (info['snr'], m['case'])
                series.setdefault((m['cls'], m['sig'], m['ch'], m['rate'], m['mode'], m['n']), {})[qi] = info['snr']
            if len(samples) < 12 and (chk.cov['evaluations'] % max(1, total // 12) == 1):
                samples.append({'case': m['case'], 'class': m['cls'], 'result': (r or '')[:260]})
        # level-gap pairs: the quiet channel next to loud channels against the same content with silent neighbours
        for case, (m, info, bad, r) in gapinfo.items():
            if not m['sig'].endswith(':1'):
                continue
            alone = gapinfo.get(mkcase(m['rate'], m['ch'], m['mode'], m['q'], m['n'], m['sig'][:-1] + '0'))
            if alone is None:
                continue
            pv, deficit = judge_gap_pair(m, info, alone[1])
            stats['gap_pairs_judged'] += 1
            band = 'low' if int(m['sig'].split(':')[1]) < 1000 else 'high'
            stats['gap_max_deficit_dB'][band] = round(max(stats['gap_max_deficit_dB'][band], deficit), 2)
            if pv:
                nviol += len(pv)
                failing.append((dict(m, pair_alone_case=alone[0]['case']), pv, r + ' || alone: ' + alone[3]))
            elif not bad and not alone[2]:
                passed.add((m['cls'], m['ch'], m['rate'], m['q'], m['mode']))
    # ---- attribute violations to the known encoder defect by differential re-execution, then emit them
    attributed, cured_members = 0, []
    rerun = {}
    if failing:
        cexe = clamp_variant()
        if cexe:
            sub = [f for f in failing if not f[1][0][0].startswith('executor:')][:CLAMP_MAX_RERUN]
            out = vlib.run_cases(cexe, [f[0]['case'] for f in sub], tag='c06c')
            for f, r2 in zip(sub, out):
                st2, v2, _ = judge(f[0], r2)
                rerun[f[0]['case']] = set(k for k, _ in v2) if st2 == 'ok' else None
        stats['clamp_variant_built'] = bool(cexe)
    for m, v, r in failing:
        still = rerun.get(m['case'], None)
        for key, desc in v:
            if still is not None and key not in still and not key.startswith('levelgap'):
                attributed += 1
                if len(cured_members) < 40:
                    cured_members.append('%s  [%s]' % (m['case'], key))
                chk.violation(CLAMP_KEY, 'lib/res0.c local_book_besterror: out-of-range residue value coded as +max and removed unclamped from the residual; this violation disappears when v is clamped: ' + desc + ' [' + key + ']',
                              {'case': m['case'], 'member': m, 'result': r})
            else:
                chk.violation(key, desc, {'case': m['case'], 'member': m, 'result': r})
    stats['violations_attributed_to_enc_besterror_clamp'] = attributed
    stats['members_attributed_to_enc_besterror_clamp'] = cured_members
    # informational: how many (signal, channels, rate, mode, length) series have SNR non-decreasing in q
    mono = sum(1 for s in series.values() if len(s) == len(QS) and all(s[i] <= s[i + 1] for i in range(len(QS) - 1)))
    full = sum(1 for s in series.values() if len(s) == len(QS))
    endsup = sum(1 for s in series.values() if len(s) == len(QS) and s[0] <= s[len(QS) - 1])
    stats.update({'snr_series_complete': full, 'snr_series_monotone_in_q': mono, 'snr_series_q1_ge_q0': endsup})
    if measure:
        rawf.close()
        for c_, rr in ratios.items():
            rr.sort()
            print('peak/second ratio', c_, 'n', len(rr), 'min %.3f p1 %.3f p10 %.3f med %.3f' % (rr[0], rr[len(rr) // 100], rr[len(rr) // 10], rr[len(rr) // 2]))
        peaks.sort(reverse=True)
        for cp in (0, 1, 4):
            print('top peak ratios cpl=%d:' % cp, [x for x in peaks if x[1] == cp][:6])
        # the table in source form: measured minima of this run (members with another violation and over-range members excluded),
        # floor = measured - 6 dB rounded down to 0.1, then made non-decreasing in q by lowering
        import math
        print('MEASURED = {')
        for cls in BANDLIMITED:
            print("    '%s': {%s}," % (cls, ', '.join("'%s': [%s]" % (mo, ', '.join('%.2f' % meas[(cls, mo, qi)][0] if (cls, mo, qi) in meas else 'None' for qi in range(len(QS)))) for mo in MODES)))
        print('}')
        print('FLOOR = {')
        for cls in BANDLIMITED:
            rows = []
            for mo in MODES:
                f = [math.floor((meas[(cls, mo, qi)][0] - 6.0) * 10) / 10 if (cls, mo, qi) in meas else -99.0 for qi in range(len(QS))]
                for qi in range(len(QS) - 2, -1, -1):
                    f[qi] = min(f[qi], f[qi + 1])
                rows.append("'%s': [%s]" % (mo, ', '.join('%.1f' % x for x in f)))
            print("    '%s': {%s}," % (cls, ', '.join(rows)))
        print('}')
        for cls in BANDLIMITED:
            for mode in MODES:
                for rate in RATES:
                    rr = [meas.get((cls, mode, qi, rate), (None,))[0] for qi in range(len(QS))]
                    print('        # %s/%s %5d: %s' % (cls, mode, rate, ' '.join('%7s' % ('-' if x is None else '%.2f' % x) for x in rr)), ' | '.join(
                        ' '.join('-' if meas.get((cls, mode, qi, rate, ch)) is None else '%.0f' % meas[(cls, mode, qi, rate, ch)][0] for qi in range(len(QS))) for ch in CHS))
                for qi in range(len(QS)):
                    if (cls, mode, qi) in meas:
                        print('        # worst %s/%s q=%g: %.2f  %s' % (cls, mode, QS[qi], meas[(cls, mode, qi)][0], meas[(cls, mode, qi)][1]))
    table_ok = bool(FLOOR) and all(FLOOR[c][mo][i] <= FLOOR[c][mo][i + 1] for c in BANDLIMITED for mo in MODES for i in range(len(QS) - 1))
    if stats['min_ratio'] > 1e8:
        stats['min_ratio'] = None
    if stats['min_id_margin'] > 1e8:
        stats['min_id_margin'] = None
    stats['skipped'] = {'%d:%s:%s' % k: n for k, n in sorted(skipped.items())}
    chk.cov.update(stats)
    if sched_stats:
        chk.cov['schedule_axis'] = sched_stats
    chk.cov['samples'] = samples
    chk.cov['batches_complete'] = done_batches
    chk.cov['batches_not_run'] = cut
    chk.cov['exhaustive'] = not cut
    chk.cov['snr_floor_table_dB'] = {c: FLOOR[c] for c in FLOOR}
    chk.cov['distinct_nontrivial'] = len(passed)
    chk.cov['rule'] = (
        'every member of the finite family {two-tone chords: all pairs of a frequency grid, each with equal amplitudes, with a dominant near-full-scale tone (:d) and 4x over-range (:x); five-tone chords: all 5-subsets of a grid; '
        'Hann-windowed chord bursts; linear sweeps: all ordered pairs of band edges; band-limited LCG noise (sums of 32-128 random-phase sinusoids below 0.3 Nyquist); aperiodic LCG click trains (1- and 5-sample clicks)} '
        f'with per-channel distinct content x channels {CHS} x rates {RATES} x quality {QS} x {{VBR, ABR at the nominal bitrate of that quality}} x lengths '
        f'({"0.3 s" if tier == "quick" else "0.3 s with the dense grids; 0.17 s (odd) and 0.45 s+37 with the quick grids"}); tones/sweeps below min(0.4 Nyquist, encoder lowpass), LFE channel of the 5.1 template below 200 Hz; plus an LFE-content slice: 6 channels at 44100/48000 Hz x quality (-0.1,-0.05,0,0.3) x (VBR, ABR) x LFE tone (0.5) at (60,130,200,260) Hz x (abrupt, faded), other channels two-tone chords. '
        'Level-gap slice: 2 and 3 channels at 44100 Hz x quality (0.3,0.5,0.7) x (VBR, ABR) x quiet two-tone in channel 1 at (60,90,13000) Hz and (-80,-60) dBFS x (loud, silent) neighbours; '
        'the quiet channel SNR next to loud channels must be within 3 dB (9 dB at 13 kHz) of its SNR with silent neighbours and above a measured floor. '
        'Judged on every member: all samples finite; output peak <= 2 x input peak + 0.05 (3 x when the mode uses lossy channel coupling), and on the 5.1 template additionally LFE output peak <= 2 x LFE input peak + 0.05; for >=2 channels the best lag-0-correlated input channel of every output channel is itself; '
        'SNR >= floor(class, mode, q) for the in-range band-limited classes (regression table, non-decreasing in q). ALIGNMENT (arg max over ALL lags -4096..4096 of the input/output cross-correlation is 0) is judged only on members with '
        'aperiodic structure (click trains, sweeps, noise, Hann-windowed bursts) and there only on channels whose INPUT autocorrelation has a unique peak (peak / second local maximum >= %g, a property of the signal alone); '
        'lags inside the flat top of the input autocorrelation (>= 98%% of its peak; 0 for all broadband members) count as 0. Stationary chords have a periodic, ambiguous correlation peak and are NOT used for alignment. '
        'A violating member is re-executed against a variant in which local_book_besterror clamps its value; violations that disappear there carry the key enc_besterror_clamp:... '
        'SUBMISSION-SCHEDULE AXIS: a slice of the grid (%s) is encoded under every submission schedule of %s (pieces handed to vorbis_analysis_buffer/vorbis_analysis_wrote; B = blocksizes[1], D = 2B, E = centerW+2B, H = N/2, R = rest, x<n> = n each, G = 1,2,4,..), '
        'signal length > 6 x blocksizes[1]; every (configuration, signal, schedule) is judged by all predicates above and, for every complete 1024-sample window that starts at or after 2 x blocksizes[1], by a windowed SNR floor (continuous classes) '
        'and by a differential bound against the same window under 1024-sample submissions (cov.schedule_axis). '
        'distinct_nontrivial = distinct (signal class, channels, rate, quality, managed) tuples with at least one member that passed every judged predicate') % (
            UNIQUE, ('16 configurations covering 1/2/3/6 channels at 8000/22050/44100/96000 Hz, q in (0,0.5,1) and -0.1, VBR and ABR, x 4 signals (sweep, noise, clicks, two-tone)' if tier == 'quick' else
                     'all rates x channels x qualities x (VBR, ABR) plus q=-0.1 at 44100 Hz mono/stereo, x 9 signals (sweeps, noise, clicks, burst, two-/five-tone)') + ', plus members of 70001 samples', list(S.schedules(tier)))
    chk.assumptions += [
        'finite family only: "for any input signal" is out of reach; nothing is claimed about signals outside the enumerated family',
        'the SNR floor is a regression-style table (measured minimum minus 6 dB, monotone in q; see the comment at FLOOR); the property only demands that such a quality-dependent, tightening bound exists',
        'the peak factor is 2 (+0.05) without channel coupling and 3 with it: point/lossless coupling rebuilds a channel from its partners, measured maximum 2.7 on legitimately coupled q=0 sweeps',
        'channel identity is judged as "arg max over input channels of the normalised lag-0 correlation is the channel itself", not as a separation bound (lossy coupling may legitimately leak between channels)',
        'ABR members exist only where the bitrate-managed set-up succeeds (the 50-200 kHz template has no bitrate map: ABR at 96000 Hz is not a successfully configured setting and is skipped)',
        'in the 5.1 template (6 ch, 40-50 kHz) channel 5 is the LFE channel, low-passed at ~250 Hz by design; its test content stays below 200 Hz (up to 260 Hz in the LFE-content slice) and it is excluded from the lag and SNR predicates but not from finiteness, peak (global and its own) and identity',
        'over-range (:x) members are judged for finiteness, peak, identity only (the residue books clip beyond their range by design)',
        'input and output are compared over the decoded range (the exact sample count is property C04)',
        'submission schedules: the decoded output of two schedules of one signal/configuration is NOT required to be bit-identical (the start-of-stream LPC pre-extrapolation is computed from whatever has been submitted when it runs, and the envelope search / '
        'block-size decisions and the bitrate reservoir see a different look-ahead; measured on the unchanged tree: %s). Required instead, in every complete 1024-sample window that starts at or after 2 x blocksizes[1] (non-LFE channels): '
        '(1) continuous band-limited classes, windows within 20 dB of the mean window energy: SNR against the input >= windowed floor(class, mode, q) = minimum measured over the thorough schedule slice on the unchanged tree minus 6 dB, non-decreasing in q; '
        '(2) all classes: error energy (in-out) <= error energy of the same window under 1024-sample submissions + %s dB (largest value measured on the unchanged tree + 3 dB; error energies 60 dB below the mean window energy count as equal). '
        'The first 2 x blocksizes[1] samples are judged only through the whole-signal predicates.' % (SCHED_DIFF_MEASURED, SCHED_DIFF_DB),
        'negative-quality members of the schedule slice (q=-0.1, blocks 512/4096, 44100 Hz mono/stereo) have no whole-signal SNR floor table; they carry the windowed floor, the differential bound and all other predicates']
    if not measure:
        chk.guard(table_ok, 'SNR floor table present and non-decreasing in q for every (class, mode)')
    # coverage-count guards describe the complete enumeration; a run cut by its deadline (exhaustive:false, batches_not_run listed) is only
    # required to have finished the batches it reports, starting with the LFE-content slice
    if not cut:
        chk.guard(stats['lag_judged'] >= 1000 and len(stats['lag_judged_by_class']) >= 4, 'alignment judged on >=1000 members from >=4 signal classes, each judged channel having a unique input autocorrelation peak (peak/second-peak >= %g)' % UNIQUE)
        chk.guard(stats['id_ge3ch'] >= 200 and stats['id_coupled_stereo'] >= 50 and stats['id_coupled_51'] >= 10, 'channel identity judged on >=200 members with >=3 channels, >=50 coupled-stereo members and >=10 coupled 5.1 members')
        chk.guard(stats['long_to_short_members'] >= 100, '>=100 members contained a long->short block transition')
        chk.guard(len(passed) >= 100 or nviol > 0, 'at least 100 distinct configurations passed')
    chk.guard('lfe' in done_batches, 'the LFE-content slice was completed')
    if sched_stats:
        ss, bys = sched_stats, sched_stats['by_schedule']
        wtab_ok = SCHED_DIFF_DB is not None and all(c in WFLOOR and mo in WFLOOR[c] and all(WFLOOR[c][mo][a] <= WFLOOR[c][mo][b] for a, b in zip(sorted(WFLOOR[c][mo]), sorted(WFLOOR[c][mo])[1:])) for c in S.CONTINUOUS for mo in MODES)
        if not measure:
            chk.guard(wtab_ok, 'schedule axis: windowed SNR floor table present and non-decreasing in q for every (class, mode); differential bound set')
        chk.guard(all(b['cases'] >= 1 for b in bys.values()) and ss['cases_ok'] + ss['cases_skipped'] == ss['cases'] and ss['groups_all_schedules_ok'] + ss['groups_skipped_by_encoder_setup'] == ss['groups'] and ss['cases_skipped_other_than_abr_at_96000'] == 0,
                  'schedule axis: every schedule kind was executed; every (configuration, signal) group produced a result under every schedule (only ABR at 96000 Hz refused by the encoder set-up)')
        chk.guard(sum(b['buffered_at_preextrapolation_gt_centerW_plus_2_long'] for b in bys.values()) >= 1 and bys['R']['buffered_at_preextrapolation_gt_centerW_plus_2_long'] == bys['R']['cases'],
                  'schedule axis: at least one schedule (every whole-signal submission) left more than centerW + 2 x blocksizes[1] samples buffered when the pre-extrapolation ran / at the first blockout')
        chk.guard(all(list(bys[sc]['buffered_minus_centerW_minus_2_long']) == [k] for sc, k in (('D-1,x1024', '-1'), ('D,x1024', '0'), ('D+1,x1024', '1'))) and '>2' not in bys[S.REF]['buffered_minus_centerW_minus_2_long'],
                  'schedule axis: the D-1 / D / D+1 schedules left exactly centerW + 2 x blocksizes[1] -1 / +0 / +1 samples buffered at the pre-extrapolation, the reference schedule never more than that + 2')
        chk.guard(ss['length_gt_6_long_blocks'] == ss['cases_ok'] and ss['far_windows'] > 0 and ss['snr_windows_judged'] > 0 and ss['diff_windows_judged'] > 0 and bys['x65536']['submissions_max'] >= 2,
                  'schedule axis: every member is longer than 6 x blocksizes[1]; windows beyond 2 x blocksizes[1] were judged against the floor and against the reference schedule; a member longer than 65536 samples exists')
        chk.guard(ss['lag_judged'] >= 0.5 * ss['cases_ok'] and ss['id_judged'] >= 0.5 * ss['cases_ok'], 'schedule axis: alignment and channel identity judged on at least half of the schedule members')
    chk.guard('gap' not in done_batches or stats['gap_pairs_judged'] >= 72, '>=72 level-gap pairs (quiet channel next to loud / silent neighbours) were judged')
    chk.guard(stats['max_input_crosscorr'] < 0.5, 'input channels carry distinct content (max normalised cross-correlation between input channels < 0.5)')
    chk.guard(stats['lfe_content_members_negative_q_blocks_512_4096'] >= 32, '>=32 LFE-content members ran at negative quality with block sizes 512/4096 (LFE residue beyond the LFE floor range) and had their LFE peak judged')
    chk.guard(all(k[0] == 96000 and k[1] == 'a' for k in skipped), 'only ABR at 96000 Hz was refused by the encoder set-up')
    return chk.finish()


def replay(path):
    r = json.load(open(path))
    exe = exe_()
    m = r['replay']['member']
    if m.get('sched'):
        # schedule member: the case and the same signal/configuration under the reference schedule
        out = vlib.run_cases(exe, [m['case'], m['ref_case']], jobs=1)
        print((out[0] or '').split(' ws=')[0])
        print((out[1] or '').split(' ws=')[0])
        refw = S.parse_windows(parse(out[1])) if (out[1] or '').startswith('ok ') and ' ws=' in out[1] else None
        st, v, info, w, view = judge_sched(m, out[0], refw)
        if view:
            print('windows judged from %d to %d; min windowed SNR %s at (channel, window) %s; max error growth against %s: %s dB at %s' % (view['k0'], view['nw'] - 1, view['min_snr'], view['min_at'], S.REF, view['max_deficit'], view['deficit_at']))
        for key, desc in v:
            print('STILL FAILS', key, desc)
        return 1 if (v or st == 'bad' or refw is None) else 0
    out = vlib.run_cases(exe, [r['replay']['case']], jobs=1)
    st, v, info = judge(m, out[0])
    print(out[0])
    if m.get('pair_alone_case') and st == 'ok':
        out2 = vlib.run_cases(exe, [m['pair_alone_case']], jobs=1)
        ma = dict(m, sig=m['sig'][:-1] + '0', case=m['pair_alone_case'])
        st2, v2, info2 = judge(ma, out2[0])
        print(out2[0])
        if st2 == 'ok':
            v = v + v2 + judge_gap_pair(m, info, info2)[0]
    for key, desc in v:
        print('STILL FAILS', key, desc)
    return 1 if (v or st == 'bad') else 0
