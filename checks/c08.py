"""C08: seeks reach every valid target and land where the API says (explicit-state BFS + full target sweeps from seed states)."""
import sys, time, json
import vlib, zoo, seekgraph
from seekgraph import Explorer, parse_out, OV_EINVAL

PID = 'C08'


def sigma(rich=False):
    def s(fm, st):
        ops = ['rf4096']
        P = fm.sample_targets(rich)
        for p in P:
            ops += ['ps%d' % p, 'pp%d' % p]
        ops += ['ps-1', 'pp-1', 'ps%d' % (fm.L + 1), 'pp%d' % (fm.L + 1)]
        for o in fm.raw_targets(rich):
            ops.append('rs%d' % o)
        ops += ['rs-1', 'rs%d' % (fm.size + 1)]
        for t in fm.time_targets(rich):
            ops += ['ts' + t, 'tp' + t]
        ops += ['ts-0.001', 'tp-0.001', 'ts%r' % (fm.duration + 0.01), 'tp%r' % (fm.duration + 0.01)]
        return ops
    return s


def key_for(fm, parent_rec, op, what):
    return f'{fm.name}:{op[:2]}:{what}'


def window_key(fm, op, p, lo, tell):
    """named predicate: the last page boundary below the target belongs to a page that holds nothing but the tail of a packet begun on an
    earlier page X, and the library landed inside X (it raw-seeks to X, i.e. to the end of the first packet of X)."""
    k = fm.link_of_pos(p)
    fx = fm.page_floor_decodable(p)          # boundary of the page X on which the spanning packet begins
    if lo in fm.tailonly[k] and fm.page_floor(fx) <= tell <= fx:
        return 'page_seek_behind_tail_only_page_lands_one_page_early'
    return key_for(fm, None, op, 'page_seek_window')


def judge_op(chk, fm, parent_H, parent_T, op, rc, tell, H, P, hist, stats):
    """Checks the landing rule of one seek transition. Returns nothing; records violations."""
    kind = op[:2]
    rep = {'file': fm.name, 'ops': hist}
    if kind in ('ps', 'pp'):
        p = int(op[2:])
        inr = 0 <= p <= fm.L
        if not inr:
            stats['rejections'] += 1
            if rc != OV_EINVAL:
                chk.violation(key_for(fm, None, op, 'out_of_range_not_rejected'), f'{op} (L={fm.L}) returned {rc}, expected OV_EINVAL', rep)
            elif H != parent_H:
                chk.violation(key_for(fm, None, op, 'rejection_disturbed_state'), f'{op} rejected but the handle state changed (tell {parent_T}->{tell})', rep)
            return
        if rc != 0:
            chk.violation(key_for(fm, None, op, 'in_range_seek_failed'), f'{op} returned {rc} after {hist[-5:-1]} (L={fm.L})', rep)
            return
        if kind == 'ps':
            if tell != p:
                chk.violation(key_for(fm, None, op, 'landed_elsewhere'), f'{op} landed at {tell}', rep)
            if p == fm.L and P not in ('ok:0', '-', None):
                chk.violation(key_for(fm, None, op, 'no_eof_at_L'), f'{op}: read after seek to L gave {P}', rep)
            stats['sigs'].add(('ps', fm.link_of_pos(p), p in fm.fence[fm.link_of_pos(p)], p == fm.L, parent_T == fm.L))
        else:
            lo = fm.page_floor(p)
            if not (lo <= tell <= p):
                chk.violation(window_key(fm, op, p, lo, tell), f'{op} landed at {tell}, allowed [{lo},{p}]', rep)
            stats['sigs'].add(('pp', fm.link_of_pos(p), tell == p, tell == lo))
    elif kind in ('ts', 'tp'):
        t = float(op[2:])
        tgt = fm.time_target(t)
        if tgt is None:
            stats['rejections'] += 1
            if rc != OV_EINVAL:
                chk.violation(key_for(fm, None, op, 'out_of_range_not_rejected'), f'{op} (duration={fm.duration}) returned {rc}', rep)
            elif H != parent_H:
                chk.violation(key_for(fm, None, op, 'rejection_disturbed_state'), f'{op} rejected but state changed', rep)
            return
        k, p = tgt
        if rc != 0:
            chk.violation(key_for(fm, None, op, 'in_range_seek_failed'), f'{op} returned {rc} after {hist[-5:-1]}', rep)
            return
        if kind == 'ts':
            if abs(tell - p) > 1:
                chk.violation(key_for(fm, None, op, 'time_seek_off'), f'{op} landed at {tell}, t*rate position {p}', rep)
            stats['sigs'].add(('ts', k))
        else:
            lo = fm.page_floor(max(p - 1, fm.start[k]))
            if not (lo <= tell <= p + 1):
                chk.violation(window_key(fm, op, max(p - 1, fm.start[k]), lo, tell), f'{op} landed at {tell}, allowed [{lo},{p + 1}]', rep)
            stats['sigs'].add(('tp', k, tell == lo))
    elif kind == 'rs':
        o = int(op[2:])
        if not (0 <= o <= fm.size):
            stats['rejections'] += 1
            if rc != OV_EINVAL:
                chk.violation(key_for(fm, None, op, 'out_of_range_not_rejected'), f'{op} returned {rc}', rep)
            elif H != parent_H:
                chk.violation(key_for(fm, None, op, 'rejection_disturbed_state'), f'{op} rejected but state changed', rep)
        elif rc != 0:
            chk.violation(key_for(fm, None, op, 'in_range_seek_failed'), f'{op} returned {rc}', rep)


def make_judge(chk, stats):
    def judge(ex, parent, op, r, hist):
        fm = ex.fm
        chk.cov['evaluations'] += 1
        if 'err' in r:
            chk.violation(f'{fm.name}:crash', f'executor died / timed out: {r["err"][:300]}', {'file': fm.name, 'ops': hist})
            return
        if parent is None:
            return
        rc, tell = r['R'][-1]
        judge_op(chk, fm, parent['rec']['H'], parent['rec']['T'], op, rc, tell, r['H'], r.get('P'), hist, stats)
    return judge


def seed_states(fm, rich=True):
    seeds = [[], ['ps%d' % fm.L], ['ps%d' % (fm.L // 3), 'rf37'], ['ps-1'], ['rf4096', 'rf1']]
    for k, l in enumerate(fm.lt):
        lastpage = fm.pages[l['last']]
        seeds.append(['rs%d' % (lastpage.offset + 1)])
        if fm.links[k]['n'] > 600:
            seeds.append(['ps%d' % (fm.start[k] + 300), 'rf37'])
    seeds.append(['rs%d' % fm.size])
    return seeds if rich else seeds[:4] + seeds[5:6]


def sweep(chk, exe, listfile, fm, stats, stride=1, rich=True):
    """every p in [-1, L+1] for ps and pp from every seed state"""
    seeds = seed_states(fm, rich)
    # first obtain the seed states' hashes
    res = [parse_out(x) for x in vlib.run_cases(exe, [f'{fm.idx} s - none ' + ' '.join(s) for s in seeds], ['--files', listfile], tag='seed')]
    cases = []
    meta = []
    for s, sr in zip(seeds, res):
        if 'err' in sr:
            chk.violation(f'{fm.name}:crash', f'seed {s} died: {sr["err"][:200]}', {'file': fm.name, 'ops': s})
            continue
        for p in range(-1, fm.L + 2, stride):
            for kind in ('ps', 'pp'):
                cases.append(f'{fm.idx} s - plin ' + ' '.join(s + ['%s%d' % (kind, p)]))
                meta.append((s, sr, '%s%d' % (kind, p)))
    out = vlib.run_cases(exe, cases, ['--files', listfile], tag='sweep')
    for (s, sr, op), line in zip(meta, out):
        r = parse_out(line)
        chk.cov['evaluations'] += 1
        hist = s + [op]
        if 'err' in r:
            chk.violation(f'{fm.name}:crash', f'{hist} died: {r["err"][:200]}', {'file': fm.name, 'ops': hist})
            continue
        if r['R'][:-1] != sr['R']:
            chk.guard(False, f'replay divergence in sweep {hist}')
        rc, tell = r['R'][-1]
        judge_op(chk, fm, sr['H'], sr['T'], op, rc, tell, r['H'], r.get('P'), hist, stats)
        # the audio after every successful landing must be the linear decode (C07's oracle, for free)
        if rc == 0 and not (r.get('P') or '').startswith('ok'):
            chk.violation(f'{fm.name}:{op[:2]}:audio_after_seek', f'{hist}: {r.get("P")}', {'file': fm.name, 'ops': hist})
    return len(cases), len(seeds)


def run(tier):
    chk = vlib.Check(PID, tier, 'model_checking')
    chk.soft_guards_when_cut = False          # quick is deadline-bounded by design; the guards below hold long before any cut
    vlib.build('plain')
    files = zoo.standard_files()
    files.update(zoo.large_files())          # links > CHUNKSIZE: quick explores them to depth 1 and sweeps with a stride
    files.update(zoo.mux_files())            # multiplexed links with packets split over two pages
    exe, listfile, models = seekgraph.load_models(files)
    t_end = time.time() + (240 if tier == 'quick' else 1500)
    stats = {'rejections': 0, 'sigs': set()}
    tot_states = tot_trans = 0
    per_file = {}
    all_fix = True
    merr = []
    nsweep = 0
    for i, fm in enumerate(models):
        budget = time.time() + max(5.0, (t_end - time.time()) / (len(models) - i))
        big = fm.size > 65536 * 2
        ex = Explorer(exe, listfile, fm, sigma(tier == 'thorough'), make_judge(chk, stats), deadline=budget, probe='none' if tier == 'quick' else 'plin',
                      depth_cap=(1 if (big and tier == 'quick') else 99)).explore()
        merr += ex.machinery_errors[:3]
        n, ns = sweep(chk, exe, listfile, fm, stats, stride=(997 if tier == 'quick' else 41) if big else (1 if (tier == 'thorough' or fm.L <= 6000) else 3), rich=(tier == 'thorough' and not big))
        nsweep += n
        per_file[fm.name] = {'states': len(ex.states), 'transitions': ex.trans, 'fixpoint': ex.fixpoint, 'cut': ex.cut, 'max_depth': ex.max_depth,
                             'alphabet': len(sigma(tier == 'thorough')(fm, None)), 'sweep_cases': n, 'seed_states': ns, 'L': fm.L}
        tot_states += len(ex.states)
        tot_trans += ex.trans
        all_fix = all_fix and ex.fixpoint
        if len(chk.cov['samples']) < 10:
            hs = [s['hist'] for s in ex.states.values() if len(s['hist']) >= 2][:2]
            chk.cov['samples'] += [{'file': fm.name, 'history': h} for h in hs]
    if merr:
        chk.guard(False, 'replay determinism: %r' % (merr[:2],))
    chk.cov.update({'states': tot_states, 'transitions': tot_trans + nsweep, 'traces_validated_against_impl': tot_trans + nsweep,
                    'distinct_nontrivial': len(stats['sigs']), 'per_file': per_file, 'exhaustive': all_fix, 'rejections_checked': stats['rejections'], 'sweep_cases': nsweep,
                    'rule': 'BFS to fix-point over seek/read histories incl. out-of-range arguments; landing rule judged on every transition; plus every p in [-1,L+1] for '
                            'ov_pcm_seek and ov_pcm_seek_page from each seed state (fresh, EOF, mid-packet, after rejected seek, after raw seek into each link\'s last page); '
                            'distinct_nontrivial = distinct (kind, link, on-fencepost/at-L/from-EOF) landing signatures'})
    chk.assumptions += ['page fence-posts come from our own parse of the file (pylib/vlib.py), link lengths from construction', 'time seeks judged only for t strictly inside [0,duration): t==duration is left unjudged']
    chk.guard(stats['rejections'] > 10, 'out-of-range rejections exercised')
    chk.guard(len(stats['sigs']) > 20, 'landing signatures diverse')
    return chk.finish()


def replay(path):
    r = json.load(open(path))
    vlib.build('plain')
    files = zoo.standard_files()
    files.update(zoo.large_files())
    files.update(zoo.mux_files())
    exe, listfile, models = seekgraph.load_models(files)
    fm = [m for m in models if m.name == r['replay']['file']][0]
    out = vlib.run_cases(exe, [f"{fm.idx} s - plin " + ' '.join(r['replay']['ops'])], ['--files', listfile], jobs=1)
    print(out[0])
    print('expected:', r['description'])
    return 1
