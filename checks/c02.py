"""C02: the packet-level decoder is memory-safe and terminates on arbitrary input.
Bounded-exhaustive enumeration of header damage (every prefix, every single-bit flip, every field x boundary value, size extremes, header orders),
of audio packets (ALL byte strings up to a length bound on tiny setups; every truncation / bit flip of real packets) and of API call sequences
up to a depth bound, each executed on the real library under ASan+UBSan(subset) with a CPU watchdog, exit interposition and heap accounting."""
import sys, os, time, json, struct, re, itertools, subprocess
import vlib

PID = 'C02'
WRAPX = '-Wl,--wrap=exit,--wrap=abort'
OV = {0, -1, -2, -3, -128, -129, -130, -131, -132, -133, -134, -135, -136, -137, -138}
HEAP_BUDGET = 1 << 30
CAP = ['--heapcap', str(HEAP_BUDGET)]      # a request that would pass the budget ends the case (reported as P=live+request), it is not attempted


def _imp():
    global vspec, vsynth, c02_lattice, rep
    import vspec, vsynth, c02_lattice
    rep = c02_lattice.rep


# ------------------------------------------------------------------ packet sets
def tiny_setups():
    """4 tiny setups (64-sample blocks, <=4-entry VQ books) + the C01 base variants"""
    out = []
    for ch, ft, rt in ((1, 1, 1), (2, 1, 2), (1, 0, 0), (2, 0, 1)):
        s = vsynth.base_setup(channels=ch, bs0=64, bs1=64, restype=rt, floortype=ft, psize=2, vqdim=2, coupling=[(0, 1)] if ch == 2 and rt == 2 else [])
        s.books[1] = vsynth.flat_book(4, 1, 0)
        s.books[2] = vsynth.lattice_book(2, 2, minv=-1, delta=2)       # 4 entries
        out.append(('tiny_ch%d_f%d_r%d' % (ch, ft, rt), s))
    # mode counts that are not a power of two: the per-packet mode field can name modes that do not exist
    for nm in (3, 5):
        s = vsynth.base_setup(channels=1, bs0=64, bs1=64, restype=1, floortype=1, psize=2, vqdim=2)
        s.books[1] = vsynth.flat_book(4, 1, 0)
        s.books[2] = vsynth.lattice_book(2, 2, minv=-1, delta=2)
        s.modes = [vspec.Mode(k % 2, 0) for k in range(nm)]
        out.append(('tiny_modes%d' % nm, s))
    for ch, b0, b1, rt, ft in ((1, 64, 128, 1, 1), (2, 128, 256, 2, 1), (3, 64, 512, 0, 0), (2, 256, 2048, 1, 1)):
        out.append(('base_ch%d_%d_%d_r%d_f%d' % (ch, b0, b1, rt, ft), vsynth.base_setup(channels=ch, bs0=b0, bs1=b1, restype=rt, floortype=ft, coupling=[(0, 1)] if ch == 2 else [])))
    return out


def packets_for(s, n=6):
    f = vsynth.Filler(fixed={'f1.nonzero': 1, 'f0.amp': lambda c, d: 1 + c % 3})
    modes = [0, 1, 1, 0, 1, 0][:n]
    fl = vsynth.flags_for(s, modes)
    return [vsynth.make_packet(s, m, f, pv, nx) for m, (pv, nx) in zip(modes, fl)]


def real_set(name, **kw):
    p, m = vlib.mkzoo(name, **kw)
    pk = vlib.packets_of(vlib.parse_pages(open(p, 'rb').read()))
    return [x[0] for x in pk]


def extreme_books():
    """hand-written size-extreme codebooks: (name, raw bit writer).  Each replaces book 2 of a tiny setup (the residue VQ book)."""
    out = []

    def mk(dim, entries, kind, lookup, length=None, nmults=None, vbits=1):
        def raw(w, p):
            w.w(0x564342, 24)
            w.w(dim & 0xffff, 16)
            w.w(entries & 0xffffff, 24)
            if kind == 'ordered':
                w.w(1, 1)
                L = length or max(1, vspec.ilog(entries - 1))
                w.w(L - 1, 5)
                w.w(entries, vspec.ilog(entries))          # all entries at this length
            elif kind == 'flat':
                w.w(0, 1)
                w.w(0, 1)
                L = length or max(1, vspec.ilog(entries - 1))
                w.w(rep(L - 1, 5, entries), 5 * entries)          # (one big-integer write instead of a Python loop: same bits)
            else:  # sparse: only the first two entries used
                w.w(0, 1)
                w.w(1, 1)
                for i in range(min(entries, 2)):
                    w.w(1, 1)
                    w.w(0, 5)
                w.w(0, max(0, entries - 2))
            w.w(lookup, 4)
            if lookup in (1, 2):
                w.w(vsynth.fpack(-1.0), 32)
                w.w(vsynth.fpack(1.0), 32)
                w.w(vbits - 1, 4)
                w.w(0, 1)
                nm = nmults
                if nm is None:
                    nm = (c02_lattice.iroot_values(entries, dim) if dim > 0 else 0) if lookup == 1 else entries * dim
                m = 1 << vbits
                if nm < 4 * m:
                    for k in range(nm):
                        w.w(k % m, vbits)
                else:
                    per = sum(k << (k * vbits) for k in range(m))       # one period 0..m-1
                    q, r = divmod(nm, m)
                    w.w(rep(per, m * vbits, q), m * vbits * q)
                    for k in range(r):
                        w.w(k, vbits)
        return raw
    for entries in (1, 2, 1 << 16, 1 << 20, 1 << 22, 1 << 23, (1 << 24) - 1):
        for kind in ('ordered', 'sparse') + (('flat',) if entries <= (1 << 20) else ()):
            for dim in (0, 1, 2, 255, 65535):
                if vspec.ilog(dim) + vspec.ilog(entries) > 24 + 2:
                    continue            # far outside the budget: one representative is enough
                for lookup in (0, 1, 2):
                    if lookup == 2 and entries * max(dim, 1) > (1 << 21):
                        continue        # explicit table would make a multi-megabyte header; covered by the budget-edge cases below
                    out.append((f'e{entries}_{kind}_d{dim}_l{lookup}', mk(dim, entries, kind, lookup)))
    # budget edge: ilog(dim)+ilog(entries) == 24 and 25
    for dim, entries in ((1, (1 << 23)), (2, (1 << 22)), (4, 1 << 21), (1 << 12, 1 << 11), (1 << 12, 1 << 12), (65535, 255), (65535, 256)):
        out.append((f'edge_d{dim}_e{entries}', mk(dim, entries, 'ordered', 1)))
    # over/under-populated trees, codeword length 32, zero-length quant lists
    out.append(('over', mk(1, 3, 'flat', 0, length=1)))
    out.append(('under', mk(1, 3, 'flat', 0, length=5)))
    out.append(('len32', mk(1, 2, 'flat', 0, length=32)))
    out.append(('l1_short_mults', mk(2, 16, 'flat', 1, nmults=1)))
    out.append(('l2_vbits16', mk(2, 16, 'flat', 2, vbits=16)))
    return out


def build_sets():
    """returns (sets: list of (name, [packets]), meta: per set dict with fields lists for vspec-made headers)"""
    sets, meta = [], []
    for name, s in tiny_setups():
        idb, idf = vspec.pack_id(s)
        cb, cf = vspec.pack_comment()
        sb, sf = vspec.pack_setup(s)
        sets.append((name, [idb, cb, sb] + packets_for(s) + [b'']))
        meta.append({'fields': [idf, cf, sf], 'kind': 'tiny' if name.startswith('tiny') else 'base', 'audio0': 3})
    # residue geometry: value books whose dimension does not divide / exceeds the partition size / exceeds the block, all residue types.
    # The audio packets come from the sibling setup with a 2-dimensional book (identical floor part); the 'tailfill' family then rewrites their tails.
    for rt in (0, 1, 2):
        for ch in (1, 2):
            for psize, dim in ((2, 3), (2, 100), (8, 3), (8, 5), (8, 64), (32, 33), (32, 100), (32, 255), (16, 4095)):
                s = vsynth.base_setup(channels=ch, bs0=64, bs1=128, restype=rt, psize=psize, vqdim=2, coupling=[(0, 1)] if ch == 2 else [])
                pk = packets_for(s, 4)
                s.books[2] = vspec.Codebook(dim, [1, 1], 1, minv=vsynth.fpack(-1.0), delta=vsynth.fpack(1.0), value_bits=1, mults=[1])
                sets.append(('geom_r%d_ch%d_p%d_d%d' % (rt, ch, psize, dim), [vspec.pack_id(s)[0], vspec.pack_comment()[0], vspec.pack_setup(s)[0]] + pk + [b'']))
                meta.append({'fields': None, 'kind': 'geom', 'audio0': 3})
    for name, kw in (('c02_real8k', dict(rate=8000, ch=1, n=3000, q=0.3, sig='mix', serial=11)), ('c02_real44k', dict(rate=44100, ch=2, n=9000, q=0.2, sig='impulse', serial=12))):
        pk = real_set(name, **kw)
        sets.append((name, pk[:3] + pk[3:23] + [b'']))
        meta.append({'fields': None, 'kind': 'real', 'audio0': 3})
    # size extremes
    for name, raw in extreme_books():
        s = vsynth.base_setup(channels=1, bs0=64, bs1=64, restype=1, psize=2, vqdim=2)
        bk = vspec.Codebook(2, [1, 1], 1)
        bk.raw = raw
        s.books[2] = bk
        sb, sf = vspec.pack_setup(s)
        sets.append(('x_' + name, [vspec.pack_id(s)[0], vspec.pack_comment()[0], sb, bytes([0x00, 0xff, 0x55, 0xaa, 0x12, 0x34]), b'']))
        meta.append({'fields': None, 'kind': 'extreme', 'audio0': 3})
    # structural extremes on tiny setups: 256 books, 64 floors/residues/mappings/modes
    s = vsynth.base_setup(channels=2, bs0=64, bs1=64, restype=1, psize=2)
    s.books = s.books + [vsynth.flat_book(2, 1, 0) for _ in range(252)]
    s.floors = s.floors * 64
    s.residues = s.residues * 64
    s.mappings = s.mappings * 64
    s.modes = [vspec.Mode(k % 2, k % 64) for k in range(64)]
    sets.append(('x_max_counts', [vspec.pack_id(s)[0], vspec.pack_comment()[0], vspec.pack_setup(s)[0]] + packets_for(s, 3) + [b'']))
    meta.append({'fields': None, 'kind': 'extreme', 'audio0': 3})
    return sets, meta


def write_table(path, sets):
    with open(path, 'wb') as f:
        f.write(struct.pack('<i', len(sets)))
        for _, pk in sets:
            f.write(struct.pack('<i', len(pk)))
            for p in pk:
                f.write(struct.pack('<i', len(p)))
                f.write(p)


# ----------------------------------------------------------------------- cases
DEC = 'S B Y3 N O Ra Y4 N O Ra'


def field_values(width, cur):
    mx = (1 << width) - 1
    return sorted(set(v for v in (0, 1, mx, mx - 1, mx // 2, cur + 1, cur - 1) if 0 <= v <= mx and v != cur))


def gen_cases(sets, meta, tier):
    """yields (family, set#, ops string)"""
    hb = ['Hb0', 'H1', 'H2']
    for si, ((name, pk), m) in enumerate(zip(sets, meta)):
        kind = m['kind']
        if kind == 'extreme':
            yield 'extreme', si, 'I Hb0 H1 H2 S B Y3 N O Ra Y3 N O'
            continue
        # A. every byte prefix of each header
        for h in (range(3) if kind != 'geom' else ()):
            step = 1 if (kind != 'real' or tier == 'thorough' or len(pk[h]) < 400) else 1
            for ln in range(0, len(pk[h]), step):
                ops = ['Hb0' if k == 0 else 'H%d' % k for k in range(3)]
                ops[h] = ('Hb' if h == 0 else 'H') + '%dp%d' % (h, ln)
                yield 'prefix', si, 'I ' + ' '.join(ops) + ' ' + DEC
        # B. every single-bit flip of the id and setup headers
        if (kind != 'real' or name == 'c02_real8k' or tier == 'thorough') and kind != 'geom':
            for h in (0, 2):
                for bit in range(8 * len(pk[h])):
                    ops = list(hb)
                    ops[h] = ('Hb' if h == 0 else 'H') + '%db%d' % (h, bit)
                    yield 'bitflip', si, 'I ' + ' '.join(ops) + ' ' + DEC
        # C. field-boundary substitution (vspec-made headers know their fields)
        if m['fields']:
            for h in (0, 2):
                data = int.from_bytes(pk[h], 'little')
                fl = m['fields'][h]
                for (fname, off, w) in fl:
                    if w == 0 or w > 32:
                        continue
                    cur = (data >> off) & ((1 << w) - 1)
                    for v in field_values(w, cur):
                        ops = list(hb)
                        ops[h] = ('Hb' if h == 0 else 'H') + '%df%d:%d:%d' % (h, off, w, v)
                        yield 'field', si, 'I ' + ' '.join(ops) + ' ' + DEC
                if tier == 'thorough' and kind == 'tiny':
                    # all pairs of fields x {0, max}
                    fs = [(o, w) for (_, o, w) in fl if 0 < w <= 32]
                    for (o1, w1), (o2, w2) in itertools.combinations(fs, 2):
                        for v1 in (0, (1 << w1) - 1):
                            for v2 in (0, (1 << w2) - 1):
                                # two substitutions = apply second on top via a two-step operand is not supported; use bit flips of the first differing bits instead
                                pass
        # E. header order / repetition: all sequences of <= 4 headerin calls
        if kind == 'tiny' or (kind == 'base' and tier == 'thorough'):
            alph = ['Hb0', 'H0', 'H1', 'H2', 'H3', 'H%d' % (len(pk) - 1)]
            for ln in range(1, 5 if tier == 'thorough' else 4):
                for seq in itertools.product(alph, repeat=ln):
                    yield 'hdrorder', si, 'I ' + ' '.join(seq) + ' ' + DEC
        # F. all byte strings as audio packets on the tiny setups, after 0, 1 and 2 valid packets
        if kind == 'tiny':
            for ln in ((0, 1, 2) if tier == 'quick' else (0, 1, 2, 3)):
                for pre in ('', 'Y3 N ', 'Y3 N Y4 N '):
                    if ln == 3 and pre != 'Y3 N ':
                        continue
                    if ln == 3:
                        for b0 in range(256):        # sharded by first byte so that the 16.7M strings spread over all workers
                            yield 'allbytes', si, f'I Hb0 H1 H2 S B {pre}Y* N O Ra Y5 N O Ra ALL3:{b0}'
                    else:
                        yield 'allbytes', si, f'I Hb0 H1 H2 S B {pre}Y* N O Ra Y5 N O Ra ALL{ln}'
        # G. every truncation and every single-bit flip of the audio packets
        na = len(pk) - 4
        lim = na if (kind != 'real' or tier == 'thorough') else 8
        for k in range(3, 3 + lim):
            for ln in range(len(pk[k])):
                yield 'trunc', si, f'I Hb0 H1 H2 S B Y3 N Y{k}p{ln} N O Ra Y{min(k + 1, 2 + na)} N O Ra'
            if kind != 'real' or k < 3 + (lim if tier == 'thorough' else 4):
                for bit in range(8 * len(pk[k])):
                    yield 'pktflip', si, f'I Hb0 H1 H2 S B Y3 N Y{k}b{bit} N O Ra Y{min(k + 1, 2 + na)} N O Ra'
        # G2. tail fill: every byte position of the first audio packets, from there on 48 bytes of a constant (codeword streams that keep decoding)
        if kind in ('geom', 'tiny', 'base'):
            for k in range(3, 3 + min(na, 3)):
                for pos in range(len(pk[k]) + 1):
                    for v in (0, 255, 0x55, 0xaa, 0x0f):
                        yield 'tailfill', si, f'I Hb0 H1 H2 S B Y3 N Y{k}t{pos}:{v}:48 N O Ra Y{min(k + 1, 2 + na)} N O Ra'
        if kind == 'geom':
            continue
        # H. granule positions / eos / padding
        for g in (-1, 0, 1, 100, 9223372036854775807, -9223372036854775807 - 1):
            for e in ('', 'e'):
                yield 'granule', si, f'I Hb0 H1 H2 S B Y3 N O Ra Y{e}g{g}:4 N O Ra Y5 N O Ra'
        # H2. granule positions of CONSECUTIVE packets: every ordered pair (and, on a smaller set, triple) of boundary values x e_o_s flags; the
        #     end-of-stream trim works on the difference of the running and the packet's granule position (64-bit wrap-around included)
        GB = (-1, -2, 0, 1, 100, 2 ** 31, 2 ** 62, 2 ** 63 - 1001, 2 ** 63 - 1, -2 ** 63, -2 ** 63 + 1000)
        for g1 in GB:
            for g2 in GB:
                for e1 in ('', 'e'):
                    for e2 in ('', 'e'):
                        yield 'granpair', si, f'I Hb0 H1 H2 S B Y{e1}g{g1}:3 N O Ra Y{e2}g{g2}:4 N O Ra Y5 N O Ra'
        GS = (-1, 0, 100, 2 ** 63 - 1, -2 ** 63)
        for g1 in GS:
            for g2 in GS:
                for g3 in GS:
                    for e3 in ('', 'e'):
                        yield 'grantriple', si, f'I Hb0 H1 H2 S B Yg{g1}:3 N O Ra Yg{g2}:4 N O Ra Y{e3}g{g3}:5 N O Ra Y4 N O Ra'
        yield 'pad', si, 'I Hb0 H1 H2 S B Y3 N Y4z300 N O Ra'
        # J. plateau: the same decode loop 3, 4, 5 times
        for k in (3, 4, 5):
            yield 'plateau%d' % k, si, 'I Hb0 H1 H2 S B ' + ' '.join(['Y3 N O Ra Y4 N O Ra X'] * k)
        # I2. half-rate toggles around init on setups whose short blocks allow half-rate (>64): the decoder's buffers are sized at init
        if kind == 'base' and 'ch2_128_256' in name or kind == 'base' and '256_2048' in name:
            hsig = ['h0', 'h1', 'Y3', 'Y4', 'N', 'O', 'Ra', 'X', 'L', 'S', 'B', 'cb', 'cd']
            for pre in ('I Hb0 H1 H2 h1 S B', 'I Hb0 H1 H2 S B h1', 'I Hb0 H1 H2 h1 S B Y3 N', 'I Hb0 H1 H2 S B Y3 N h1 X'):
                for ln in range(1, 4 if tier == 'quick' else 5):
                    for seq in itertools.product(hsig, repeat=ln):
                        yield 'hrseq', si, pre + ' ' + ' '.join(seq) + ' Y4 N O Ra Y5 N O Ra'
        # I. call sequences over the whole alphabet, after each prefix
        if kind == 'tiny' or (kind == 'base' and tier == 'thorough'):
            sigma = ['I', 'Hb0', 'H1', 'H2', 'S', 'B', 'Y3', 'Y4p3', 'T3', 'T4p0', 'N', 'O', 'o', 'R0', 'R1', 'Ra', 'RA', 'L', 'X', 'h0', 'h1', 'hp', 'K3', 'D0', 'cb', 'cd', 'ci', 'cc']
            prefixes = ['', 'I', 'I Hb0', 'I Hb0 H1', 'I Hb0 H1 H2', 'I Hb0 H1 H2 S', 'I Hb0 H1 H2 S B', 'I Hb0 H1 H2 S B Y3 N', 'I Hb0 H1 H2 h1 S B Y3 N Y4 N']
            for pi, pre in enumerate(prefixes):
                if tier == 'quick':
                    depth = 3 if si == 0 else 2
                else:
                    depth = 4 if (si == 0 and pi in (4, 6, 7)) else 3      # depth 4 = 531441 sequences per prefix
                for ln in range(1, depth + 1):
                    for seq in itertools.product(sigma, repeat=ln):
                        yield 'callseq', si, (pre + ' ' + ' '.join(seq)).strip()


# ---------------------------------------------------------------------- oracle
def asan_key(text, ops=''):
    if 'heap-use-after-free' in text and 'vorbis_synthesis_blockin' in text and '_vorbis_block_ripcord' in text:
        return 'blockin_after_rejected_trackonly_uaf' if 'vorbis_synthesis_trackonly' in text.split('previously allocated')[0] else 'blockin_after_rejected_packet_uaf'
    if 'in run_ops' in text.split('allocated by')[0] and 'vorbis_' not in text.split('allocated by')[0] and re.search(r'\b[LO]\b', ops):
        toks = ops.split()
        if 'S' in toks and any(t in ('h0', 'h1') for t in toks[toks.index('S') + 1:]):
            # named predicate: vorbis_synthesis_halfrate() toggled while a decoder built from that vorbis_info is live, then an output call
            return 'live_halfrate_toggle_output_region_oob'
        return 'read_without_data_then_lapout'
    m = re.search(r'ERROR: AddressSanitizer: ([\w-]+)', text)
    kind = m.group(1) if m else ('ubsan' if 'runtime error' in text else 'unknown')
    fr = re.findall(r'#\d+ 0x[0-9a-f]+ in (\w+)', text)
    fr = [f for f in fr if not f.startswith('__') and f not in ('malloc', 'calloc', 'realloc', 'free', 'memcpy', 'memset', 'run_ops', 'main', 'operand')]
    if kind == 'ubsan':
        m2 = re.search(r'(\w+\.c):(\d+):\d+: runtime error: ([\w -]+)', text)
        if m2:
            return f'ubsan:{m2.group(3).strip().replace(" ", "_")[:30]}:{m2.group(1)}'
    return f'asan:{kind}:{fr[0] if fr else "?"}'


def named(name, default):
    """named predicates over the hand-written extreme sets"""
    m = re.match(r'x_e(\d+)_(ordered|flat|sparse)_d(\d+)_l(\d)', name)
    if m:
        entries, kind, dim, lookup = int(m.group(1)), m.group(2), int(m.group(3)), int(m.group(4))
        if dim == 0 and lookup in (1, 2):
            return 'codebook_dim0_value_book'
        if entries >= (1 << 19) and kind in ('ordered', 'flat'):
            return 'codebook_huge_used_entries_stack'
    return default


def judge(chk, fam, si, name, ops, line, stats, plateau, table=None):
    rep = {'set': name, 'ops': ops}
    if table:
        rep['tier'] = chk.tier
    if line is None:
        chk.violation(f'nooutput:{fam}', f'{name}: executor gave no answer for "{ops}"', rep)
        return
    if line.startswith('DIED'):
        m = re.match(r'DIED rc=(-?\d+) (.*)', line, re.S)
        rc = int(m.group(1))
        txt = json.loads(m.group(2)) if m else ''
        if rc == 77 or 'Sanitizer' in txt or 'runtime error' in txt:
            chk.violation(named(name, asan_key(txt, ops) + (':extreme' if fam == 'extreme' else '')), f'{name}: "{ops}" -> sanitizer report: {txt[-600:]}', rep)
        else:
            chk.violation(named(name, f'signal:{rc}:{fam}'), f'{name}: "{ops}" -> process died rc={rc} {txt[-300:]}', rep)
        return
    if line.startswith('TIMEOUT'):
        if fam != 'booklat':                          # (the lattice records its watchdog expiries batch by batch)
            stats['timeouts'].append((fam, si, name, ops, table))
        return
    d = dict(tok.split('=', 1) for tok in line.split(' ') if '=' in tok)
    if d.get('X') == '1':
        chk.violation(f'exit_called:{fam}', f'{name}: "{ops}" made the library call exit()/abort()', rep)
    if int(d.get('P', 0)) > HEAP_BUDGET:
        chk.violation(f'heap_budget:{fam}', f'{name}: "{ops}" peak heap {d["P"]} bytes', rep)
    rcs = d.get('R', '')
    sigs = rcs.split('|') if 'N' in d else [rcs]
    for sg in sigs:
        for x in sg.split(','):
            if x in ('~', '-', ''):
                continue
            v = int(x)
            if v < 0 and v not in OV:
                chk.violation('lapout_negative_count' if re.search(r'\bL\b', ops) and v < -138 or (re.search(r'\bL\b', ops) and v % 32 == 0) else f'undocumented_code:{v}:{fam}', f'{name}: "{ops}" returned {v}', rep)
    if fam.startswith('plateau'):
        plateau.setdefault(si, {})[fam] = int(d.get('L', -1))
    stats['outcomes'].add((fam, rcs[:60]))
    if 'N' in d:
        stats['enumerated_strings'] += int(d['N'])
        stats['allbytes_sigs'] += int(d.get('S', 0))


def peak_of(line):
    m = re.search(r' P=(\d+)', line or '')
    return int(m.group(1)) if m else 0


def run_lattice(chk, tier, exe, exe_plain, stats, plateau, fams):
    """codebook size lattice (pylib/c02_lattice.py): every lattice point x lookup type x length transmission x role, on the ASan build (all
    oracles) and on the uninstrumented build (8 MiB stack, heap budget, watchdog).  Tables of at most 64 MB each."""
    L = c02_lattice

    def groups():
        cur, size = [], 0
        for item in L.lattice_sets(tier, packets_for):            # streamed: the thorough lattice is > 1 GB of headers
            n = sum(len(p) for p in item[1])
            if cur and size + n > (64 << 20):
                yield cur
                cur, size = [], 0
            cur.append(item)
            size += n
        if cur:
            yield cur
    c = {'sets': 0, 'tables': 0, 'rejected': 0, 'accepted_init_ok': 0, 'accepted_cheap': 0, 'over_budget_sets': 0, 'over_budget_accepted': 0,
         'seed_circumstance_presented': 0, 'max_peak': 0, 'plain_runs': 0, 'cells_both_outcomes': 0}
    cells = {}
    for gi, g in enumerate(groups()):
        tab = os.path.join(vlib.zoo_dir(), 'c02_lat_%s_%d.bin' % (tier, gi))
        write_table(tab, [(x[0], x[1]) for x in g])
        g = [(x[0], None, x[2]) for x in g]
        c['sets'] += len(g)
        c['tables'] += 1
        # batches of 96: a change that makes a whole class hang costs 10 s of CPU per case, so the lattice stops after 60 watchdog expiries
        # (each of them is judged below; the rest of the lattice is then reported as not run: exhaustive=false)
        res, resp = [], []
        for b0 in range(0, len(g), 96):
            lines = [f'{k} {L.OPS}' for k in range(b0, min(b0 + 96, len(g)))]
            for rr, ex_, fl_ in ((res, exe, ''), (resp, exe_plain, ':plain')):
                if len(stats['timeouts']) > 60:
                    c['cut'] = True
                    break
                rr += vlib.run_cases(ex_, lines, ['--table', tab, '--timeout', '10'] + CAP, tag='c02l')
                stats['timeouts'] += [('booklat' + fl_, k, g[k][0], L.OPS, tab) for k in range(b0, len(rr)) if (rr[k] or '').startswith('TIMEOUT')]
            if c.get('cut'):
                break
        resp += ['NOTRUN'] * (len(res) - len(resp))
        for k, (name, _, info) in enumerate(g[:len(res)]):
            fams['booklat'] = fams.get('booklat', 0) + 1
            chk.cov['evaluations'] += 2
            c['plain_runs'] += 1
            judge(chk, 'booklat', k, name, L.OPS, res[k], stats, plateau, tab)
            r = resp[k]
            if r == 'NOTRUN':
                c['plain_runs'] -= 1
            elif r is None or r.startswith('DIED'):
                chk.violation('plain:died:booklat', f'{name}: "{L.OPS}" on the uninstrumented build (8 MiB stack): {str(r)[:300]}', {'set': name, 'ops': L.OPS, 'flavour': 'plain', 'tier': tier})
            elif r.startswith('TIMEOUT'):
                pass                                      # recorded with its batch
            elif peak_of(r) > HEAP_BUDGET:
                chk.violation('heap_budget:booklat', f'{name}: "{L.OPS}" peak heap {peak_of(r)} bytes (uninstrumented build)', {'set': name, 'ops': L.OPS, 'flavour': 'plain', 'tier': tier})
            # coverage facts from the instrumented run
            c['over_budget_sets'] += info['over']
            rc = (re.search(r'R=(\S+)', res[k] or '') or [None, ''])[1].split(',') if (res[k] or '').startswith('R=') else []
            h2, si_ = (rc[3] if len(rc) > 3 else None), (rc[4] if len(rc) > 4 else None)
            # what the seeded class needs: a lookup-1 book beyond the 24-bit size budget with a complete tree and its full value table, given to headerin
            if info['lookup'] == 1 and info['over'] and info['written'] == info['declared'] and h2 not in (None, '~'):
                c['seed_circumstance_presented'] += 1
            cell = cells.setdefault((info['lookup'], info['kind'], info['place']), set())
            if h2 is not None and h2.startswith('-'):
                c['rejected'] += 1
                cell.add('rej')
            elif h2 == '0' and si_ == '0':
                c['accepted_init_ok'] += 1
                c['over_budget_accepted'] += info['over']
                c['accepted_cheap'] += peak_of(res[k]) < (1 << 20)
                cell.add('acc')
            c['max_peak'] = max(c['max_peak'], peak_of(res[k]))
        if c.get('cut'):
            break
    c['cells'] = len(cells)
    c['cells_both_outcomes'] = sum(1 for v in cells.values() if v == {'rej', 'acc'})
    c['cells_never_accepted'] = sorted('l%d/%s/%s' % k for k, v in cells.items() if 'acc' not in v)
    c['bound'] = 'dim x entries = %s x %s; lookup 0/1/2; %s; roles %s; tier bounds in c02_lattice.lattice_sets' % ((L.DIMS, L.ENTRIES, '/'.join(L.KINDS), '/'.join(L.PLACES)) if tier == 'quick' else (L.DIMS_T, L.ENTRIES_T, '/'.join(L.KINDS), '/'.join(L.PLACES)))
    chk.cov['booklat'] = c
    return c


def run(tier):
    chk = vlib.Check(PID, tier, 'exploration')
    vlib.build('asan', 'plain')
    _imp()
    exe = vlib.harness('asan', 'c02_dec', extra=WRAPX)
    exe_plain = vlib.harness('plain', 'c02_dec', extra=WRAPX)
    sets, meta = build_sets()
    table = os.path.join(vlib.zoo_dir(), 'c02_table.bin')
    write_table(table, sets)
    t0 = time.time()
    deadline = t0 + (170 if tier == 'quick' else 1380)
    fams = {}
    stats = {'timeouts': [], 'outcomes': set(), 'enumerated_strings': 0, 'allbytes_sigs': 0}
    plateau = {}
    cases = list(gen_cases(sets, meta, tier))
    # cheap families first so that a deadline cuts the big enumerations, not the targeted ones
    order = {'extreme': 0, 'granule': 1, 'pad': 1, 'plateau3': 1, 'plateau4': 1, 'plateau5': 1, 'prefix': 2, 'field': 3, 'hdrorder': 4, 'trunc': 5, 'tailfill': 5, 'granpair': 1, 'grantriple': 1, 'hrseq': 5, 'bitflip': 6, 'pktflip': 7, 'allbytes': 8, 'callseq': 9}
    cases.sort(key=lambda c: order.get(c[0], 5))
    cut = False
    done = 0
    lat = run_lattice(chk, tier, exe, exe_plain, stats, plateau, fams)
    cut = bool(lat.get('cut'))
    CH = 40000
    for i in range(0, len(cases), CH):
        if time.time() > deadline or len(stats['timeouts']) > 150:
            # (more than 150 watchdog expiries: the verdict cannot change any more, only the wall time)
            cut = True
            break
        chunk = cases[i:i + CH]
        lines = [f'{si} {ops}' for (_, si, ops) in chunk]
        res = vlib.run_cases(exe, lines, ['--table', table, '--timeout', '10'] + CAP, tag='c02')
        for (fam, si, ops), r in zip(chunk, res):
            fams[fam] = fams.get(fam, 0) + 1
            chk.cov['evaluations'] += 1
            judge(chk, fam, si, sets[si][0], ops, r, stats, plateau)
        done += len(chunk)
    # stack: the size-extreme headers again on the uninstrumented build with the default 8 MiB stack
    ext = [(f, si, ops) for (f, si, ops) in cases if f == 'extreme']
    res = vlib.run_cases(exe_plain, [f'{si} {ops}' for (_, si, ops) in ext], ['--table', table, '--timeout', '10'] + CAP, tag='c02p')
    for (fam, si, ops), r in zip(ext, res):
        chk.cov['evaluations'] += 1
        if r is None or r.startswith('DIED'):
            chk.violation(named(sets[si][0], 'plain:died:' + sets[si][0]), f'{sets[si][0]}: "{ops}" on the uninstrumented build (8 MiB stack): {str(r)[:300]}', {'set': sets[si][0], 'ops': ops, 'flavour': 'plain'})
        elif r.startswith('TIMEOUT'):
            stats['timeouts'].append((fam + ':plain', si, sets[si][0], ops, None))
        elif peak_of(r) > HEAP_BUDGET:
            chk.violation(named(sets[si][0], 'heap_budget:extreme'), f'{sets[si][0]}: "{ops}" peak heap {peak_of(r)} bytes (uninstrumented build)', {'set': sets[si][0], 'ops': ops, 'flavour': 'plain'})
    # timeouts: re-run alone with a 10x limit before calling it non-termination
    seen = set()
    hang_keys = {}
    for fam, si, name, ops, tb in stats['timeouts']:
        if (name, ops) in seen:
            continue
        seen.add((name, ops))
        k = named(name, f'hang:{fam}:{name}')
        hang_keys[k] = hang_keys.get(k, 0) + 1
        if hang_keys[k] > 2 or len(hang_keys) > 4:
            # the same named class already re-checked twice at the long limit; report the rest on the strength of the 10 s watchdog
            chk.violation(k, f'{name}: "{ops}" did not return within 10 s of CPU (class re-checked at 100 s)', {'set': name, 'ops': ops})
            continue
        r = vlib.run_cases(exe_plain if fam.endswith(':plain') else exe, [f'{si} {ops}'], ['--table', tb or table, '--timeout', '100'] + CAP, jobs=1, tag='c02t')[0]
        if r is None or r.startswith('TIMEOUT'):
            chk.violation(k, f'{name}: "{ops}" did not return within 100 s of CPU', {'set': name, 'ops': ops})
        elif r.startswith('DIED'):
            judge(chk, fam, si, name, ops, r, stats, plateau, tb)
    for si, d in plateau.items():
        if d.get('plateau4', -1) != d.get('plateau5', -2):
            chk.violation('heap_growth', f'{sets[si][0]}: live heap after 4 vs 5 repetitions of the decode loop: {d}', {'set': sets[si][0], 'ops': 'plateau'})
    # lattice search, directly
    qexe = vlib.harness('plain', 'c02_quant')
    qr = subprocess.run([qexe, 'quick' if tier == 'quick' else 'thorough'], stdout=subprocess.PIPE, stderr=subprocess.PIPE, text=True, timeout=1500)
    qd = dict(tok.split('=') for tok in qr.stdout.split() if '=' in tok)
    chk.cov['evaluations'] += int(qd.get('pairs', 0))
    if qr.returncode != 0 or int(qd.get('bad', 1)):
        chk.violation('maptype1_quantvals', f'_book_maptype1_quantvals disagrees with the integer definition or did not return: {qr.stdout[-300:]} rc={qr.returncode}', {'cmd': 'c02_quant'})
    chk.cov.update({'distinct_nontrivial': len(stats['outcomes']), 'exhaustive': not cut, 'families': fams, 'cases_enumerated': len(cases), 'cases_run': done,
                    'byte_strings_enumerated': stats['enumerated_strings'], 'distinct_rc_signatures_in_allbytes': stats['allbytes_sigs'], 'quantvals_pairs': int(qd.get('pairs', 0)), 'timeouts_rechecked': len(seen),
                    'samples': [{'family': f, 'set': sets[si][0], 'ops': ops} for (f, si, ops) in cases[:: max(1, len(cases) // 10)]][:12],
                    'rule': 'packet sets: 4 tiny + 4 base synthesised setups, 2 real-encoder setups, hand-written size-extreme codebooks, the codebook size lattice (booklat: dim x entries x lookup type x length transmission x role, ASan + plain), maximal counts; families: every header prefix, every single-bit flip of id/setup headers, every header field x {0,1,max,max-1,mid,v+-1}, '
                            'all headerin orders <=3(4), ALL byte strings of length <=2(3) as audio packets after 0/1/2 valid packets, every truncation / bit flip of audio packets, granule/eos extremes, decode-loop plateau, all API call sequences <= depth 3(4) after 9 prefixes (lifetime filter only); '
                            'oracle: no ASan/UBSan(bounds,null,div0) report, no signal, CPU watchdog (re-checked at 10x), no exit(), documented codes, heap peak <= 1 GiB (a request beyond it is not attempted: the executor ends the case and reports live+request) and plateau; distinct_nontrivial = distinct (family, return-code signature) outcomes'})
    chk.assumptions += ['UBSan subset = bounds, null, integer-divide-by-zero (what the property names)', 'leaks after the clear calls are C13\'s subject, not judged here',
                        'heap budget: 1 GiB for header sets below 1 MiB (24-bit entry counts x a few 4-byte arrays)', 'stack: uninstrumented build, default 8 MiB; ASan frames are larger, so stack verdicts come from the plain build']
    chk.guard(len(stats['outcomes']) > 20, 'many distinct outcome signatures (not vacuous)')
    chk.guard(fams.get('extreme', 0) > 50, 'size-extreme headers executed')
    n_l1_over = sum(1 for (_, _, i) in c02_lattice.lattice_sets(tier, lambda s_, n_: []) if i['lookup'] == 1 and i['over'] and i['written'] == i['declared'])
    chk.guard(lat['seed_circumstance_presented'] == n_l1_over and n_l1_over >= 300, 'codebook size lattice: every lookup-1 book beyond the 24-bit size budget (complete tree, full value table) reached headerin')
    chk.guard(lat['rejected'] >= 500 and lat['accepted_cheap'] >= 500, 'codebook size lattice: rejected headers and accepted-and-cheap headers both seen')
    chk.guard(lat['cells_both_outcomes'] == lat['cells'] - 8 and len(lat['cells_never_accepted']) == 8 and all(x.startswith('l0/') and x.endswith(('/res', '/floor0')) for x in lat['cells_never_accepted']),
              'codebook size lattice: every lookup x transmission x role cell has accepted and rejected members (value-less books cannot be residue stage / floor 0 books)')
    for f_ in os.listdir(vlib.zoo_dir()):
        if f_.startswith('c02_lat_' + tier + '_'):
            os.unlink(os.path.join(vlib.zoo_dir(), f_))
    return chk.finish()


def replay(path):
    r = json.load(open(path))
    vlib.build('asan', 'plain')
    _imp()
    sets, meta = build_sets()
    table = os.path.join(vlib.zoo_dir(), 'c02_table.bin')
    write_table(table, sets)
    rp = r['replay']
    if str(rp.get('set', '')).startswith('lat_'):
        # a lattice set is regenerated from its name (same tier = same value-table bound)
        hit = [(n, pk) for (n, pk, _) in c02_lattice.lattice_sets(rp.get('tier', 'quick'), packets_for) if n == rp['set']]
        if not hit:
            print('unknown lattice set')
            return 1
        sets = hit
        table = os.path.join(vlib.zoo_dir(), 'c02_lat_replay.bin')
        write_table(table, sets)
    names = [n for n, _ in sets]
    if rp.get('ops') in (None, 'plateau') or rp.get('set') not in names:
        print('not replayable as a single case')
        return 1
    exe = vlib.harness('plain' if rp.get('flavour') == 'plain' else 'asan', 'c02_dec', extra=WRAPX)
    out = vlib.run_cases(exe, [f"{names.index(rp['set'])} {rp['ops']}"], ['--table', table, '--timeout', '100'] + CAP, jobs=1)
    print(out[0])
    if os.path.basename(table) == 'c02_lat_replay.bin':
        os.unlink(table)
    return 0 if (out[0] and not out[0].startswith(('DIED', 'TIMEOUT')) and ' X=0' in out[0] and peak_of(out[0]) <= HEAP_BUDGET) else 1
