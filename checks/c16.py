"""C16: comments survive the header round trip and tag queries are consistent.

Bounded-exhaustive enumeration of comment lists against a list reference model; the enumeration itself runs inside the
C executor harness/c16_comments.c (one case line = one sub-space with a fixed range of first entries)."""
import sys, os, re, json, time, itertools, subprocess, shutil
import vlib

PID = 'C16'
A6 = bytes([0x61, 0x41, 0x3d, 0x00, 0xe9, 0x69])        # a A = NUL e-acute i   (DESIGN's alphabet)
A4 = bytes([0x61, 0x41, 0x3d, 0x00])                    # a A = NUL
A8 = A6 + bytes([0x49, 0xc9])                           # + I, E-acute
TR = 'tr_TR.ISO-8859-9'
NVEND = 6                                               # source vendors of the EDIT family (0 = this library, 1..5 foreign), see the executor
MANDATORY = ('core', 'sizes', 'sequences', 'locale')                  # never skipped by the deadline
TIMEOUT = 1500                                          # CPU seconds per case line (watchdog in the executor)


# ------------------------------------------------------------------ sub-space arithmetic (independent of the executor)
def strings(alpha, maxlen):
    """All strings of length <= maxlen over alpha in the executor's order (by length, then by alphabet order)."""
    out = []
    for l in range(maxlen + 1):
        for t in itertools.product(alpha, repeat=l):
            out.append(bytes(t))
    return out


class Sub:
    """All lists of exactly n entries over S(alpha,maxlen), minus those lying entirely in S(xalpha,xmaxlen)."""

    def __init__(self, alpha, maxlen, n, xalpha=None, xmaxlen=0, per_line=1):
        self.alpha, self.maxlen, self.n, self.xalpha, self.xmaxlen, self.per_line = alpha, maxlen, n, xalpha, xmaxlen, per_line
        self.S = strings(alpha, maxlen)
        self.ns = len(self.S)
        xs = set(xalpha) if xalpha is not None else None
        self.excl = [xs is not None and len(s) <= xmaxlen and all(b in xs for b in s) for s in self.S]
        self.nx = sum(self.excl)

    def name(self):
        return f"n={self.n} over strings<= {self.maxlen} over {self.alpha.hex()}" + (f" minus all-in({self.xalpha.hex()},<= {self.xmaxlen})" if self.xalpha is not None else '')

    def expected(self, lo, hi):
        if self.n == 0:
            return 1 if lo == 0 else 0
        return sum(self.ns ** (self.n - 1) - (self.nx ** (self.n - 1) if self.excl[k] else 0) for k in range(lo, min(hi, self.ns)))

    def total(self):
        return self.expected(0, self.ns if self.n else 1)

    def lines(self, mode, loc):
        if self.n == 0:
            return [(f"enum {mode} {loc} {self.alpha.hex()} {self.maxlen} 0 0 1 - 0", 1)]
        out = []
        for lo in range(0, self.ns, self.per_line):
            hi = min(self.ns, lo + self.per_line)
            x = f"{self.xalpha.hex()} {self.xmaxlen}" if self.xalpha is not None else "- 0"
            out.append((f"enum {mode} {loc} {self.alpha.hex()} {self.maxlen} {self.n} {lo} {hi} {x}", self.expected(lo, hi)))
        return out


def assert_disjoint(subs):
    """Two sub-spaces with the same n may only overlap in lists that one of them excludes."""
    for i, a in enumerate(subs):
        for b in subs[i + 1:]:
            if a.n != b.n:
                continue
            if a.n == 0:
                raise SystemExit('C16 machinery: the empty list is enumerated twice')
            ia = bytes(x for x in a.alpha if x in b.alpha)
            il = min(a.maxlen, b.maxlen)
            ok = any(s.xalpha is not None and all(x in s.xalpha for x in ia) and il <= s.xmaxlen for s in (a, b))
            if not ok:
                raise SystemExit(f'C16 machinery: sub-spaces overlap: {a.name()} / {b.name()}')


# ------------------------------------------------------------------ a Turkish-casing locale when the system has none
def make_locale():
    """The sandbox ships only C/C.utf8.  Compile an LC_CTYPE stand-in for tr_TR.ISO-8859-9 (dotted/dotless i casing,
    i -> 0xDD, I -> 0xFD, e-acute <-> E-acute) with localedef from a source written here.  Returns LOCPATH or None."""
    if not shutil.which('localedef'):
        return None
    d = os.path.join(vlib.BUILD, 'c16_locale')
    if os.path.exists(os.path.join(d, TR, 'LC_CTYPE')):
        return d
    os.makedirs(d, exist_ok=True)
    chars = [ord(bytes([b]).decode('iso8859_9')) for b in range(256)]
    cs = set(chars)
    cm = ['<code_set_name> ISO-8859-9', '<comment_char> %', '<escape_char> /', '<mb_cur_min> 1', '<mb_cur_max> 1', 'CHARMAP']
    cm += ['<U%04X> /x%02x CHAR%02X' % (c, b, b) for b, c in enumerate(chars)] + ['END CHARMAP']
    open(os.path.join(d, 'ISO-8859-9.charmap'), 'w').write('\n'.join(cm) + '\n')

    def up(ch):
        if ch == 'i':
            return 'İ'
        if ch == 'ı':
            return 'I'
        r = ch.upper()
        return r if len(r) == 1 else ch

    def lo(ch):
        if ch == 'I':
            return 'ı'
        if ch == 'İ':
            return 'i'
        r = ch.lower()
        return r if len(r) == 1 else ch
    U = lambda c: '<U%04X>' % c
    tu = [(c, ord(up(chr(c)))) for c in chars if up(chr(c)) != chr(c) and ord(up(chr(c))) in cs]
    tl = [(c, ord(lo(chr(c)))) for c in chars if lo(chr(c)) != chr(c) and ord(lo(chr(c))) in cs]
    src = ['comment_char %', 'escape_char /', 'LC_CTYPE',
           'upper ' + ';'.join(U(c) for c in chars if chr(c).isupper()),
           'lower ' + ';'.join(U(c) for c in chars if chr(c).islower()),
           'alpha ' + ';'.join(U(c) for c in chars if chr(c).isalpha()),
           'digit ' + ';'.join(U(c) for c in range(0x30, 0x3a)),
           'space <U0020>;<U0009>;<U000A>;<U000B>;<U000C>;<U000D>',
           'cntrl ' + ';'.join(U(c) for c in list(range(0, 32)) + [127]),
           'punct ' + ';'.join(U(c) for c in range(33, 127) if not chr(c).isalnum()),
           'graph ' + ';'.join(U(c) for c in range(33, 127)),
           'print ' + ';'.join(U(c) for c in range(32, 127)),
           'xdigit ' + ';'.join(U(ord(c)) for c in '0123456789ABCDEFabcdef'),
           'blank <U0020>;<U0009>',
           'toupper ' + ';'.join('(%s,%s)' % (U(a), U(b)) for a, b in tu),
           'tolower ' + ';'.join('(%s,%s)' % (U(a), U(b)) for a, b in tl),
           'END LC_CTYPE']
    open(os.path.join(d, 'tr_TR.src'), 'w').write('\n'.join(src) + '\n')
    subprocess.run(['localedef', '-c', '-f', os.path.join(d, 'ISO-8859-9.charmap'), '-i', os.path.join(d, 'tr_TR.src'), os.path.join(d, TR)],
                   stdout=subprocess.PIPE, stderr=subprocess.PIPE)
    return d if os.path.exists(os.path.join(d, TR, 'LC_CTYPE')) else None


def vendor_of_tree():
    m = re.search(r'#define\s+ENCODE_VENDOR_STRING\s+"((?:[^"\\]|\\.)*)"', open(os.path.join(vlib.REPO, 'lib', 'info.c')).read())
    if not m:
        raise SystemExit('C16 machinery: ENCODE_VENDOR_STRING not found in lib/info.c')
    return m.group(1)


def setup():
    vlib.build('asan')
    exe = vlib.harness('asan', 'c16_comments')
    vendor = vendor_of_tree()
    # pick the second locale: a real Turkish one if installed, else the stand-in, else none
    locs = ['C']
    note = None
    probe = vlib.run_cases(exe, ['probe tr_TR.UTF-8', 'probe tr_TR.utf8', 'probe tr_TR'], jobs=1, tag='c16p')
    names = ['tr_TR.UTF-8', 'tr_TR.utf8', 'tr_TR']
    hit = [n for n, r in zip(names, probe) if (r or '').startswith('ok')]
    if hit:
        locs.append(hit[0])
        note = f'query pass repeated under installed locale {hit[0]} ({probe[names.index(hit[0])]})'
    else:
        lp = make_locale()
        if lp:
            os.environ['LOCPATH'] = lp
            r = vlib.run_cases(exe, ['probe ' + TR], jobs=1, tag='c16p')[0] or ''
            if r.startswith('ok') and 'toupper_i=49' not in r:
                locs.append(TR)
                note = ('no tr_TR locale is installed (locale -a: C, C.utf8, POSIX); the query pass is repeated under a stand-in LC_CTYPE locale '
                        f'{TR} compiled by the check with localedef (Turkish dotted/dotless-i casing in ISO-8859-9; probe: {r}); only LC_CTYPE is switched')
            else:
                os.environ.pop('LOCPATH', None)
        if note is None:
            note = 'no tr_TR locale is installed and localedef could not build a stand-in: queries ran under the "C" locale only'
    return exe, vendor, locs, note


def fields(r):
    return {k: v for k, v in (t.split('=', 1) for t in r.split() if '=' in t)}


def preds(hexlist):
    """Named predicate over the first failing list (for the finding key)."""
    if hexlist.startswith('.'):
        return 'n=0'
    ents = hexlist.split(',')
    n = len(ents)
    return f"n={n if '..(' not in hexlist else 'many'},nul={int(any(re.search(r'^(..)*00', e.split('..')[0]) for e in ents))},empty={int('-' in ents)},long={int('..(len' in hexlist)}"


# ------------------------------------------------------------------ call-sequence families (EDIT / REUSE), see the executor's header
def nulfree(alpha, maxlen):
    return [x for x in strings(alpha, maxlen) if 0 not in x]


def seq_lines(tier):
    """[(case text, expected number of sequences)] -- counts computed here, independently of the executor."""
    out = []
    big = tier != 'quick'
    # EDIT grid: decoder-filled N (every residue of (N+1)%16 several times) x 0..K adds (0 = plain transcode), both header paths,
    # x source vendor V of the decoded stream (0 = this library, 1..5 foreign, hand-packed header)
    nmax, kmax, step = (80, 40, 8) if big else (40, 20, 7)
    for V in range(NVEND):
        for lo in range(0, nmax + 1, step):
            hi = min(nmax, lo + step - 1)
            out.append((f'editgrid f C {lo} {hi} {kmax} {V}', (hi - lo + 1) * (kmax + 1)))
    # EDIT exhaustive contents: (base maxlen, base n, added maxlen, added k, lines' first-index step, mode, source vendors)
    ALLV = list(range(NVEND))
    spaces = [(3, 0, 2, 1, 1, 'c', ALLV), (3, 0, 2, 2, 1, 'c', ALLV), (3, 1, 2, 1, 259, 'c', ALLV), (2, 2, 1, 1, 43, 'c', ALLV), (3, 1, 2, 2, 12, 'c', [0, 1]),
              (3, 1, 2, 0, 259, 'f', ALLV), (3, 2, 2, 0, 8, 'c', ALLV)]           # k=0: decode -> write -> decode, every base list
    if big:
        spaces += [(2, 2, 2, 2, 1, 'c', [0, 1]), (3, 1, 2, 3, 4, 'c', [0]), (3, 1, 2, 2, 12, 'c', [2, 3, 4, 5]), (3, 2, 2, 0, 8, 'f', [1])]
    for bl, bn, al, ak, per, mode, vs in spaces:
        nb, nfa = len(strings(A6, bl)), len(nulfree(A6, al))
        for V in vs:
            if bn == 0:
                out.append((f'editenum {mode} C {A6.hex()} {bl} 0 {al} {ak} 0 1 {V}', nfa ** ak))
                continue
            for lo in range(0, nb, per):
                hi = min(nb, lo + per)
                out.append((f'editenum {mode} C {A6.hex()} {bl} {bn} {al} {ak} {lo} {hi} {V}', (hi - lo) * nb ** (bn - 1) * nfa ** ak))
    # REUSE grid: fill N>0, clear, add M>=0 without init, both header paths
    nmax, mmax, step = (40, 40, 3) if big else (20, 20, 2)
    for lo in range(1, nmax + 1, step):
        hi = min(nmax, lo + step - 1)
        out.append((f'reusegrid f C {lo} {hi} {mmax}', (hi - lo + 1) * (mmax + 1)))
    # REUSE exhaustive contents: (first maxlen, first n, second maxlen, second n)
    for al, an, bl, bn in ([(1, 1, 2, 0), (1, 1, 2, 1), (1, 1, 2, 2), (1, 2, 2, 0), (1, 2, 2, 1), (1, 2, 2, 2)] + ([(2, 1, 2, 2), (2, 2, 2, 1), (2, 2, 2, 2)] if big else [])):
        nf1, nf2 = len(nulfree(A6, al)), len(nulfree(A6, bl))
        per = nf1 if an == 1 else 1
        for lo in range(0, nf1, per):
            hi = min(nf1, lo + per)
            out.append((f'reuseenum c C {A6.hex()} {al} {an} {bl} {bn} {lo} {hi}', (hi - lo) * nf1 ** (an - 1) * nf2 ** bn))
    return out


def seq_pred(variant, lst):
    """Named predicate of a failing EDIT / REUSE sequence (for the finding key) and its single-sequence replay case."""
    fam = variant.split(':')[0]
    N = int((re.search(r'N=(\d+)', variant) or [0, 0])[1])
    V = int((re.search(r'V=(\d+)', variant) or [0, 0])[1])
    m = re.search(r'\.\.\((\d+) entries\)', lst)
    n = int(m.group(1)) if m else (0 if lst.startswith('.') else len(lst.split(',')))
    K = n - N
    if fam == 'edit':
        pred = ('transcode_of_decoder_filled_struct' if K == 0 else f"adds_onto_decoder_filled_struct,(N+1)%16{'==0' if (N + 1) % 16 == 0 else '!=0'}") + (',foreign_source_vendor' if V > 0 else '')
    else:
        pred = f"refill_after_clear_without_init,M{'=0' if K == 0 else '>0'}"
    one = None if '..(' in lst else f'{fam}1 MODE LOC {N} {lst}' + (f' {V}' if fam == 'edit' else '')
    return fam, pred, one, N, K


def locate_died(exe, vendor, case):
    """Re-run a case that killed its worker alone with --trace: the trace file then holds the list being processed."""
    tr = os.path.join(vlib.BUILD, 'tmp', f'c16.trace.{os.getpid()}')
    try:
        vlib.run_cases(exe, [case], ['--vendor', vendor, '--timeout', str(TIMEOUT), '--trace', tr], jobs=1, tag='c16t')
        lst = open(tr).read().strip()
        os.unlink(tr)
        return tuple((lst.split(' ', 1) + ['-'])[:2]) if ' ' in lst else ('-', lst)
    except Exception:
        return None


def run(tier):
    chk = vlib.Check(PID, tier, 'exploration')
    exe, vendor, locs, locnote = setup()
    args = ['--vendor', vendor, '--timeout', str(TIMEOUT)]
    deadline = chk.t0 + float(os.environ.get('VERIF_C16_DEADLINE_S') or (75 if tier == 'quick' else 12 * 60))   # no optional chunk is started after this (core, sizes, locale always run)

    # ---------------------------------------------------------------- sub-spaces
    if tier == 'quick':
        subs = [Sub(A6, 3, 0), Sub(A6, 3, 1, per_line=259), Sub(A6, 3, 2, per_line=4), Sub(A6, 2, 3, per_line=1),
                Sub(A4, 3, 3, A6, 2, per_line=1)]
        counts, countsz = [0, 1, 2, 1000, 5000], [1, 2, 1000, 5000]
        lens = [0, 1, 255, 65535, 65536, 300000]
        qsubs = [Sub(A6, 3, 1, per_line=259), Sub(A6, 3, 2, per_line=8)]
        batches = [('core', subs[:4]), ('sizes', None), ('sequences', None), ('locale', qsubs), ('a4n3', subs[4:])]
    else:
        core = [Sub(A6, 3, 0), Sub(A6, 3, 1, per_line=259), Sub(A6, 3, 2, per_line=4)]
        n3 = [Sub(A6, 3, 3, per_line=1)]
        n4 = [Sub(A6, 2, 4, per_line=1)]
        wide = [Sub(A8, 3, 1, A6, 3, per_line=585), Sub(A8, 3, 2, A6, 3, per_line=4)]
        long4 = [Sub(A6, 4, 1, A6, 3, per_line=1555), Sub(A6, 4, 2, A6, 3, per_line=8)]
        subs = core + n3 + n4 + wide + long4
        counts, countsz = [0, 1, 2, 3, 1000, 5000, 10000], [1, 2, 3, 1000, 5000]
        lens = [0, 1, 2, 3, 254, 255, 256, 65535, 65536, 65537, 300000, 1000000]
        qsubs = [Sub(A6, 3, 1, per_line=259), Sub(A6, 3, 2, per_line=4), Sub(A6, 2, 3, per_line=1)]
        batches = [('core', core), ('sizes', None), ('sequences', None), ('locale', qsubs), ('n3', n3), ('wide', wide), ('long4', long4), ('n4', n4)]
    assert_disjoint(subs)
    taglens = [1, 2, 125, 126, 127, 128, 129, 200, 255, 256, 1000, 65536]
    sizes = [f'count f C {n}' for n in counts] + [f'countz f C {n}' for n in countsz] + [f'len f C {l}' for l in lens] + ['all256 f C', 'fold256 f C'] + [f'longtag f C {l}' for l in taglens]
    enum_maxlen = max(s.maxlen for s in subs)
    enum_maxn = max(s.n for s in subs)

    tot = dict(lists=0, nontriv=0, variants=0, api=0, rts=0, queries=0, qnonnull=0, qcase=0, qmulti=0, nulents=0, nulrt=0, big=0, amb=0, seqs=0, seqok=0)
    per_sub = []
    samples = []
    complete = True
    incomplete_lines = 0
    size_sigs = {}
    distinct = 0
    maxlen_rt = 0

    seq_stats = {}

    def judge(case, res, expect, count_distinct):
        nonlocal distinct, maxlen_rt, incomplete_lines
        r = res or 'NOOUTPUT'
        f = fields(r)
        is_seq = case.split()[0] in ('editgrid', 'editenum', 'reusegrid', 'reuseenum', 'edit1', 'reuse1')
        # one evaluation = one comment list (or one EDIT / REUSE call sequence) put through the oracle
        chk.cov['evaluations'] += max(1, int(f.get('lists', 0)) + int(f.get('seqs', 0))) if r[:3] in ('ok ', 'bad') else 1
        chk.cov['case_lines'] = chk.cov.get('case_lines', 0) + 1
        mode_loc = case.split()[1:3]
        if r.startswith('ok') or r.startswith('bad:'):
            for k in tot:
                tot[k] += int(f.get(k, 0))
            maxlen_rt = max(maxlen_rt, int(f.get('maxlen', 0)))
        if r.startswith('ok'):
            if expect is not None and int(f['seqs' if is_seq else 'lists']) != expect:
                incomplete_lines += 1
            if count_distinct:
                if f.get('sig', '-') == '-':
                    distinct += int(f['nontriv'])
                else:
                    size_sigs[f['sig']] = (int(f['nontriv']), int(f['maxlen']), case)
            return True
        rp = {'from_case': case, 'vendor': vendor, 'LOCPATH': os.environ.get('LOCPATH')}
        if r.startswith('bad:'):
            what = r.split(' ')[0]
            cls = ':'.join(what.split(':')[1:3])
            first = f.get('first', '-/-/-')
            variant, path, lst = (first.split('/', 2) + ['-', '-'])[:3]
            if variant.startswith('edit:') or variant.startswith('reuse:'):
                fam, pred, one, N, M = seq_pred(variant, lst)
                one = one and one.replace('MODE LOC', ' '.join(mode_loc))
                chk.violation(f'{cls}:{fam}/{path}:{pred}', f'{what} in sequence {variant} (then {M} adds), entries {lst} ({f.get("nfail")} failing checks in "{case}")', dict(rp, case=one or case))
                return False
            one = None
            if '..(' not in lst:
                one = ' '.join(['one'] + mode_loc + [lst])
            if case.startswith('longtag'):
                # the query tags are part of the case, not of the list: replay the (small) case line itself
                tl = re.search(r'tag=[0-9a-f]+\(len(\d+)\)', what)
                tl = int(tl.group(1)) if tl else int(case.split()[3])
                chk.violation(f"{cls}:{variant}/{path}:query_tag_{'longer_than_126' if tl > 126 else 'up_to_126'}_chars", f'{what} on list {lst} ({f.get("nfail")} failing checks in "{case}")', dict(rp, case=case))
                return False
            chk.violation(f'{cls}:{variant}/{path}:{preds(lst)}', f'{what} on list {lst} ({f.get("nfail")} failing checks in sub-space "{case}")', dict(rp, case=one or case))
            return False
        # worker died (ASan / signal) or watchdog
        variant, lst = locate_died(exe, vendor, case) or ('-', None) if (r.startswith('DIED') or r.startswith('TIMEOUT')) else ('-', None)
        kind = 'timeout' if r.startswith('TIMEOUT') else ('memory_error' if 'rc=77' in r or 'Sanitizer' in r else 'died')
        if lst and (variant.startswith('edit:') or variant.startswith('reuse:')):
            fam, pred, one, N, M = seq_pred(variant, lst)
            one = one and one.replace('MODE LOC', ' '.join(mode_loc))
            chk.violation(f'{kind}:{fam}:{pred}', f'{r[:1500]} in sequence {variant} (then {M} adds), entries {lst} of "{case}"', dict(rp, case=one or case))
            return False
        one = None
        if lst and '..(' not in lst:
            one = ' '.join(['one'] + mode_loc + [lst])
        chk.violation(f'{kind}:{preds(lst) if lst else case.split()[0]}', f'{r[:1500]} while processing list {lst} of "{case}"', dict(rp, case=one or case))
        return False

    # heaviest size cases first so that round-robin sharding spreads them
    order = sorted(sizes, key=lambda c: -(int(c.split()[3]) if len(c.split()) > 3 and c.startswith('count') else (2000 if c.startswith('longtag') and int(c.split()[3]) > 60000 else 0)))
    fold = {}
    big_sizes = 0

    # ---------------------------------------------------------------- enumerated sub-spaces, batch by batch under the deadline
    loc2 = locs[1] if len(locs) > 1 else None
    loc_pass = {'lists': 0, 'queries': 0, 'qcase': 0}
    skipped = []
    # a batch is cut into chunks of at most CHUNK lists so that the deadline is honoured at chunk granularity
    CHUNK = 2200000
    work = []          # (batch name, kind, [(sub, text, expected)])
    for bname, bsubs in batches:
        if bname == 'sizes':
            work.append(('sizes', 's', [(None, c, None) for c in order]))
            continue
        if bname == 'sequences':
            # heaviest lines first (round-robin sharding)
            sl = sorted(seq_lines(tier), key=lambda t: -t[1])
            work.append(('sequences', 'e', [(None, t, e) for t, e in sl]))
            continue
        if bname == 'locale':
            if loc2:
                lines = [(None, c.replace(' f C', f' q {loc2}'), None) for c in sizes if not c.startswith('len')]
                for s in bsubs:
                    lines += [(None, t, e) for t, e in s.lines('q', loc2)]
                work.append((f'locale({loc2})', 'q', lines))
            continue
        cur, cur_n, part = [], 0, 0
        for s in bsubs:
            for text, exp in s.lines('f', 'C'):
                if cur and cur_n + exp > CHUNK:
                    work.append((f'{bname}.{part}', 'f', cur))
                    cur, cur_n, part = [], 0, part + 1
                cur.append((s, text, exp))
                cur_n += exp
        if cur:
            work.append((f'{bname}.{part}' if part else bname, 'f', cur))
    if vlib.SEED:
        # VERIF_SEED only permutes the order in which the optional chunks (everything after core + locale) are walked
        import random
        head = [w for w in work if w[0].split('.')[0].split('(')[0] in MANDATORY]
        tail = [w for w in work if w not in head]
        random.Random(vlib.SEED).shuffle(tail)
        work = head + tail
    agg = {}
    for s in subs:
        agg[id(s)] = [s, 0]
    for bname, kind, lines in work:
        if time.time() > deadline and bname.split('.')[0].split('(')[0] not in MANDATORY:
            complete = False
            skipped.append(bname)
            continue
        t1 = time.time()
        before = dict(tot)
        res = vlib.run_cases(exe, [l[1] for l in lines], args, tag='c16' + kind)
        for (s, text, exp), r in zip(lines, res):
            judge(text, r, exp, kind in 'fs')
        if kind == 'e':
            seq_stats.update({'case_lines': len(lines), 'sequences_expected': sum(e for _, _, e in lines), 'sequences_run': tot['seqs'] - before['seqs'], 'sequences_ok': tot['seqok'] - before['seqok']})
            if s is not None:
                agg[id(s)][1] += int(fields(r or '').get('lists', 0))
        if kind == 's':
            fold = fields(res[order.index('fold256 f C')] or '')
            big_sizes = tot['big'] - before['big']
        if kind == 'q':
            loc_pass = {k: tot[k] - before[k] for k in loc_pass}
        mid = lines[len(lines) // 2]
        samples.append({'case': mid[1], 'result': (res[len(lines) // 2] or '')[:160]})
        if mid[0] is not None and mid[0].n > 0 and len(samples) < 12:
            sub, t = mid[0], mid[1].split()
            lo, hi = int(t[6]), min(int(t[7]), sub.ns)
            hx = lambda b: b.hex() or '-'
            samples.append({'first_list_of_that_subspace_line': [hx(sub.S[lo])] + [hx(sub.S[0])] * (sub.n - 1),
                            'last_list_of_that_subspace_line': [hx(sub.S[hi - 1])] + [hx(sub.S[-1])] * (sub.n - 1), 'entries': 'hex, - = empty entry'})
        print(f'  chunk {bname}: {len(lines)} case lines, {tot["lists"] - before["lists"]} lists, {tot["seqs"] - before["seqs"]} call sequences, {time.time() - t1:.1f}s', file=sys.stderr)
    for s, got in agg.values():
        per_sub.append({'subspace': s.name(), 'lists_in_subspace': s.total(), 'lists_run': got})

    # size cases that are not members of any enumerated sub-space count as additional distinct lists
    # (conservative: only those with an entry longer than any enumerated string or more entries than any enumerated list)
    extra = 0
    for sig, (nt, ml, case) in size_sigs.items():
        k = case.split()[0]
        n = int(case.split()[3]) if k in ('count', 'countz') else 0
        if ml > enum_maxlen or n > enum_maxn:
            extra += nt
    distinct += extra

    chk.cov.update({
        'distinct_nontrivial': distinct,
        'exhaustive': bool(complete and incomplete_lines == 0),
        'rule': 'cases = comment lists, enumerated completely per sub-space inside the C executor (all lists of exactly n entries over all byte strings of length <= L over a small alphabet containing a, A, =, NUL, 0xE9, i; see subspaces) plus hand-listed size extremes; '
                'every list is built in the structure directly with explicit lengths (and through vorbis_comment_add / vorbis_comment_add_tag when NUL-free), written by vorbis_analysis_headerout and vorbis_commentheader_out, read by vorbis_synthesis_headerin and compared with the list; '
                'every tag of {a,A,aa,a=,(empty),i,I,0xE9,0xC9,TITLE} x every index 0..count+1 is queried on the written and on the read structure; long tags: for each tag length in long_tag_lengths every ordered triple of entries around the tag (exact, other case, last character changed, one longer/shorter, 126/127-character prefix) is queried with the tag and each relative; evaluations = lists put through this oracle (all locales); '
                'distinct_nontrivial = number of distinct comment lists with >= 1 entry for which every construction variant round-tripped through both header paths and every query agreed '
                '(sub-spaces are disjoint by construction: a sub-space skips the lists that lie entirely inside another one; size-extreme lists are added only when they have an entry longer than, or more entries than, any enumerated list)',
        'subspaces': per_sub,
        'size_cases': {'counts': counts, 'counts_with_embedded_nul': countsz, 'lengths': lens, 'other': ['all256', 'fold256 (256 entries X"=v" x all 255 one-byte tags)'], 'long_tag_lengths': taglens},
        'totals': dict(tot, max_entry_length_round_tripped=maxlen_rt),
        'locales': locs,
        'call_sequences': dict(seq_stats, families='EDIT: decode N entries from a stream written by this library or by a FOREIGN vendor (hand-packed header: AcmeCodec..., empty, 300 bytes, NUL/0xff bytes), then 0..K vorbis_comment_add/_add_tag onto the decoder-filled structure, write, decode, compare incl. vendor == the vendor of this library; REUSE: fill N>0, vorbis_comment_clear, add M>=0 without vorbis_comment_init, write, decode, compare'),
        'batches_skipped_by_deadline': skipped,
        'second_locale_pass': loc_pass,
        'vendor_expected': vendor,
        'samples': samples,
    })
    chk.assumptions += [
        'expected vendor = ENCODE_VENDOR_STRING as defined in lib/info.c of the tree under test (it is not exported; vorbis_version_string() is a different constant and is not compared)',
        'queries are judged on the encoder-side structure and on the decoded structure; a successful query must return user_comments[k]+strlen(tag)+1 of the k-th matching entry (the documentation says the returned buffer is owned by the structure)',
        'a model entry matches tag T iff its first |T|+1 bytes equal T"=" under A-Z/a-z folding, using the explicit length; the C-string reading (entry cut at its first NUL) is computed too and a tag whose two readings differ is not judged '
        f'(happened {tot["amb"]} times: T"=" contains no NUL, so both readings coincide); entries built directly in the structure are zero-terminated after their explicit length, as the decode library does',
        'zero termination of decoded entries (user_comments[i][len]==0) is judged because doc/libvorbis/vorbis_comment.html promises it; user_comments[count]==NULL is not judged',
        'REUSE family: a structure emptied by vorbis_comment_clear is required to behave like a freshly initialised one for later vorbis_comment_add calls and header output (the documentation only says the storage is freed; the implementation zeroes the structure and applications reuse it per track)',
        'EDIT family: vorbis_comment_add / _add_tag are applied to the structure filled by vorbis_synthesis_headerin (tag-editor / transcode use); the structure keeps reporting the source stream\'s vendor (as a C string) until it is cleared, but any header this library writes from it must carry the library\'s own vendor string (doc/libvorbis/vorbis_comment.html: "Libvorbis will fill this in itself when encoding a comment packet from this structure")',
        'indices 0..count+1 only; negative indices and NULL tags are outside the property',
        'structures built by hand are freed by hand (doc: do not mix with vorbis_comment_clear); vorbis_comment_clear is used for API-built and decoded structures',
        locnote,
    ]
    chk.guard(tot['qcase'] > 0, 'some query matched an entry whose tag differs from the query tag in case')
    chk.guard(tot['qmulti'] > 0, 'some query with index >= 1 succeeded (a tag with >= 2 matches)')
    chk.guard(tot['nulrt'] > 0, 'entries with embedded NUL round-tripped with their full length')
    chk.guard(big_sizes > 0 or chk.violations, 'a comment longer than 64 KiB round-tripped')
    chk.guard(tot['api'] > 0, 'vorbis_comment_add / add_tag construction variants ran')
    chk.guard(int(fold.get('qcase', 0)) >= 52 or chk.violations, 'fold256: every letter matched its other-case partner on both structures')
    chk.guard(incomplete_lines == 0, 'every enumerated sub-space ran exactly the number of lists computed independently in Python')
    chk.guard(tot['amb'] == 0, 'no query was skipped as ambiguous')
    chk.guard(seq_stats.get('sequences_run', 0) > 0 and (seq_stats.get('sequences_run') == seq_stats.get('sequences_expected') or chk.violations), 'every EDIT / REUSE call sequence computed in Python was run')
    if loc2:
        chk.guard(loc_pass['qcase'] > 0 or not complete, 'case-differing matches were exercised under the second locale')
    return chk.finish()


def replay(path):
    r = json.load(open(path))['replay']
    vlib.build('asan')
    exe = vlib.harness('asan', 'c16_comments')
    if r.get('LOCPATH'):
        lp = make_locale()
        if lp:
            os.environ['LOCPATH'] = lp
    out = vlib.run_cases(exe, [r['case']], ['--vendor', vendor_of_tree(), '--timeout', str(TIMEOUT)], jobs=1, tag='c16r')
    print(r['case'], '->', out[0])
    return 0 if (out[0] or '').startswith('ok') else 1
