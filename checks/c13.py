"""C13: clear functions release everything on success and on every error path.

Fault / path enumeration with an allocation-accounting oracle on the real library (harness/c13_leak.c):
every case is one usage path of the encoder, the packet-level decoder or vorbisfile that ends in the documented
clear calls issued twice; the link-time wrapped allocator (malloc/calloc/realloc/free of libvorbis, libvorbisenc,
libvorbisfile and the static libogg) must be back at its baseline, ASan / glibc must not see a double or invalid free,
and the close callback must have run exactly once, at ov_clear, iff the open succeeded."""
import os, sys, re, json, time, itertools
import vlib

PID = 'C13'
HARNESS = 'c13_leak'

CH = [1, 2, 3, 4, 5, 6, 7, 8, 255]
# one rate inside every template band + the band edges (XX <8000, 8: 8000-9000, 11: 9000-15000, 16: 15000-19000, 22: 19000-26000,
# 32: 26000-40000, 44: 40000-50000, 44p51 (6 ch): 40000-70000, X: 50000-200000)
RATES = [4000, 7999, 8000, 8001, 8999, 9000, 9001, 11025, 14999, 15000, 15001, 16000, 18999, 19000, 19001, 22050, 25999, 26000, 26001, 32000,
         39999, 40000, 40001, 44100, 48000, 49999, 50000, 50001, 64000, 69999, 70000, 70001, 96000, 192000, 199999, 200000]
BAND_RATES = [4000, 8000, 11025, 16000, 22050, 32000, 44100, 48000, 64000, 96000, 192000]
QS = [-0.1, 0.0, 0.1, 0.2, 0.3, 0.4, 0.5, 0.6, 0.7, 0.8, 0.9, 1.0]
Q3 = [-0.1, 0.4, 1.0]
ST1 = [(2, 0), (3, 0), (4, 0), (5, 0), (6, 0), (6, 1), (6, 5), (7, 5)]            # one-step APIs (the set-up call includes setup_init)
ST2 = [(0, 0)] + ST1                                                             # two-step APIs
STAGE_NAME = {0: 'setup', 1: 'ctl', 2: 'setup_init', 3: 'analysis_init', 4: 'headerout', 5: 'block_init', 6: 'blocks', 7: 'eos'}


def kv(r):
    return dict(re.findall(r'(\w+)=(\S+)', r or ''))


# ------------------------------------------------------------------------------------------------ encoder space
def managed_triples(ch):
    """(max,nominal,min) sets: only nominal, max only, min only, all three, none (rejected), nominal far outside every template."""
    out = []
    for per in (16000, 64000):
        n = per * ch
        out += [(-1, n, -1), (n, -1, -1), (-1, -1, n), (n + n // 2, n, n // 2)]
    out += [(-1, -1, -1), (-1, 1, -1), (-1, 2000000000, -1)]
    return out


def enc_cases(tier):
    cs = []

    def add(api, ch, rate, arg, ctl, stage, nblk, cl, flav='plain', ho=None):
        a = arg if isinstance(arg, str) else repr(float(arg))
        d = {'space': 'enc', 'flav': flav, 'api': api, 'ch': ch, 'rate': rate, 'arg': a, 'ctl': ctl, 'stage': stage, 'nblk': nblk, 'cl': cl}
        if ho:
            d['ho'] = ho
            d['sub'] = 'headerout'
        cs.append((f'e {api} {ch} {rate} {a} {ctl} {stage} {nblk} {cl}' + (f' {ho}' if ho else ''), d))
    thorough = tier == 'thorough'
    # (1) VBR one-step, the whole (channels x rates x quality) grid
    for ch in CH:
        for rate in RATES:
            for q in QS:
                for st, n in (ST1 if (thorough or q == 0.4) else [(2, 0), (6, 1)]):
                    add('v', ch, rate, q, 0, st, n, 0)
    # (2) VBR two-step (setup_vbr, then setup_init)
    for ch in CH:
        for rate in (RATES if thorough else BAND_RATES):
            for q in (QS if thorough else Q3):
                for st, n in ST2:
                    add('s', ch, rate, q, 0, st, n, 0)
    # (3) encoder ctl between the two steps (every request that changes set-up state)
    for ch in CH:
        for rate in (RATES if thorough else BAND_RATES):
            for q in (Q3 if thorough else [0.4]):
                for ctl in (1, 2, 3, 4, 5, 6):
                    for st, n in ((1, 0), (2, 0), (6, 1), (7, 5)) if thorough else ((1, 0), (2, 0), (6, 1)):
                        add('s', ch, rate, q, ctl, st, n, 0)
    # (4) managed: one-step vorbis_encode_init and two-step setup_managed (+ctl that switches management off / re-arms it)
    for ch in (CH if thorough else [1, 2, 3, 6, 8, 255]):
        for rate in (RATES if thorough else BAND_RATES):
            for tr in managed_triples(ch):
                a = '%d,%d,%d' % tr
                for st, n in (ST1 if thorough else [(2, 0), (6, 1)]):
                    add('m', ch, rate, a, 0, st, n, 0)
                for ctl in (0, 3, 4):
                    for st, n in ([(0, 0), (2, 0), (6, 1), (7, 5)] if thorough else [(0, 0), (6, 1)]):
                        if ctl and st == 0:
                            st = 1
                        add('M', ch, rate, a, ctl, st, n, 0)
    # (5) the other repetition pattern of the clear calls (each function twice in a row)
    for ch in CH:
        for rate in (RATES if thorough else BAND_RATES):
            for st, n in ST1:
                add('v', ch, rate, 0.4, 0, st, n, 1)
    # (6) rejected argument tuples (one-step and two-step; stage asks for everything, the rejection stops the path)
    for ch, rate, q in [(0, 44100, 0.4), (256, 44100, 0.4), (-1, 44100, 0.4), (2, 0, 0.4), (2, -1, 0.4), (2, 300000, 0.4), (2, 200001, 0.4), (2, 44100, 2.0), (2, 44100, -0.2), (2, 44100, -1.0),
                        (6, 39999, 0.4), (6, 70001, 0.4), (1, 7999, 1.0), (255, 200001, 0.1)]:
        for api in 'vs':
            for st, n in ((0, 0), (2, 0), (6, 1)):
                for cl in (0, 1):
                    add(api, ch, rate, q, 0, st, n, cl)
    for ch, rate, tr in [(0, 44100, (-1, 128000, -1)), (256, 44100, (-1, 128000, -1)), (2, 0, (-1, 128000, -1)), (2, 300000, (-1, 128000, -1)), (2, 44100, (0, 0, 0)), (2, 44100, (-1, -5, -1))]:
        for api in 'mM':
            for st, n in ((0, 0), (2, 0), (6, 1)):
                add(api, ch, rate, '%d,%d,%d' % tr, 0, st, n, 0)
    # (8) vorbis_analysis_headerout called 1, 2, 3 times on the same dsp state (same comment struct, changed comment struct, a second
    #     comment struct; before the first analysis_buffer and again after a block of audio has been encoded), then 0 / some / all audio, clear calls
    for ch in (1, 2, 6):
        for rate in ((8000, 44100) if not thorough else (8000, 22050, 44100, 48000)):
            per = 16000 if rate < 26000 else 64000
            for api, arg in (('v', 0.4), ('m', '-1,%d,-1' % (per * ch))) + ((('s', 0.4), ('M', '%d,%d,%d' % (per * ch * 2, per * ch, per * ch // 2))) if thorough else ()):
                for ho in HO_PATTERNS:
                    for st, n in ((4, 0), (6, 1), (7, 5)):
                        for cl in ((0, 1) if st == 4 else (0,)):
                            add(api, ch, rate, arg, 0, st, n, cl, 'plain', ho)
                for ho in ('hh', 'hHN', 'hah'):
                    add(api, ch, rate, arg, 0, 6, 1, 0, 'asan', ho)
    # (7) second witness for double / invalid frees: the same paths under ASan on one rate per template band
    #     (if the asan flavour's UBSan stops the encoder somewhere that is recorded as an observation, see assumptions)
    for ch in CH:
        for rate in (RATES if thorough else BAND_RATES):
            for st, n in (ST1 if thorough else ST1[:-1]):
                add('v', ch, rate, 0.4, 0, st, n, 0, 'asan')
            for st, n in [(0, 0), (1, 0), (2, 0), (6, 1)]:
                add('s', ch, rate, 0.4, 1 if st == 1 else 0, st, n, 1, 'asan')
            for st, n in [(2, 0), (6, 1)]:
                add('m', ch, rate, '-1,%d,-1' % (32000 * ch), 0, st, n, 0, 'asan')
    return cs


HO_PATTERNS = ['h', 'hh', 'hhh', 'hH', 'hHH', 'hN', 'hNh', 'NN', 'hah', 'hhah', 'hHaH', 'ah', 'ahh', 'hahah']


def is_51_template(m, k):
    """named predicate: the set-up selected the 5.1 template (6 channels, 40000..70000 Hz, coupling left on)."""
    if m['ch'] != 6 or not (40000 <= m['rate'] <= 70000):
        return False
    if m['ctl'] == 1 and k.get('rc', '').split(',')[1] == '0':
        return False      # OV_ECTL_COUPLING_SET(0) switched to the uncoupled template
    return True


def judge_enc(m, r, k):
    rc = k['rc'].split(',')
    out = 'rc%s/%s' % (rc[0], rc[2]) + ':reached=' + STAGE_NAME[int(k['reached'])]
    cls = ('enc', m['api'], 'ctl%d' % m['ctl'], STAGE_NAME[m['stage']] + str(m['nblk']), out, 'cl%d' % m['cl']) + (('headerout=' + m['ho'] + ':n=' + k.get('nho', '?'),) if 'ho' in m else ())
    lb, ln, mid = int(k['leakB']), int(k['leakN']), int(k['mid'])
    if lb or ln or mid:
        if is_51_template(m, k) and ln == 1 and lb == int(k['rsz']) and int(k['reached']) >= 2:
            key = 'enc_51_residue_param_overwritten_leak'
        elif 'ho' in m and int(k.get('nho', '0')) >= 2:
            # named predicate: vorbis_analysis_headerout was called more than once on the dsp state
            key = f"enc_leak_repeated_headerout:pattern={m['ho']}:calls={k['nho']}:blocks={ln}"
        else:
            key = f"enc_leak:api={m['api']}:ch={m['ch']}:rate={m['rate']}:ctl={m['ctl']}:stage={STAGE_NAME[m['stage']]}:sizes={k['live']}"
        return 'viol', key, f"encoder path {m['api']} ch={m['ch']} rate={m['rate']} arg={m['arg']} ctl={m['ctl']} stopped after {STAGE_NAME[m['stage']]} (n={m['nblk']}), clear calls twice: {lb} bytes in {ln} blocks still live (after first round {mid}); live block sizes {k['live']}; rc={k['rc']}", cls
    return 'ok', None, None, cls


# ------------------------------------------------------------------------------------------------ decoder space
def header_lens(path):
    pk = vlib.packets_of(vlib.parse_pages(open(path, 'rb').read()))
    return [len(p[0]) for p in pk[:3]]


def dec_streams(tier):
    S = [('s8', dict(rate=8000, ch=1, n=3000, q=0.3, sig='mix', serial=11, pages='natural', tag='a8')),
         ('s11', dict(rate=11025, ch=2, n=2500, q=0.2, sig='sine', serial=12, pages='natural', tag='b11')),
         ('s16u', dict(rate=16000, ch=3, n=2500, q=0.5, sig='noise', serial=13, pages='natural', tag='c16')),
         ('s44', dict(rate=44100, ch=2, n=6000, q=0.5, sig='mix', serial=14, pages='natural', tag='d44')),
         ('s51', dict(rate=44100, ch=6, n=6000, q=0.3, sig='mix', serial=15, pages='natural', tag='e51'))]
    out = []
    for name, kw in S:
        p, m = vlib.mkzoo('c13_' + name, **kw)
        out.append((name, p, header_lens(p)))
    return out


SYN_SEQ = {'short': [0], 'long': [1], 'short_long': [0, 1], 'long_short': [1, 0], 'long_long': [1, 1], 'short_short_long_long_short': [0, 0, 1, 1, 0]}


def synth_files():
    """Links written bit by bit from the specification (pylib/vspec, vsynth): floor type 0 (never produced by the encoder) and floor type 1
    set-ups with distinct short / long modes (64 / 128), mono and coupled stereo, whose audio packets are exactly a chosen block-size sequence.
    Returns list of (name, path, floortype, ch, seqname, npackets)."""
    import vspec, vsynth
    out = []
    for ft in (0, 1):
        for ch in (1, 2):
            s = vsynth.base_setup(channels=ch, bs0=64, bs1=128, rate=8000, floortype=ft, restype=(2 if ch == 2 else 1), coupling=[(0, 1)] if ch == 2 else [])
            seqs = dict(SYN_SEQ)
            if ch == 1:
                seqs['modes3'] = [0, 2, 1, 2]
            for sq, modes in seqs.items():
                if sq == 'modes3':
                    # a third mode (long) selecting the same mapping: 3 modes over 1 mapping
                    s = vsynth.base_setup(channels=ch, bs0=64, bs1=128, rate=8000, floortype=ft, restype=1, coupling=[])
                    s.modes = s.modes + [vspec.Mode(1, 0)]
                name = f'c13_syn_f{ft}_c{ch}_{sq}'
                fl = vsynth.flags_for(s, modes)
                f = vsynth.Filler(fixed={'f1.nonzero': 1, 'f0.amp': lambda c, d: 1 + (c if isinstance(c, int) else 0) % 4}, a=7, b=3)
                pk = [vsynth.make_packet(s, m, f, pv, nx) for m, (pv, nx) in zip(modes, fl)]
                grans, total, prev = [], 0, None
                for m in modes:
                    n = s.blocksize(s.modes[m].blockflag)
                    if prev is not None:
                        total += prev // 4 + n // 4
                    prev = n
                    grans.append(total)
                hs = vspec.headers(s, comments=[b'TITLE=' + name.encode()])

                def lace(b):
                    l, n = [], len(b)
                    while n >= 255:
                        l.append(255)
                        n -= 255
                    l.append(n)
                    return l
                serial = 700 + ft * 10 + ch
                pages = [vlib.Page(2, 0, serial, 0, lace(hs[0]), hs[0]), vlib.Page(0, 0, serial, 1, lace(hs[1]) + lace(hs[2]), hs[1] + hs[2])]
                pages += vlib.pages_from_packets(pk, serial, grans, 1, bos=False, eos=True, seq0=2)
                blob = b''.join(x.encode() for x in pages)
                path = vlib.write_file(name + '.ogg', blob)
                out.append((name, path, ft, ch, sq, len(pk), {'bytes': len(blob), 'links': [{'n': total, 'rate': 8000, 'bytes': len(blob)}]}))
    return out


def dec_synth_cases(syn):
    """packet-level decoder on the synthesised set-ups: headers, vorbis_synthesis_init + vorbis_block_init, then exactly
    {no packet, short only, long only, short+long, long+short, long+long, a longer mix} decoded before the clear calls."""
    cs = []
    for name, path, ft, ch, sq, npk, meta in syn:
        decs = [npk] + ([0, -1] if sq == 'short' else [])
        for dec in decs:
            for cl in (0, 1):
                cs.append((f'd {path} N {dec} {cl}', {'space': 'dec', 'flav': 'asan', 'sub': 'synth', 'stream': name, 'mut': 'N', 'dec': dec, 'cl': cl,
                                                      'syn': f'floor{ft}:ch{ch}:' + (sq if dec == npk else 'none')}))
    return cs


def dec_cases(tier, streams):
    cs = []

    def add(name, path, mut, dec, cl):
        cs.append((f'd {path} {mut} {dec} {cl}', {'space': 'dec', 'flav': 'asan', 'stream': name, 'mut': mut, 'dec': dec, 'cl': cl}))
    thorough = tier == 'thorough'
    for name, path, hl in streams:
        for dec in (-1, 0, 1, 3):
            for cl in (0, 1):
                add(name, path, 'N', dec, cl)
        # every byte prefix of every header (quick: the setup header only for the mono, stereo and 5.1 streams)
        for h in range(3):
            if h == 2 and not (thorough or name in ('s8', 's11', 's51')):
                continue
            for ln in range(hl[h] + 1):
                add(name, path, f'P{h}:{ln}', 1, 0)
        # every single-bit flip of the id and comment headers; of the whole setup header for the smallest stream (all streams in thorough)
        for h in range(3):
            if h == 2 and not (name == 's8' or thorough):
                continue
            for b in range(hl[h] * 8):
                add(name, path, f'F{h}:{b}', 3, 0)
        # headers in wrong orders: all sequences of length <= 3 over {id, comment, setup, audio}
        for L in (1, 2, 3):
            for seq in itertools.product('icsa', repeat=L):
                for cont in (0, 1):
                    add(name, path, 'O' + ''.join(seq) + f':{cont}', 1, cont)
    return cs


def judge_dec(m, r, k):
    mk = m['mut'][0] + (m['mut'][1] if m['mut'][0] in 'PF' else '')
    out = f"hr={k['hr']}:acc={k['acc']}:si={k['si']}:dn={'+' if int(k['dn']) > 0 else '0'}"
    cls = ('dec', mk, 'dec%d' % m['dec'], out, 'cl%d' % m['cl']) + ((m['syn'],) if 'syn' in m else ())
    lb, ln, mid = int(k['leakB']), int(k['leakN']), int(k['mid'])
    if lb or ln or mid:
        what = 'headers_accepted' if k['acc'] == '111' else 'header_refused'
        key = f"dec_leak:{what}:{mk}:hr={k['hr']}:si={k['si']}:sizes={k['live']}" + (f":synth={m['syn']}" if 'syn' in m else '')
        return 'viol', key, f"decoder path {m['stream']} {m['mut']} dec={m['dec']}: {lb} bytes in {ln} blocks live after the clear calls (after first round {mid}); {r[:300]}", cls
    return 'ok', None, None, cls


# ------------------------------------------------------------------------------------------------ vorbisfile space
def mkfiles(tier):
    F = {}
    l0 = vlib.mkzoo('c13_l0', rate=8000, ch=1, n=700, q=0.1, sig='mix', serial=31, pages='2', tag='l0')
    l1 = vlib.mkzoo('c13_l1', rate=11025, ch=2, n=600, q=0.1, sig='sine', serial=32, pages='flush', tag='l1')
    l2 = vlib.mkzoo('c13_l2', rate=8000, ch=1, n=100, q=0.1, sig='sine', serial=33, pages='natural', tag='l2')
    b0 = vlib.mkzoo('c13_b0', rate=44100, ch=2, n=80000, q=0.7, sig='noise', serial=41, pages='natural', tag='b0')
    b1 = vlib.mkzoo('c13_b1', rate=44100, ch=2, n=80000, q=0.7, sig='noise', serial=42, pages='natural', tag='b1')
    F['single'] = vlib.chain('c13_single', [l0])
    F['chain2'] = vlib.chain('c13_chain2', [l0, l1])
    F['chain3'] = vlib.chain('c13_chain3', [l0, l1, l2])
    F['big2'] = vlib.chain('c13_big2', [b0, b1])
    d0 = open(l0[0], 'rb').read()
    d1 = open(l1[0], 'rb').read()
    pg0 = vlib.parse_pages(d0)

    def fpage(serial, seq, flags, body, gran=0):
        lac = []
        n = len(body)
        while n >= 255:
            lac.append(255)
            n -= 255
        lac.append(n)
        return vlib.Page(flags, gran, serial, seq, lac, body).encode()
    nv = {}
    nv['empty'] = b''
    x = 424243
    rnd = bytearray()
    for i in range(5000):
        x = (x * 1103515245 + 12345) & 0xffffffff
        rnd.append((x >> 16) & 255)
    nv['random'] = bytes(rnd)
    nv['oggother'] = fpage(900, 0, 2, b'fishead\0' + bytes(56)) + fpage(900, 1, 0, bytes(range(200)), 10) + fpage(900, 2, 4, b'end', 20)
    # a foreign stream multiplexed in front of a Vorbis link: valid, must open
    nv['muxfirst'] = fpage(901, 0, 2, b'fishead\0' + bytes(56)) + pg0[0].encode() + fpage(901, 1, 0, b'x' * 300, 5) + b''.join(p.encode() for p in pg0[1:]) + fpage(901, 2, 4, b'end', 9)
    # the BOS page twice: duplicate serial number in the initial header set -> OV_EBADHEADER path that frees the serial list
    nv['bosdup'] = pg0[0].encode() + d0
    # two links with the same serial number
    nv['sameserial'] = d0 + d0
    # id header only (BOS page alone), and id + comment/setup page cut into two files
    nv['bosonly'] = pg0[0].encode()
    nv['vorbis_then_other'] = d0 + nv['oggother']
    nv['other_then_vorbis'] = nv['oggother'] + d1
    # two BOS pages with the SAME serial number inside one link's initial BOS group (rejected as an invalid stream by _fetch_headers):
    # at the start of the file (-> OV_EBADHEADER from the first open stage) and at the start of a later link of a chain
    # (-> failure of the bisection in the second stage of a seekable open); before and after the Vorbis BOS page, and three in a row
    junk = fpage(907, 0, 2, b'fishead\0' + bytes(56))
    junk_b = fpage(907, 0, 2, b'fisbone\0' + bytes(40))
    pg1 = vlib.parse_pages(d1)
    nv['dupbos_first'] = junk + junk + d0
    nv['dupbos_first_distinct_bodies'] = junk + junk_b + d0
    nv['dupbos_first_after_vorbis_bos'] = pg0[0].encode() + junk + junk + b''.join(p.encode() for p in pg0[1:])
    nv['dupbos_first_triple'] = junk + junk + junk + d0
    nv['dupbos_link2'] = d0 + junk + junk + d1
    nv['dupbos_link2_after_vorbis_bos'] = d0 + pg1[0].encode() + junk + junk + b''.join(p.encode() for p in pg1[1:])
    nv['dupbos_link2_only'] = d0 + junk + junk
    nv['dupbos_link3'] = d0 + d1 + junk + junk + open(l2[0], 'rb').read()
    # control: the same foreign BOS once (legal multiplex) in the same places
    nv['muxbos_link2'] = d0 + junk + d1 + fpage(907, 1, 4, b'end', 9)
    for name, data in nv.items():
        p = vlib.write_file('c13_nv_' + name + '.bin', data)
        F['nv_' + name] = (p, {'bytes': len(data), 'links': []})
    # synthesised floor-0 / floor-1 links (exact block-size sequences), also chained so that the decoder is torn down at a link boundary
    for name, path, ft, ch, sq, npk, meta in synth_files():
        F['syn_' + name[8:]] = (path, meta)
    for ft in (0, 1):
        a = open(F[f'syn_f{ft}_c1_long'][0], 'rb').read()
        b = open(F[f'syn_f{ft}_c1_long_long'][0], 'rb').read()
        pb = vlib.parse_pages(b)
        for q in pb:
            q.serial += 50
        b = b''.join(q.encode() for q in pb)
        p = vlib.write_file(f'c13_syn_f{ft}_chain_long_longlong.ogg', a + b + d0)
        F[f'syn_f{ft}_chain'] = (p, {'bytes': len(a + b + d0), 'links': []})
    # every page x 14 Ogg-level mutation operators (one deviation) on the 2-link and the 3-link chain
    for fname in ('chain2', 'chain3'):
        pages = vlib.parse_pages(open(F[fname][0], 'rb').read())
        serials = sorted(set(p.serial for p in pages))
        for i in range(len(pages)):
            for op in PAGE_OPS:
                data = page_mutation(pages, i, op, serials)
                if data is None:
                    continue
                p = vlib.write_file(f'c13_pm_{fname}_{i}_{op}.bin', data)
                F[f'pm_{fname}_{i}_{op}'] = (p, {'bytes': len(data), 'links': [], 'op': op})
    return F


PAGE_OPS = ['dup', 'swap', 'bos', 'eos', 'cont', 'serial', 'collide', 'crc', 'gran-1', 'gran0', 'granbig', 'cutbody', 'seq', 'version']


def page_mutation(pages, i, op, serials):
    pg = [p.copy() for p in pages]
    q = pg[i]
    raw = None
    if op == 'dup':
        pg.insert(i + 1, q.copy())
    elif op == 'swap':
        if i + 1 >= len(pg):
            return None
        pg[i], pg[i + 1] = pg[i + 1], pg[i]
    elif op == 'bos':
        q.flags ^= 2
    elif op == 'eos':
        q.flags ^= 4
    elif op == 'cont':
        q.flags ^= 1
    elif op == 'serial':
        q.serial += 1000
    elif op == 'collide':
        others = [s for s in serials if s != q.serial]
        if not others:
            return None
        q.serial = others[0]
    elif op == 'crc':
        raw = q.encode(fixcrc=False, crc=0x12345678)
    elif op == 'gran-1':
        q.gran = -1
    elif op == 'gran0':
        q.gran = 0
    elif op == 'granbig':
        q.gran = 1 << 62
    elif op == 'cutbody':
        keep, tot = [], 0
        for l in q.lacing:
            if tot + l > len(q.body) // 2:
                break
            keep.append(l)
            tot += l
        if not keep or len(keep) == len(q.lacing):
            return None
        q.lacing, q.body = keep, q.body[:tot]
    elif op == 'seq':
        q.seq += 1
    elif op == 'version':
        q.version = 1
    return b''.join((raw if (raw is not None and p is q) else p.encode()) for p in pg)


SEEKS = ['rs', 'ps', 'pp', 'ts', 'tp', 'rl', 'pl', 'ql', 'tl', 'ul']


def seek_targets(meta):
    """per seek family: boundary / in-range / out-of-range targets computed from the construction metadata."""
    links = meta['links']
    nb = meta['bytes']
    tot = sum(l['n'] for l in links)
    n0 = links[0]['n']
    b0 = links[0]['bytes']
    pcm = sorted(set([-1, 0, n0 // 2, n0, min(tot, n0 + 37), tot, tot + 1]))
    raw = sorted(set([-1, 0, b0 // 2, b0 - 30, b0, min(nb, b0 + 3000), nb, nb + 1]))
    dur = 0.0
    durs = []
    for l in links:
        durs.append(dur)
        dur += l['n'] / l['rate']
    tms = sorted(set([-1, 0, int(1000 * links[0]['n'] / links[0]['rate'] / 2), int(1000 * links[0]['n'] / links[0]['rate']) + 1, int(1000 * dur) - 1, int(1000 * dur) + 50, 100000]))
    return {'rs': raw, 'rl': raw, 'ps': pcm, 'pp': pcm, 'pl': pcm, 'ql': pcm, 'ts': tms, 'tp': tms, 'tl': tms, 'ul': tms}


def vf_case(path, edit, mode, api, dev, ops, info):
    d = {'space': 'vf', 'flav': 'asan', 'edit': edit, 'mode': mode, 'api': api, 'dev': dev, 'ops': ops}
    d.update(info)
    return (f'v {path} {edit} {mode} {api} {dev} {ops} 0', d)


def vf_static_cases(tier, F):
    cs = []
    thorough = tier == 'thorough'
    # clean files: open variants x 0/1 operation (reads, every seek kind at boundary / in-range / out-of-range targets), seek before and after a read
    for fname in ('single', 'chain2', 'chain3'):
        path, meta = F[fname]
        tg = seek_targets(meta)
        ops = ['-', 'r', 'R']
        for s in SEEKS:
            for t in tg[s]:
                ops += [f'{s}:{t}', f'{s}:{t}+r', f'r+{s}:{t}', f'r+{s}:{t}+R']
        for mode, api in (('s', 'o'), ('s', 't'), ('n', 'o'), ('n', 't')):
            for o in ops:
                if mode == 'n' and not thorough and '+' in o:
                    continue
                cs.append(vf_case(path, '-', mode, api, '-', o, {'file': fname, 'sub': 'ops'}))
        for mode in 'sn':
            cs.append(vf_case(path, '-', mode, 'T', '-', '-', {'file': fname, 'sub': 'ops'}))
    for mode, api in (('s', 'o'), ('s', 't'), ('n', 'o')):
        for o in ('-', 'r', 'R', 'r+ps:100000+r', 'r+rs:70000+r', 'ps:159999', 'pl:81000+r'):
            cs.append(vf_case(F['big2'][0], '-', mode, api, '-', o, {'file': 'big2', 'sub': 'ops'}))
    # every truncation length of the 2-link chain
    path, meta = F['chain2']
    n = meta['bytes']
    for ln in range(n + 1):
        cs.append(vf_case(path, f'T{ln}', 's', 'o', '-', 'R', {'file': 'chain2', 'sub': 'trunc'}))
        cs.append(vf_case(path, f'T{ln}', 'n', 'o', '-', 'R', {'file': 'chain2', 'sub': 'trunc'}))
        cs.append(vf_case(path, f'T{ln}', 's', 't', '-', '-', {'file': 'chain2', 'sub': 'trunc'}))
        if thorough:
            cs.append(vf_case(path, f'T{ln}', 's', 'T', '-', '-', {'file': 'chain2', 'sub': 'trunc'}))
            cs.append(vf_case(path, f'T{ln}', 'n', 't', '-', 'r', {'file': 'chain2', 'sub': 'trunc'}))
            cs.append(vf_case(path, f'T{ln}', 's', 'o', '-', 'r+ps:900+r', {'file': 'chain2', 'sub': 'trunc'}))
    if thorough:
        path3, meta3 = F['chain3']
        for ln in range(meta3['bytes'] + 1):
            cs.append(vf_case(path3, f'T{ln}', 's', 'o', '-', 'R', {'file': 'chain3', 'sub': 'trunc'}))
    # every single-page drop (and in thorough every pair of adjacent pages)
    for fname in ('chain2', 'chain3', 'single'):
        path, meta = F[fname]
        pages = vlib.parse_pages(open(path, 'rb').read())
        spans = [(p.offset, p.size()) for p in pages]
        if thorough:
            spans += [(pages[i].offset, pages[i].size() + pages[i + 1].size()) for i in range(len(pages) - 1)]
        for off, ln in spans:
            for mode, api in (('s', 'o'), ('s', 't'), ('n', 'o')):
                for o in ('-', 'R', 'r+ps:800+r'):
                    cs.append(vf_case(path, f'X{off},{ln}', mode, api, '-', o, {'file': fname, 'sub': 'pagedrop'}))
    # garbage prefixes (CHUNKSIZE = 65536 bounds the search for the first page)
    for fname in ('chain2', 'single'):
        for g in (1, 27, 100, 5000, 65000, 65536, 65537, 70000):
            for mode, api in (('s', 'o'), ('s', 't'), ('n', 'o'), ('s', 'T')):
                for o in ('-', 'R'):
                    cs.append(vf_case(F[fname][0], f'G{g}', mode, api, '-', o, {'file': fname, 'sub': 'garbage'}))
    # synthesised floor-0 / floor-1 links through vorbisfile: open, 0 / 1 read / read-through / a seek, ov_clear twice
    for fname in F:
        if fname.startswith('syn_'):
            for mode, api in (('s', 'o'), ('s', 't'), ('n', 'o')):
                for o in (('-', 'r', 'R', 'r+ps:0+r', 'ps:40+R') if mode == 's' else ('-', 'r', 'R')):
                    cs.append(vf_case(F[fname][0], '-', mode, api, '-', o, {'file': fname, 'sub': 'synth'}))
    # Ogg-level page mutations
    for fname in F:
        if fname.startswith('pm_'):
            for mode, api in (('s', 'o'), ('s', 't'), ('n', 'o')):
                for o in (('-', 'R', 'r+ps:800+r') if mode == 's' else ('-', 'R')):
                    cs.append(vf_case(F[fname][0], '-', mode, api, '-', o, {'file': fname, 'sub': 'pagemut'}))
    # non-Vorbis and odd physical streams
    for fname in F:
        if fname.startswith('nv_'):
            for mode, api in (('s', 'o'), ('s', 't'), ('n', 'o'), ('s', 'T'), ('n', 'T')):
                for o in ('-', 'R', 'r+ps:100+r'):
                    cs.append(vf_case(F[fname][0], '-', mode, api, '-', o, {'file': fname, 'sub': 'nonvorbis'}))
    return cs


def vf_scenarios(tier, F):
    """(file, mode, api, ops) scenarios whose every environment point gets every applicable fault."""
    sc = []
    for fname in ('chain2', 'single', 'chain3', 'big2'):
        path, meta = F[fname]
        tot = sum(l['n'] for l in meta['links'])
        n0 = meta['links'][0]['n']
        b0 = meta['links'][0]['bytes']
        p1 = min(tot - 1, n0 + 50)          # a sample in the second link (or late in the only link)
        r1 = min(meta['bytes'] - 1, b0 + 1000) if len(meta['links']) > 1 else b0 // 2
        t1 = int(1000 * (n0 / meta['links'][0]['rate'])) + 3 if len(meta['links']) > 1 else int(500 * n0 / meta['links'][0]['rate'])
        seekops = [f'r+ps:{p1}+r', f'r+rs:{r1}+r', f'r+pp:{p1}+r', f'r+ts:{t1}+r', f'r+tp:{t1}+r', f'r+pl:{p1}+r', f'r+rl:{r1}+r', f'r+ql:{p1}+r', f'r+tl:{t1}+r', f'r+ul:{t1}+r', f'ps:{p1}']
        if fname == 'big2' or (fname == 'chain3' and tier == 'quick'):
            seekops = seekops[:2]
        for mode, api in (('s', 'o'), ('s', 't'), ('n', 'o')):
            sc.append((fname, path, mode, api, '-'))
            if fname != 'big2':
                sc.append((fname, path, mode, api, 'R'))
            if mode == 's' and api == 'o':
                for o in seekops:
                    sc.append((fname, path, mode, api, o))
        if fname == 'chain2':
            sc.append((fname, path, 's', 'T', '-'))
    return sc


FAULTS = {'R': 'ZE', 'S': 'S', 'T': 'T'}


def fault_cases(scn, ev, e_open, open_survivors, first=0):
    """every applicable (index, kind, one-shot/persisting) single fault of a scenario whose fault-free event string is `ev`.
    Faults inside the open phase are enumerated for the open-only scenario; for scenarios with operations only those
    open-phase faults are repeated that the open survived (the open phase is deterministic, a failed or hung open never reaches the operation)."""
    fname, path, mode, api, ops = scn
    out = []
    for i, e in enumerate(ev):
        if i < first:
            continue
        for kd in FAULTS[e]:
            for persist in (0, 1):
                dev = f'{i}:{kd}:{persist}'
                if ops != '-' and i < e_open and open_survivors is not None and dev not in open_survivors:
                    continue
                out.append(vf_case(path, '-', mode, api, dev, ops, {'file': fname, 'sub': 'fault', 'phase': 'open' if i < e_open else 'op'}))
    return out


def judge_vf(m, r, k):
    opn = k['open']
    opsrc = k['ops']
    devk = '-'
    if m['dev'] != '-':
        parts = m['dev'].split(';')
        devk = '+'.join(p.split(':')[1] + ('p' if p.split(':')[2] == '1' else '1') for p in parts) + ('@' + m.get('phase', '?')) + ('!' if int(k['hits']) > 0 else '?')
    opk = re.sub(r':-?\d+', '', m['ops'])
    cls = ('vf', m['sub'], m['mode'] + m['api'], (m['file'].rsplit('_', 1)[1] if m['sub'] == 'pagemut' else m['file'] if m['sub'] == 'synth' else 'E') if m['edit'] == '-' else m['edit'][0], devk, 'open=' + opn, opk + '=' + opsrc)
    lb, ln, mid = int(k['leakB']), int(k['leakN']), int(k['mid'])
    what = f"file {m['file']} edit {m['edit']} mode {m['mode']} api {m['api']} faults {m['dev']} ops {m['ops']}"
    open_ok = k['ok'] == '1'
    if lb or ln or mid:
        stage = ('open_ok' if open_ok else 'open_failed')
        ev = k['ev'] if k['ev'] != '-' else ''
        second_stage = 'T' in ev[:int(k['E'].split('/')[0])]       # tell_func is only called by _open_seekable2
        if not open_ok and second_stage and int(k['ncsi']) == 0 and int(k['nlist']) == ln:
            # named predicate: seekable open failed while bisecting the links and only serial-number-list sized blocks stay behind
            key = 'vf_open_bisect_fetch_headers_failure_leaks_serialno_list'
        elif not open_ok and second_stage and int(k['ncsi']) >= 1:
            # named predicate: seekable open failed while bisecting and a complete codec_setup_info (a later link's headers) stays behind
            key = 'vf_open_bisect_recursion_failure_leaks_link_headers'
        else:
            key = f"vf_leak:{stage}:{m['mode']}{m['api']}:open={opn}:ops={opk}={opsrc}:fault={devk}:n={ln}:sizes={k['live']}" + (f":file={m['file']}" if m['sub'] == 'synth' else '')
        return 'viol', key, f"{what}: {lb} bytes in {ln} blocks live after ov_clear twice (after the first ov_clear {mid}); {r[:400]}", cls
    nc = [int(x) for x in k['nclose'].split(',')]
    want = 1 if open_ok else 0
    if nc[0] != 0 or nc[1] != want or nc[2] != want:
        key = f"close_callback_count:{'open_ok' if open_ok else 'open_failed'}:{m['mode']}{m['api']}:open={opn}:nclose={k['nclose']}"
        return 'viol', key, f"{what}: close callback count before/after first/after second ov_clear = {nc}, expected [0,{want},{want}]", cls
    return 'ok', None, None, cls


JUDGE = {'enc': judge_enc, 'dec': judge_dec, 'vf': judge_vf}
FREE_KINDS = ('attempting_double-free', 'attempting_free', 'alloc-dealloc-mismatch', 'glibc:heap_abort', 'bad-free', 'double-free')


class Run:
    def __init__(self, chk, tier):
        self.chk, self.tier = chk, tier
        self.classes = {}          # class signature -> count (balanced & peak>0)
        self.obs = {}              # observation key -> [count, sample]
        self.samples = {}
        self.stats = {'judged': 0, 'timeouts': 0, 'crashes_other_property': 0, 'peak_zero': 0, 'ovf': 0, 'rja': 0, 'open_failed_after_alloc': 0, 'open_failed_second_stage': 0,
                      'close_failed_open': 0, 'close_ok_open': 0, 'fault_hits': 0, 'fault_not_applied': 0, 'dec_accepted_then_init_failed': 0, 'seek_failed': 0}
        self.per_space = {}
        self.cut = False
        self.crash_violations = 0
        self.early_stop = False

    def observe(self, key, sample):
        o = self.obs.setdefault(key, [0, sample])
        o[0] += 1

    def execute(self, cases, timeout, tag):
        """runs (case text, meta) pairs, judges every one; returns list of (meta, result line, parsed)"""
        if not cases:
            return []
        out = [None] * len(cases)
        for flav in ('plain', 'asan'):
            idx = [i for i, c in enumerate(cases) if c[1]['flav'] == flav]
            if not idx:
                continue
            exe = vlib.harness(flav, HARNESS)
            CH_ = 6000
            for a in range(0, len(idx), CH_):
                if self.chk.deadline and time.time() > self.chk.deadline:
                    self.cut = True
                    break
                if self.crash_violations > 300:
                    # fail fast: the tree is plainly broken (hundreds of double frees / crashes in clear); every further case would
                    # only produce one more sanitizer report.  Reported as exhaustive:false.
                    self.cut = True
                    self.early_stop = True
                    break
                part = idx[a:a + CH_]
                res = vlib.run_cases(exe, [cases[i][0] for i in part], ['--timeout', str(timeout)], tag=tag)
                for i, r in zip(part, res):
                    out[i] = r
                    if r and r.startswith('DIED how='):
                        kq = kv(r)
                        if kq.get('stage') == 'clear' or any(x in r for x in FREE_KINDS):
                            self.crash_violations += 1
        ret = []
        for (c, m), r in zip(cases, out):
            if r is None:
                ret.append((m, '', None))      # not executed (deadline / early stop)
                continue
            k = self.judge(c, m, r)
            ret.append((m, r, k))
        return ret

    def judge(self, c, m, r):
        chk = self.chk
        chk.cov['evaluations'] += 1
        sp = self.per_space.setdefault(m['space'] + ':' + m.get('sub', m['flav']), [0, 0])
        sp[0] += 1
        replay = {'case': c, 'flavour': m['flav']}
        if r.startswith('TIMEOUT'):
            self.stats['timeouts'] += 1
            kq = kv(r)
            if m['space'] == 'vf':
                key = f"timeout:vf:{m['mode']}{m['api']}:stage={kq.get('stage')}:fault={'+'.join(p.split(':')[1] + ('p' if p.endswith(':1') else '1') for p in m['dev'].split(';')) if m['dev'] != '-' else '-'}:{m['sub']}"
            elif m['space'] == 'dec':
                key = f"timeout:dec:{m['mut'][:2]}:stage={kq.get('stage')}"
            else:
                key = f"timeout:enc:stage={kq.get('stage')}"
            self.observe(key, c)
            return None
        if r.startswith('DIED rc=') or r.startswith('BADCASE') or r.startswith('NOOUTPUT'):
            # the executor itself failed (missing input file, malformed case): a broken check, never a verdict
            self.exec_fail = getattr(self, 'exec_fail', 0) + 1
            if self.exec_fail <= 3:
                chk.guard(False, f'executor failure on case "{c}": {r[:200]}')
            return None
        if not r.startswith('ok'):
            kq = kv(r)
            rep = r.split('report=', 1)[1] if 'report=' in r else r[:200]
            kind = rep.split(' ')[0]
            top = (kv(rep).get('top') or '').split(',')
            libtop = [f for f in top if f and not f.startswith('__') and f not in ('thread', 'free', 'malloc', 'calloc', 'realloc', 'main', 'run_enc', 'run_dec', 'run_vf') and not f.startswith('wa_')]
            is_free = any(x in kind for x in FREE_KINDS)
            if is_free or kq.get('stage') == 'clear':
                # a double / invalid free anywhere, or any crash inside the (repeated) clear calls
                what = 'double_or_invalid_free' if is_free else 'crash_in_clear_calls'
                key = f"{what}:{m['space']}:{kind}:{kq.get('how')}:stage={kq.get('stage')}:in={libtop[0] if libtop else '?'}"
                chk.violation(key, f"{c}: {r[:600]}", replay)
            else:
                self.stats['crashes_other_property'] += 1
                self.observe(f"crash:{m['space']}:{kind}:stage={kq.get('stage')}:in={libtop[0] if libtop else '?'}", c)
            return None
        k = kv(r)
        self.stats['judged'] += 1
        sp[1] += 1
        if k.get('ovf') != '0':
            self.stats['ovf'] += 1
        verdict, key, desc, cls = JUDGE[m['space']](m, r, k)
        peak = int(k.get('peak', k.get('calls', '0')))
        if m['space'] == 'dec':
            peak = int(k['calls'])      # vorbis_info_init allocates; calls counts allocation calls of the path
        if peak <= 0:
            self.stats['peak_zero'] += 1
        if verdict == 'viol':
            chk.violation(key, desc, replay)
            if os.environ.get('C13_DUMP'):
                open(os.environ['C13_DUMP'], 'a').write(json.dumps({'key': key, 'case': c, 'res': r}) + '\n')
        else:
            if peak > 0:
                self.classes[cls] = self.classes.get(cls, 0) + 1
                if cls not in self.samples:
                    self.samples[cls] = {'case': c, 'result': r[:260]}
        # coverage facts for the vacuity guards
        if m['space'] == 'enc' and 'ho' in m and verdict == 'ok':
            n = int(k.get('nho', '0'))
            if n >= 2:
                self.stats['headerout_repeated'] = self.stats.get('headerout_repeated', 0) + 1
            if n >= 3:
                self.stats['headerout_3x'] = self.stats.get('headerout_3x', 0) + 1
            if n >= 2 and 'a' in m['ho'] and int(k['packets']) > 0:
                self.stats['headerout_after_audio'] = self.stats.get('headerout_after_audio', 0) + 1
        if m['space'] == 'dec':
            if k.get('rja') == '1':
                self.stats['rja'] += 1
            if k['acc'] == '111' and k['si'] not in ('0', '-999'):
                self.stats['dec_accepted_then_init_failed'] += 1
        if m['space'] == 'vf':
            okk = k['ok'] == '1'
            if not okk and int(k['peakopen']) > 0:
                self.stats['open_failed_after_alloc'] += 1
            if not okk and m['api'] == 't' and k['open'].split(',')[0] == '0':
                self.stats['open_failed_second_stage'] += 1
            if verdict == 'ok':
                self.stats['close_ok_open' if okk else 'close_failed_open'] += 1
            if m['dev'] != '-':
                self.stats['fault_hits' if int(k['hits']) > 0 else 'fault_not_applied'] += 1
            if any(x.startswith('-') for x in k['ops'].split(',') if x not in ('-',)):
                self.stats['seek_failed'] += 1
        return k


def run(tier):
    chk = vlib.Check(PID, tier, 'fault_enumeration')
    t0 = time.time()
    if tier == 'thorough':
        chk.deadline = t0 + float(os.environ.get('C13_DEADLINE_MIN', '21')) * 60      # internal deadline: the run ends with exhaustive:false
    vlib.build('plain', 'asan')
    vlib.harness('plain', HARNESS)
    vlib.harness('asan', HARNESS)
    R = Run(chk, tier)
    only = os.environ.get('C13_ONLY', 'enc,dec,vf').split(',')
    times = {}
    vf_to = 0.4 if tier == 'quick' else 2.0

    # ---------------- encoder
    if 'enc' in only:
        t = time.time()
        R.execute(enc_cases(tier), 60, 'c13n')
        times['enc'] = round(time.time() - t, 1)

    # ---------------- vorbisfile (static cases, then the two-pass fault enumeration)
    if 'vf' in only:
        t = time.time()
        F = mkfiles(tier)
        R.execute(vf_static_cases(tier, F), 3.0, 'c13vf')
        scn = vf_scenarios(tier, F)
        base = R.execute([vf_case(p, '-', mode, api, '-', ops, {'file': fn, 'sub': 'fault_base'}) for fn, p, mode, api, ops in scn], 10, 'c13vb')
        basemap = {}
        for s, (m, r, k) in zip(scn, base):
            if k is None:
                if r:
                    chk.guard(False, f'fault-free baseline of scenario {s} did not complete: {r[:100]}')
                continue
            basemap[s] = (k['ev'] if k['ev'] != '-' else '', int(k['E'].split('/')[0]))
        # pass A: open-only scenarios; learn which open-phase faults the open survives
        survivors = {}
        passA = []
        for s in scn:
            if s[4] == '-' and s in basemap:
                passA += [(s, c) for c in fault_cases(s, basemap[s][0], basemap[s][1], None)]
        resA = R.execute([c for s, c in passA], vf_to, 'c13va')
        for (s, c), (m, r, k) in zip(passA, resA):
            if k is not None and k['ok'] == '1':
                survivors.setdefault((s[0], s[2], s[3]), set()).add(m['dev'])
        # pass B: scenarios with operations
        passB = []
        for s in scn:
            if s[4] != '-' and s in basemap:
                passB += fault_cases(s, basemap[s][0], basemap[s][1], survivors.get((s[0], s[2], s[3]), set()))
        resB = R.execute(passB, vf_to, 'c13vc')
        # bound 2 (thorough): every pair of one-shot faults on the 2-link chain, open-only and one seek scenario; the second index ranges over the
        # event string observed under the first fault
        if tier == 'thorough':
            pairs = []
            allres = list(zip([c for s, c in passA], resA)) + list(zip(passB, resB))
            for (c, m0), (m, r, k) in allres:
                if k is None or m['file'] != 'chain2' or m['mode'] != 's' or m['api'] != 'o' or not m['dev'].endswith(':0'):
                    continue
                if not (m['ops'] == '-' or m['ops'].startswith('r+ps:')):
                    continue
                i0 = int(m['dev'].split(':')[0])
                ev = k['ev'] if k['ev'] != '-' else ''
                for j in range(i0 + 1, len(ev)):
                    for kd in FAULTS[ev[j]]:
                        pairs.append(vf_case(c.split()[1], '-', 's', 'o', f"{m['dev']};{j}:{kd}:0", m['ops'], {'file': 'chain2', 'sub': 'fault2', 'phase': 'pair'}))
            R.execute(pairs, vf_to, 'c13vd')
        times['vf'] = round(time.time() - t, 1)

    # ---------------- packet-level decoder
    if 'dec' in only:
        t = time.time()
        streams = dec_streams(tier)
        syn = synth_files()
        rs = R.execute(dec_synth_cases(syn), 8, 'c13s')
        R.stats['synth_dec_decoded'] = sum(1 for m, r, k in rs if k is not None and int(k['dn']) > 0 and int(k['dn']) == m['dec'])
        R.stats['synth_dec_floor0_long_only'] = sum(1 for m, r, k in rs if k is not None and m['syn'].startswith('floor0') and m['syn'].endswith(':long') and int(k['dn']) == 1)
        res = R.execute(dec_cases(tier, streams), 3 if tier == 'quick' else 8, 'c13d')
        # second pass: flipped headers that all three were accepted -> also stop before / right after synthesis_init
        again = []
        pmap = {n: p for n, p, hl in streams}
        for m, r, k in res:
            if k is not None and m['mut'][0] == 'F' and k['acc'] == '111':
                if tier == 'quick' and k['si'] != '0' and int(m['mut'].split(':')[1]) % 4:
                    continue        # quick: of the flips that fail synthesis_init only every 4th bit position gets the extra stop-before-init path
                for dec, cl in (((-1, 1), (0, 1)) if (tier == 'thorough' or k['si'] == '0') else ((-1, 1),)):
                    again.append((f"d {pmap[m['stream']]} {m['mut']} {dec} {cl}", {'space': 'dec', 'flav': 'asan', 'stream': m['stream'], 'mut': m['mut'], 'dec': dec, 'cl': cl}))
        R.execute(again, 3 if tier == 'quick' else 8, 'c13e')
        times['dec'] = round(time.time() - t, 1)

    # ---------------- evidence
    cls = R.classes
    kinds = {}
    for c in cls:
        kinds[c[0]] = kinds.get(c[0], 0) + 1
    obs = {k: {'count': v[0], 'sample': v[1]} for k, v in sorted(R.obs.items())}
    samples = []
    for sp in ('enc', 'dec', 'vf'):
        ss = [v for c, v in sorted(R.samples.items(), key=lambda x: str(x[0])) if c[0] == sp]
        samples += ss[::max(1, len(ss) // 4)][:4]
    chk.cov.update({
        'distinct_nontrivial': len(cls),
        'classes_per_path_kind': kinds,
        'per_space_executed_judged': {k: v for k, v in sorted(R.per_space.items())},
        'stats': R.stats,
        'observations_for_other_properties': obs,
        'space_wall_s': times,
        'exhaustive': not R.cut,
        'stopped_early_after_many_crash_violations': R.early_stop,
        'samples': samples,
        'rule': 'case = one usage path on the real library ending in the documented clear calls issued twice, run in a forked child with the wrapped allocator switched on before the first library call '
                '(harness buffers from __real_malloc). (enc) channels x rates (one inside every template band + band edges) x quality steps, VBR one-step / two-step (+ every state-changing encoder ctl) and '
                'managed one-step / two-step, rejected tuples, stopped after each of setup / ctl / setup_init / analysis_init / headerout (also called 2 and 3 times with the same / a changed / a second comment struct, before and after encoded audio) / block_init / 0,1,5 analysed blocks / drained end of stream; '
                '(dec) for several encoder-made streams every byte prefix of each header, every single-bit flip of id+comment headers and of the whole setup header (smallest stream; all in thorough), all header/audio sequences of length <=3, '
                'then synthesis_init + block_init + 0/1/3 packets when accepted; plus specification-level synthesised floor-0 and floor-1 set-ups (mono / coupled stereo, distinct 64/128 blocks) decoding exactly {no packet, short, long, short+long, long+short, long+long, a longer mix} before the clear calls (the same files and a chain of them also through vorbisfile); (vf) every truncation length and single-page drop of a 2-link chain, garbage prefixes, non-Vorbis streams, duplicate-serial BOS pages in the initial BOS group of the first / a later link, seekable / streaming, '
                'ov_open_callbacks / ov_test_callbacks(+ov_test_open), 0/1 operations (reads, every seek kind at in-range / boundary / out-of-range targets), and every applicable single callback fault '
                '(zero read, read error, seek failure, tell failure; one-shot and persisting) at every environment point of open, read-through and of one seek per seek kind (pairs of one-shot faults in thorough). '
                'oracle: live bytes and blocks == 0 after the clear calls (also after the first round), no double/invalid free (ASan for dec/vf and the < 40 kHz encoder grid, glibc heap checks elsewhere), '
                'close callback count == [0, open_ok, open_ok]. distinct_nontrivial = number of distinct (path kind, API/variant, stage, outcome codes, fault kind/phase) classes that ended balanced AND allocated > 0 bytes',
    })
    chk.assumptions += [
        'clear functions are only called on objects whose init function was called (structs zeroed by the harness first); after a failed one-step set-up or a failed open the clear calls are still issued (documented as harmless)',
        'allocation-failure injection (wa_fail_at) is not used as an oracle: the library does not check malloc results everywhere and the property does not promise it',
        'after ov_test_callbacks succeeded and ov_test_open failed the library detaches the source without closing it; the close rule is judged with open_ok = final open succeeded',
        'feeding further header packets after a refusal (wrong-order sequences, cont=1) is treated as a legal use',
        'the encoder grid runs on the plain flavour: the full encoder grid runs on the plain flavour (double frees witnessed by glibc heap checks), a one-rate-per-band sub-grid is repeated under ASan',
        'timeouts (e.g. persisting zero-read during open, C12) and crashes that are not double/invalid frees are recorded as observations for C02/C03/C12/C15, not judged here',
        'LSan is not used as a second witness (ASAN_OPTIONS detect_leaks=0 is fixed in vlib)',
    ]
    st = R.stats
    cut = R.cut
    chk.guard(st['peak_zero'] == 0, 'every judged case allocated > 0 bytes between baseline and clear')
    chk.guard(st['ovf'] == 0, 'allocator table never overflowed')
    if 'dec' in only:
        chk.guard(cut or st['rja'] > 0, 'some header was refused half-way after it had allocated')
        chk.guard(cut or st['dec_accepted_then_init_failed'] > 0 or tier == 'quick' and st['rja'] > 0, 'some corrupted setup header was accepted and then failed / passed vorbis_synthesis_init')
        chk.guard(cut or kinds.get('dec', 0) >= 10, 'decoder classes')
        chk.guard(cut or st.get('synth_dec_floor0_long_only', 0) >= 4, 'a floor-0 decoder that decoded only a long block was cleared (every synthesised packet of that scenario was accepted by vorbis_synthesis)')
        chk.guard(cut or st.get('synth_dec_decoded', 0) >= 40, 'the synthesised floor-0 / floor-1 packets were decoded, not rejected')
    if 'vf' in only:
        chk.guard(cut or st['open_failed_after_alloc'] > 0, 'some open failed after allocating')
        chk.guard(cut or st['open_failed_second_stage'] > 0, 'some ov_test_open failed after ov_test_callbacks had succeeded')
        chk.guard(cut or st['close_failed_open'] > 0 and st['close_ok_open'] > 0, 'close-count rule exercised for failed and for successful opens')
        chk.guard(cut or st['fault_hits'] > 0, 'callback faults were actually applied')
        chk.guard(cut or st['seek_failed'] > 0, 'some seek / read failed on an open handle')
        chk.guard(cut or kinds.get('vf', 0) >= 20, 'vorbisfile classes')
    if 'enc' in only:
        chk.guard(cut or kinds.get('enc', 0) >= 20, 'encoder classes')
        chk.guard(cut or (st.get('headerout_repeated', 0) >= 100 and st.get('headerout_3x', 0) >= 20 and st.get('headerout_after_audio', 0) >= 20), 'vorbis_analysis_headerout was repeated (2x, 3x, and again after encoded audio) on set-ups that reached it, for mono / stereo / 5.1, VBR and managed')
        chk.guard(cut or any(c[0] == 'enc' and 'rc-13' in c[4] for c in cls), 'rejected encoder set-ups were exercised')
    return chk.finish()


def replay(path):
    r = json.load(open(path))
    rp = r['replay']
    vlib.build('plain', rp['flavour'])
    exe = vlib.harness(rp['flavour'], HARNESS)
    # regenerate the (deterministic) input files the case line refers to
    if rp['case'].startswith('v '):
        mkfiles('quick')
    elif rp['case'].startswith('d '):
        dec_streams('quick')
        synth_files()
    case = rp['case']
    tk = case.split(' ')
    if tk[0] in ('v', 'd'):
        tk[1] = os.path.join(vlib.zoo_dir(), os.path.basename(tk[1]))     # the file as regenerated in the current build directory
        case = ' '.join(tk)
    out = vlib.run_cases(exe, [case], ['--timeout', '20'], jobs=1, tag='c13r')[0] or 'NOOUTPUT'
    print(case)
    print(out)
    if not out.startswith('ok'):
        return 1
    k = kv(out)
    bad = int(k['leakB']) or int(k['leakN']) or int(k['mid'])
    if 'nclose' in k:
        nc = [int(x) for x in k['nclose'].split(',')]
        want = 1 if k['ok'] == '1' else 0
        bad = bad or nc != [0, want, want]
    print('expected: leakB=0 leakN=0 mid=0' + (' nclose=0,ok,ok' if 'nclose' in k else ''), '->', 'STILL FAILS' if bad else 'passes now')
    return 1 if bad else 0
