"""C01: decoder output conforms to the Vorbis I specification.
Bounded-exhaustive enumeration of spec-valid setups x packet sequences written by an independent synthesiser (pylib/vspec.py),
each decoded by the real library (packet API) and by the specification-level reference decoder; sample counts exact, samples within
a data-scaled single-precision error budget."""
import sys, os, time, json, itertools, multiprocessing as mp
import vlib

PID = 'C01'
BS = [64, 128, 256, 512, 1024, 2048, 4096, 8192]


def _imp():
    global np, vspec, vsynth
    import numpy as np
    import vspec, vsynth


# ----------------------------------------------------------------- generators
# every generator yields (tag, Stream or thunk); tags are tuples naming the enumerated coordinates.
# Sharding: each worker walks the whole (cheap) coordinate enumeration and calls mine() once per case; only its own cases are built.
_SH = {'i': 0, 'wid': 0, 'nw': 1}


def mine():
    i = _SH['i']
    _SH['i'] = i + 1
    return i % _SH['nw'] == _SH['wid']


def fill_used(**kw):
    fx = {'f1.nonzero': 1, 'f0.amp': lambda c, d: 1 + (sum(c[2:]) if isinstance(c, tuple) else c) % 5}
    fx.update(kw)
    return fx


def pk_seq(s, modes, filler):
    fl = vsynth.flags_for(s, modes)
    return [vsynth.make_packet(s, m, filler, pv, nx) for m, (pv, nx) in zip(modes, fl)]


def suite_windows(tier):
    """all 36 block-size pairs x all mode sequences up to length L over {short,long} x fillings; a third mode whose number differs from its blockflag"""
    L = 4 if tier == 'quick' else 5
    for i, b0 in enumerate(BS):
        for b1 in BS[i:]:
            for ln in range(1, L + 1):
                for seq in itertools.product((0, 1, 2), repeat=ln) if ln <= 2 else itertools.product((0, 1), repeat=ln):
                    for fa in ((7, 3), (5, 1)) if (tier == 'thorough' or ln <= 3) else ((7, 3),):
                        if not mine():
                            continue
                        yield ('win', b0, b1, seq, fa), (lambda b0=b0, b1=b1, seq=seq, fa=fa: build_win(b0, b1, seq, fa))


def build_win(b0, b1, seq, fa):
    s = vsynth.base_setup(channels=1, bs0=b0, bs1=b1)
    s.modes = s.modes + [vspec.Mode(1, 0)] if 2 in seq else s.modes          # mode 2: long, reached by a number != flag
    f = vsynth.Filler(fixed=fill_used(), a=fa[0], b=fa[1])
    return vsynth.Stream(s, pk_seq(s, list(seq), f))


def prefix_codes(maxn=5, maxlen=4):
    """every complete prefix-code length assignment with <= maxn entries and lengths <= maxlen, in every entry order"""
    out = []
    def rec(lens, kraft):
        if kraft == (1 << maxlen):
            out.append(tuple(lens))
            return
        if len(lens) >= maxn:
            return
        start = lens[-1] if lens else 1
        for l in range(start, maxlen + 1):
            if kraft + (1 << (maxlen - l)) <= (1 << maxlen):
                rec(lens + [l], kraft + (1 << (maxlen - l)))
    rec([], 0)
    res = set()
    for ms in out:
        for p in set(itertools.permutations(ms)):
            res.add(p)
    return sorted(res, key=lambda p: (len(p), p))


def suite_codebooks(tier):
    """each length assignment (plus sparse variants, ordered variant, single-entry) x lookup {1,2} x dim x (value_bits, sequence_p, min, delta);
    every used entry is decoded through a residue-1 partition so that its vector reaches the output"""
    codes = prefix_codes()
    variants = []
    for c in codes:
        variants.append((c, None))
        if list(c) == sorted(c):
            variants.append((c, 'ordered'))
        # sparse: one unused entry inserted at each position (two at the ends in thorough)
        for pos in range(len(c) + 1):
            variants.append((c[:pos] + (0,) + c[pos:], None))
        if tier == 'thorough':
            for p1 in range(len(c) + 1):
                for p2 in range(p1, len(c) + 1):
                    v = list(c)
                    v.insert(p2, 0)
                    v.insert(p1, 0)
                    variants.append((tuple(v), None))
    variants.append(((1,), None))                 # single-entry book, fully populated
    variants.append(((0, 1, 0), None))            # single used entry in a sparse book
    params = [(1, 0, -1.0, 1.0), (2, 1, 0.5, 0.25), (5, 0, -8.0, 0.5), (16, 1, -1024.0, 0.03125)]
    dims = (1, 2, 3) if tier == 'quick' else (1, 2, 3, 4, 8)
    for lens, flag in variants:
        entries = len(lens)
        for lookup in (1, 2):
            for dim in dims:
                for (vb, sq, mn, dl) in (params if tier == 'thorough' else params[:2] + params[3:]):
                    if not mine():
                        continue
                    yield ('book', lens, flag, lookup, dim, vb, sq), (lambda a=(lens, flag, lookup, dim, vb, sq, mn, dl): build_book(*a))
    # books WITH a value table used in scalar context (residue classification book, floor-1 master and Y books): the entry NUMBER is the result,
    # whatever the order of the codeword lengths (the decoder's sorted-codeword tables must map back to entry numbers)
    for lens in codes:
        if len(lens) < 2:
            continue
        for lookup in (1, 2):
            for where in ('class', 'f1y') + (('f1master',) if len(lens) == 4 else ()):
                if not mine():
                    continue
                yield ('scalar', where, lens, lookup), (lambda a=(lens, lookup, where): build_scalar(*a))
    # lattice (lookup 1) books whose entry count is an exact power v**dim, and its neighbours: the number of values per dimension is floor(entries**(1/dim)),
    # which a floating-point estimate gets wrong by one unless it is corrected both ways
    for dim, vs in ((3, (2, 3, 4, 5, 6, 7, 10)), (5, (2, 3)), (6, (2, 3)), (7, (2,)), (9, (2,)), (4, (3, 5)), (2, (15, 31))):
        for v in vs:
            for entries in (v ** dim - 1, v ** dim, v ** dim + 1):
                if entries < 2 or entries > 1100:
                    continue
                if mine():
                    yield ('lattice_pow', dim, v, entries), (lambda a=(dim, entries): build_lattice(*a))
    # long codewords: a 32-bit deep tree, a 300-entry book (first-table + search path of the library's decoder), a 2-entry 1-bit book
    for name, lens in (('deep32', list(range(1, 32)) + [32, 32]), ('n300', vsynth.complete_lengths(300)), ('n1000', vsynth.complete_lengths(1000))):
        if mine():
            yield ('book', name), (lambda lens=lens: build_bigbook(lens))


def build_book(lens, flag, lookup, dim, vb, sq, mn, dl):
    entries = len(lens)
    nm = vspec.lookup1_values(entries, dim) if lookup == 1 else entries * dim
    mults = [((k * 5 + 1) * (k + 3)) % (1 << vb) for k in range(nm)]
    bk = vspec.Codebook(dim, list(lens), lookup, minv=vsynth.fpack(mn), delta=vsynth.fpack(dl), value_bits=vb, sequence_p=sq, mults=mults,
                        ordered=1 if flag == 'ordered' else 0)
    s = vsynth.base_setup(channels=1, bs0=64, bs1=128, restype=1, psize=dim * 2, vqdim=dim)
    s.books[2] = bk
    f = vsynth.Filler(fixed=fill_used(**{'res.class': 1}))
    return vsynth.Stream(s, pk_seq(s, [0, 1, 0], f))


def build_scalar(lens, lookup, where):
    entries = len(lens)
    nm = vspec.lookup1_values(entries, 1) if lookup == 1 else entries
    tb = vspec.Codebook(1, list(lens), lookup, minv=vsynth.fpack(-3.0), delta=vsynth.fpack(0.5), value_bits=4, sequence_p=0, mults=[(k * 5 + 1) % 16 for k in range(nm)])
    s = vsynth.base_setup(channels=1, bs0=64, bs1=128, restype=1, psize=4, vqdim=2)
    cnt = itertools.count()
    walk = lambda c, d: [e for e, l in enumerate(d.lengths) if l > 0][next(cnt) % sum(1 for l in d.lengths if l > 0)]
    if where == 'class':
        # one class per entry, each class with its own value book so that a permuted class number changes the output
        s.books[0] = tb
        first = len(s.books)
        for k in range(entries):
            s.books.append(vsynth.lattice_book(2, 3, minv=-(k + 1), delta=(k + 1)))
        r = s.residues[0]
        s.residues[0] = vspec.Residue(1, 0, r.end, 4, entries, 0, [1] * entries, [[first + k] + [-1] * 7 for k in range(entries)])
        f = vsynth.Filler(fixed=fill_used(**{'res.class': walk}))
    else:
        fl = s.floors[0]
        nb = len(s.books)
        s.books.append(tb)
        if where == 'f1y':
            s.floors[0] = vspec.Floor1([0], [4], [0], [0], [[nb]], fl.mult, fl.rangebits, list(fl.xs)[:4])
            f = vsynth.Filler(fixed=fill_used(**{'f1.yv': walk}))
        else:
            # master book with 4 entries selects between two Y books per dimension (1 subclass bit, 2 dimensions)
            s.books.append(vsynth.flat_book(4, 1, 0))
            s.floors[0] = vspec.Floor1([0, 0], [2], [1], [nb], [[1, nb + 1]], fl.mult, fl.rangebits, list(fl.xs)[:4])
            f = vsynth.Filler(fixed=fill_used(**{'f1.master': walk}))
    return vsynth.Stream(s, pk_seq(s, [0, 1, 0, 1], f))


def build_lattice(dim, entries):
    nm = vspec.lookup1_values(entries, dim)
    bk = vspec.Codebook(dim, vsynth.complete_lengths(entries), 1, minv=vsynth.fpack(-2.0), delta=vsynth.fpack(0.25), value_bits=5, sequence_p=0, mults=[(k * 3 + 1) % 32 for k in range(nm)])
    s = vsynth.base_setup(channels=1, bs0=64, bs1=128, restype=1, psize=dim * 2 if (dim * 2) <= 32 and 32 % (dim * 2) == 0 else dim, vqdim=dim)
    s.books[2] = bk
    r = s.residues[0]
    # the residue covers a multiple of the partition size inside the short block
    s.residues[0] = vspec.Residue(1, 0, (32 // r.psize) * r.psize, r.psize, 2, 0, [0, 1], [[-1] * 8, [2] + [-1] * 7])
    cnt = itertools.count()
    f = vsynth.Filler(fixed=fill_used(**{'res.class': 1, 'res.vq': lambda c, d: (next(cnt) * 7) % len(d.lengths)}))
    return vsynth.Stream(s, pk_seq(s, [0, 1, 0], f))


def build_bigbook(lens):
    entries = len(lens)
    bk = vspec.Codebook(1, lens, 2, minv=vsynth.fpack(-4.0), delta=vsynth.fpack(0.125), value_bits=6, sequence_p=0, mults=[(k * 7) % 64 for k in range(entries)])
    s = vsynth.base_setup(channels=1, bs0=256, bs1=1024, restype=1, psize=1, vqdim=1)
    s.books[2] = bk
    cnt = itertools.count()      # walk through ALL entries in order
    f = vsynth.Filler(fixed=fill_used(**{'res.class': 1, 'res.vq': lambda c, d: next(cnt) % len(d.lengths)}))
    return vsynth.Stream(s, pk_seq(s, [1, 1, 1], f))


def suite_floor1(tier):
    bookY = lambda: vsynth.flat_book(256, 1, 0)
    xsets = {5: [[3, 10, 20, 31], [31, 20, 10, 3], [16, 1, 30, 8]], 7: [[9, 100, 50, 127], [127, 1, 64, 2]], 10: [[1023, 5, 512, 100]]}
    for mult in (1, 2, 3, 4):
        rng = vspec.RANGE[mult - 1]
        for rb, xss in xsets.items():
            for xs in xss:
                for layout in ('p0', 'p1x4', 'p2x2', 'p4x1', 'sub1', 'sub2', 'sub3neg'):
                    if layout == 'p0':
                        fl = vspec.Floor1([], [], [], [], [], mult, rb, [])
                    elif layout == 'p1x4':
                        fl = vspec.Floor1([0], [4], [0], [0], [[1]], mult, rb, xs)
                    elif layout == 'p2x2':
                        fl = vspec.Floor1([0, 1], [2, 2], [0, 0], [0, 0], [[1], [1]], mult, rb, xs)
                    elif layout == 'p4x1':
                        fl = vspec.Floor1([1, 0, 1, 0], [1, 1], [0, 0], [0, 0], [[1], [1]], mult, rb, xs)
                    elif layout == 'sub1':
                        fl = vspec.Floor1([0], [4], [1], [4], [[1, 1]], mult, rb, xs)
                    elif layout == 'sub2':
                        fl = vspec.Floor1([0, 0], [2], [2], [5], [[1, 1, 1, 1]], mult, rb, xs)
                    else:
                        fl = vspec.Floor1([0], [4], [3], [6], [[1, -1, 1, -1, 1, 1, -1, 1]], mult, rb, xs)
                    nposts = 2 + len(fl.xs)
                    yvals = [0, 1, rng // 2, rng - 1]
                    # all Y vectors over yvals for <= 4 posts (the two end posts + first two coded posts), remaining posts cycle
                    k = min(4, nposts)
                    for ys in itertools.product(yvals, repeat=k) if (tier == 'thorough' or mult == 2) else itertools.product(yvals[1:], repeat=k):
                        for (b0, b1) in ((64, 256),) if tier == 'quick' else ((64, 256), (2048, 2048)):
                            if not mine():
                                continue
                            s = vsynth.base_setup(channels=1, bs0=b0, bs1=b1)
                            s.books[1] = bookY()
                            s.books += [vsynth.flat_book(2, 1, 0), vsynth.flat_book(4, 1, 0), vsynth.flat_book(8, 1, 0)]    # master books 4,5,6
                            s.floors = [fl]
                            yy = list(ys)

                            def ychoose(ctx, dom, yy=yy, rng=rng):
                                i = ctx[-1] if ctx[0] != 'lim' else ctx[3]
                                return yy[i] if i < len(yy) else (i * 7) % min(rng, 8)
                            f = vsynth.Filler(fixed=fill_used(**{'f1.y': ychoose, 'f1.yv': ychoose}))
                            yield ('f1', mult, rb, tuple(xs), layout, ys, b0), vsynth.Stream(s, pk_seq(s, [0, 1, 0], f))


def suite_floor0(tier):
    for order in (1, 2, 3, 4, 8, 9, 16):
        for bm in (8, 64, 256):
            for ab in (1, 4, 6):
                for nb in (1, 2, 16):
                    for dim in (1, 2, 3):
                        for rate in (8000, 44100):
                            for (b0, b1) in ((64, 128), (256, 2048)) if tier == 'thorough' else ((64, 128),):
                                if not mine():
                                    continue
                                s = vsynth.base_setup(channels=2, bs0=b0, bs1=b1, rate=rate, floortype=0)
                                # LSP books: strictly positive increments so that the coefficients ascend; keep the last below pi
                                inc = 2.8 / (order + dim)
                                q = 2.0 ** -6
                                mn = max(q, round(inc * 0.6 / q) * q)
                                dl = max(q, round(inc * 0.35 / q) * q)
                                s.books = s.books[:3]
                                for k in range(nb):
                                    s.books.append(vsynth.lattice_book(dim, 2, minv=mn, delta=dl, sequence_p=1) if k % 2 == 0 else
                                                   vspec.Codebook(dim, vsynth.complete_lengths(3), 2, minv=vsynth.fpack(mn), delta=vsynth.fpack(dl), value_bits=2, sequence_p=1,
                                                                  mults=[(j * 2 + e) % 3 for e in range(3) for j in range(dim)]))
                                # the floor's own rate field (16 bits) is what the Bark map is built from; it need not equal the audio sample rate
                                frate = rate if (order + bm + ab + nb + dim) % 3 else {8000: 11025, 44100: 32000}[rate]
                                s.floors = [vspec.Floor0(order, frate, bm, ab, 20, list(range(3, 3 + nb)))]
                                f = vsynth.Filler(fixed={'f0.amp': lambda c, d: 1 + (c * 3) % min((1 << d) - 1, 5) if d else 0})
                                yield ('f0', order, bm, ab, nb, dim, rate, frate, b0), vsynth.Stream(s, pk_seq(s, [0, 1, 1, 0], f))


def suite_residue(tier):
    for rt in (0, 1, 2):
        for ch in (1, 2, 3):
            for be in ('full', 'mid', 'clip', 'empty', 'inverted'):
                for psize in (1, 2, 4, 8):
                    for ncls, cdim in ((1, 1), (2, 1), (2, 2), (3, 1), (3, 2), (2, 3)):
                        masks = [0b1, 0b10, 0b101, 0b10000000, 0b111, 0b1000001] if tier == 'quick' else \
                            [m for m in range(1, 256) if bin(m).count('1') <= 3]
                        for mask in masks[:: (1 if (tier == 'thorough' and rt == 1 and ch == 2) or tier == 'quick' else 7)]:
                            dnds = [d for d in range(1 << ch) if not (tier == 'quick' and d not in (0, 1, (1 << ch) - 1, 2))]
                            own = [d for d in dnds if mine()]
                            if not own:
                                continue
                            vqdim = 2 if psize % 2 == 0 else 1
                            s = vsynth.base_setup(channels=ch, bs0=64, bs1=128, restype=rt, psize=psize, vqdim=vqdim)
                            half = 64 * (ch if rt == 2 else 1)
                            begin, end = {'full': (0, half), 'mid': (psize * 2, half - psize * 3), 'clip': (psize, half * 4), 'empty': (half, half), 'inverted': (40, 8)}[be]
                            nent = ncls ** cdim
                            cb = vspec.Codebook(cdim, vsynth.complete_lengths(nent), 0)
                            s.books[0] = cb
                            s.books.append(vsynth.lattice_book(vqdim, 2, minv=0.5, delta=2.0))        # 4: second stage book
                            casc = [0] * ncls
                            bks = [[-1] * 8 for _ in range(ncls)]
                            for c in range(ncls):
                                m = mask if c == ncls - 1 else (mask >> 1 if c else 0)
                                casc[c] = m & 255
                                for j in range(8):
                                    if casc[c] & (1 << j):
                                        bks[c][j] = 2 if (j + c) % 2 == 0 else 4
                            s.residues = [vspec.Residue(rt, begin, end, psize, ncls, 0, casc, bks)]
                            # do-not-decode patterns: every subset of channels with an unused floor, per packet position
                            for dnd in own:
                                f = vsynth.Filler(fixed={'f1.nonzero': lambda c, d, dnd=dnd: 0 if (dnd >> c) & 1 else 1})
                                yield ('res', rt, ch, be, psize, ncls, cdim, mask, dnd), vsynth.Stream(s, pk_seq(s, [0, 1, 0], f))


def suite_mapping(tier):
    # submaps and channel->submap assignments, coupling lists, many modes/mappings
    for ch in (1, 2, 3):
        for nsub in (1, 2):
            for mux in itertools.product(range(nsub), repeat=ch):
                coup_sets = [()]
                pairs = [(m, a) for m in range(ch) for a in range(ch) if m != a]
                coup_sets += [(p,) for p in pairs]
                coup_sets += [(p, q) for p in pairs for q in pairs if p != q][:: (1 if tier == 'thorough' else 5)]
                for coup in coup_sets:
                    for rt in (1, 2):
                        # every pattern of unused floors (a floor-less channel coupled along a chain of steps must still carry residue)
                        own = [d for d in range(1 << ch) if mine()]
                        if not own:
                            continue
                        s = vsynth.base_setup(channels=ch, bs0=64, bs1=128, restype=rt)
                        # second floor / residue for submap 1
                        s.floors.append(vspec.Floor1([0], [2], [0], [0], [[1]], 3, 5, [7, 19]))
                        s.residues.append(vspec.Residue(1, 0, 64, 8, 2, 0, [0, 1], [[-1] * 8, [2] + [-1] * 7]))
                        s.mappings = [vspec.Mapping(nsub, list(coup), list(mux), [0, 1][:nsub], [0, 1][:nsub], flag_submaps=1 if nsub > 1 else (len(coup) % 2))]
                        for dnd in own:
                            f = vsynth.Filler(fixed={'f1.nonzero': lambda c, d, dnd=dnd: 0 if (dnd >> c) & 1 else 1})
                            yield ('map', ch, nsub, mux, coup, rt, dnd), vsynth.Stream(s, pk_seq(s, [0, 1, 1, 0], f))
    # 16 submaps, 64 modes and 64 mappings, 255 channels
    for ch, nsub, nmodes in ((4, 16, 64), (16, 16, 3), (255, 2, 2), (255, 1, 2)):
        s = vsynth.base_setup(channels=ch, bs0=64, bs1=128, restype=1)
        mux = [(c * 5) % nsub for c in range(ch)]
        s.floors = [vspec.Floor1([0], [2], [0], [0], [[1]], 1 + k % 4, 5, [3 + k, 20 + (k % 9)]) for k in range(min(nsub, 4))]
        s.residues = [vspec.Residue(k % 2 + 1 if k else 1, 0, 64, 4, 2, 0, [0, 1], [[-1] * 8, [2] + [-1] * 7]) for k in range(min(nsub, 3))]
        nmap = min(nmodes, 64)
        s.mappings = [vspec.Mapping(nsub, [(0, 1)] if (k % 2 and ch > 1) else [], mux, [(j + k) % len(s.floors) for j in range(nsub)], [(j * 2 + k) % len(s.residues) for j in range(nsub)], flag_submaps=1) for k in range(nmap)]
        s.modes = [vspec.Mode(k % 2, k % nmap) for k in range(nmodes)]
        seqs = [[k, (k + 1) % nmodes, (k * 7 + 3) % nmodes] for k in range(0, nmodes, 1 if tier == 'thorough' else 7)]
        for sq in seqs:
            if not mine():
                continue
            f = vsynth.Filler(fixed=fill_used())
            yield ('mapbig', ch, nsub, nmodes, tuple(sq)), vsynth.Stream(s, pk_seq(s, sq, f))


def suite_granule(tier):
    """granule-position rules: every start-trim amount on the first page (= first two audio packets) and every end-trim amount on the eos packet"""
    for (b0, b1) in ((64, 64), (64, 128), (128, 1024)) if tier == 'quick' else ((64, 64), (64, 128), (128, 1024), (256, 2048), (2048, 2048)):
        for seq in ((0, 0, 0, 0), (1, 1, 0, 1), (0, 1, 1, 0), (1, 0, 0, 1, 1)):
            s0 = vsynth.base_setup(channels=2, bs0=b0, bs1=b1, coupling=[(0, 1)])
            bs = [s0.blocksize(s0.modes[m].blockflag) for m in seq]
            adv = [0] + [bs[i - 1] // 4 + bs[i] // 4 for i in range(1, len(seq))]
            cases = [(t, None) for t in range(0, adv[1] + 1)] + [(0, e) for e in range(0, adv[-1] + 1)] + [(adv[1] // 2, adv[-1] // 3), (1, 1), (adv[1], 0)]
            if tier == 'quick' and max(adv) > 200:
                cases = [c for k, c in enumerate(cases) if k % 7 == 0 or c[0] in (0, 1, adv[1] - 1, adv[1]) and c[1] in (None, 0, 1, adv[-1] - 1, adv[-1])]
            for (t, e) in cases:
                if not mine():
                    continue
                yield ('gran', b0, b1, seq, t, e), (lambda a=(b0, b1, seq, t, e, adv): build_gran(*a))


def build_gran(b0, b1, seq, t, e, adv):
    s = vsynth.base_setup(channels=2, bs0=b0, bs1=b1, coupling=[(0, 1)])
    f = vsynth.Filler(fixed=fill_used())
    pk = pk_seq(s, list(seq), f)
    n = len(seq)
    grans = [-1] * n
    # page style: the first page holds the first two audio packets, its granule position sits on the second one
    G = adv[1] - t
    grans[1] = G
    for i in range(2, n - 1):
        G += adv[i]
        if i % 2 == 0:
            grans[i] = G            # consistent running position on some packets, none on the others
    keep = adv[-1] if e is None else e
    grans[n - 1] = G + keep
    eos = [0] * (n - 1) + [1]
    st = vsynth.Stream(s, pk, grans=grans, eos=eos)
    st.trim_start = t
    st.trim_end_keep = keep if e is not None else None
    return st


def suite_pairs(tier):
    """feature combinations: floor type x residue type x channels x coupling x submaps x block-size pair x VQ dimension, two fillings"""
    pairs = ((64, 64), (64, 1024), (512, 512), (256, 2048)) if tier == 'quick' else ((64, 64), (64, 128), (64, 1024), (128, 8192), (512, 512), (256, 2048), (4096, 8192))
    for (b0, b1) in pairs:
        for ft in (0, 1):
            for rt in (0, 1, 2):
                for ch in (1, 2, 3):
                    for coup in ((), ((0, 1),), ((1, 0), (2, 1))):
                        if coup and max(max(c) for c in coup) >= ch:
                            continue
                        for nsub in (1, 2):
                            if nsub > ch:
                                continue
                            for vqdim in (1, 2, 4):
                                for fa in ((7, 3), (11, 5)):
                                    if not mine():
                                        continue
                                    yield ('pair', b0, b1, ft, rt, ch, coup, nsub, vqdim, fa), (lambda a=(b0, b1, ft, rt, ch, coup, nsub, vqdim, fa): build_pair(*a))


def build_pair(b0, b1, ft, rt, ch, coup, nsub, vqdim, fa):
    s = vsynth.base_setup(channels=ch, bs0=b0, bs1=b1, restype=rt, floortype=ft, psize=vqdim * 2, vqdim=vqdim, coupling=list(coup), rate=22050)
    if nsub == 2:
        # second submap: the other floor type where possible (floor 1 always available), residue 1
        rb = vspec.ilog(b0 // 2) - 1
        s.floors.append(vspec.Floor1([0], [2], [0], [0], [[1]], 3, rb, [(1 << rb) // 3, (1 << rb) // 2]))
        s.residues.append(vspec.Residue(1, 0, b1 // 2, vqdim * 2, 2, 0, [0, 1], [[-1] * 8, [2] + [-1] * 7]))
        s.mappings = [vspec.Mapping(2, list(coup), [c % 2 for c in range(ch)], [0, 1], [0, 1], flag_submaps=1)]
    f = vsynth.Filler(fixed={'f1.nonzero': lambda c, d: 0 if (fa[0] == 11 and c == ch - 1) else 1, 'f0.amp': lambda c, d: 1 + (c if isinstance(c, int) else 0) % 4}, a=fa[0], b=fa[1])
    return vsynth.Stream(s, pk_seq(s, [0, 1, 1, 0, 1], f))


def suite_bigbooks(tier):
    """codebooks with more than 32767 used entries, every used entry coded (pylib/c01_big.py)"""
    import c01_big
    return c01_big.suite_bigbooks(tier, mine)


def suite_f1class(tier):
    """floor-1 class books smaller than / equal to / larger than subclasses**dim, shared class books (pylib/c01_f1class.py)"""
    import c01_f1class
    return c01_f1class.suite_f1class(tier, mine)


META_KEYS = ('big_streams', 'big_entries_coded', 'big_coded_above_hint', 'big_entry_order_differs', 'bigclass_streams', 'bigclass_words_above_hint',
             'f1class_streams', 'f1class_words', 'f1class_surplus_words', 'f1class_short_words', 'f1class_shared')

SUITES = [('granule', suite_granule), ('pairs', suite_pairs), ('windows', suite_windows), ('codebooks', suite_codebooks), ('floor1', suite_floor1), ('floor0', suite_floor0), ('residue', suite_residue), ('mapping', suite_mapping)]
# round-7 families: outside the time-share rule of the others (own allowance: quick 60 s each, thorough 150 s / 60 s)
LATE = [('bigbooks', suite_bigbooks), ('f1class', suite_f1class)]


# ------------------------------------------------------------------- workers
def worker(args):
    wid, nw, tier, suite_name, deadline = args
    _imp()
    _SH.update({'i': 0, 'wid': wid, 'nw': nw})
    gen = dict(SUITES + LATE)[suite_name](tier)
    out = {'n': 0, 'viol': [], 'outside': 0, 'judged': 0, 'samples': 0, 'nonzero_streams': 0, 'maxratio': 0.0, 'sigs': set(), 'cut': False, 'samples_list': [], 'died': 0,
           'meta': dict.fromkeys(META_KEYS, 0)}
    batch = []

    def flush():
        if not batch:
            return
        streams = [st for _, st in batch]
        res, rc, err = vsynth.run_lib(streams, tag='c01w%d' % wid)
        for (tag, st), l in zip(batch, res):
            ref, rd = vsynth.reference(st)
            out['n'] += 1
            if rd.outside:
                out['outside'] += 1
                continue
            bad, stats = vsynth.compare(st, l, ref, rd)
            out['judged'] += stats['judged']
            out['samples'] += stats['samples']
            out['maxratio'] = max(out['maxratio'], stats['maxratio'])
            if stats['nonzero'] and stats['judged']:
                out['nonzero_streams'] += 1
                out['sigs'].add(tag[:6])
            if l is None:
                out['died'] += 1
            elif not bad:
                # what the round-7 families really coded, counted only on streams that were decoded by both sides and judged
                for k, v in getattr(st, 'c01_meta', {}).items():
                    out['meta'][k] += v
            if bad:
                out['viol'].append((repr(tag), bad[0], stream_dump(st), res2_unaligned(st.setup)))
        del batch[:]

    flushed = False
    for i, (tag, st) in enumerate(gen):
        if flushed and time.time() > deadline:      # a further case exists and the suite's time share is used up
            out['cut'] = True
            break
        flushed = False
        if callable(st):
            st = st()
        if len(out['samples_list']) < 2:
            out['samples_list'].append(repr(tag))
        batch.append((tag, st))
        if len(batch) >= 40 or getattr(st, 'c01_heavy', False):      # heavy streams (seconds each) are judged one by one
            flush()
            flushed = True
    flush()
    out['sigs'] = list(out['sigs'])
    return out


def stream_dump(st):
    return {'headers': [h.hex() for h in st.headers], 'packets': [p.hex() for p in st.packets], 'grans': st.grans, 'eos': st.eos}


def res2_unaligned(s):
    """named predicate over a Setup: some residue of type 2 whose partition size or begin is not a multiple of the number of channels in its bundle"""
    try:
        for m in s.mappings:
            for sm in range(m.submaps):
                nch = sum(1 for c in range(s.channels) if (m.mux[c] if m.mux else 0) == sm)
                r = s.residues[m.submap_residue[sm]]
                if r.type == 2 and nch > 1 and (r.psize % nch or r.begin % nch):
                    return True
    except Exception:
        pass
    return False


def classify(tag, msg, unaligned=False):
    if unaligned and 'library' in msg:
        return 'res2_partition_not_multiple_of_channels'
    what = 'count' if 'sample count' in msg else 'rejected' if 'rejected' in msg else 'value' if 'library' in msg else 'other'
    head = tag.split(',')[0].strip("('")
    return f'{head}:{what}'


def run(tier):
    os.environ.setdefault('OMP_NUM_THREADS', '1')
    os.environ.setdefault('OPENBLAS_NUM_THREADS', '1')
    chk = vlib.Check(PID, tier, 'exploration')
    vlib.build('plain')
    vlib.harness('plain', 'c01_dec')
    _imp()
    # self-check of the reference transform: FFT form == direct matrix form
    for n in (64, 512):
        X = np.cos(np.arange(n // 2) * 1.7) * 3
        assert np.abs(vspec.imdct(X) - vspec.imdct_direct(X)).max() < 1e-9 * n
    nw = vlib.NPROC
    t_end = time.time() + (150 if tier == 'quick' else 1380)
    tot = {'n': 0, 'outside': 0, 'judged': 0, 'samples': 0, 'nonzero_streams': 0, 'maxratio': 0.0, 'died': 0}
    sigs = set()
    meta = dict.fromkeys(META_KEYS, 0)
    per_suite = {}
    cut_any = False
    with mp.Pool(nw) as pool:
        # quick: the round-7 families run after the others (whose time shares stay as they were); thorough: first, inside the overall deadline
        plan = [n for n, _ in SUITES] + [n for n, _ in LATE] if tier == 'quick' else [n for n, _ in LATE] + [n for n, _ in SUITES]
        old_names = [n for n, _ in SUITES]
        for name in plan:
            if name in old_names:
                share = time.time() + max(10.0, (t_end - time.time()) / (len(SUITES) - old_names.index(name)))
            else:
                share = time.time() + (60 if tier == 'quick' else 150 if name == 'bigbooks' else 60)
            rs = pool.map(worker, [(w, nw, tier, name, share) for w in range(nw)])
            ps = {'streams': 0, 'outside': 0, 'cut': False}
            for r in rs:
                for k in ('n', 'outside', 'judged', 'samples', 'nonzero_streams', 'died'):
                    tot[k] += r[k]
                tot['maxratio'] = max(tot['maxratio'], r['maxratio'])
                for k in META_KEYS:
                    meta[k] += r['meta'][k]
                ps['streams'] += r['n']
                ps['outside'] += r['outside']
                ps['cut'] = ps['cut'] or r['cut']
                sigs.update(tuple(x) for x in r['sigs'])
                for tag, msg, dump, unal in r['viol']:
                    chk.violation(classify(tag, msg, unal), f'{tag}: {msg}', {'tag': tag, 'stream': dump})
                if len(chk.cov['samples']) < 12:
                    chk.cov['samples'] += r['samples_list'][:1]
            cut_any = cut_any or ps['cut']
            per_suite[name] = ps
    chk.cov.update({'evaluations': tot['n'], 'distinct_nontrivial': len(sigs), 'exhaustive': not cut_any, 'per_suite': per_suite,
                    'streams_outside_reference_alphabet': tot['outside'], 'samples_compared': tot['samples'], 'samples_with_tight_budget': tot['judged'],
                    'max_error_over_budget_ratio': round(tot['maxratio'], 4), 'executor_deaths': tot['died'], 'round7_families': meta,
                    'rule': 'streams written bit-by-bit from the specification (never by the encoder): suites windows (36 block-size pairs x mode sequences), codebooks (all complete prefix codes <=5 entries x orders x sparse/ordered/single x lookup 1/2 x dims x value formats; 32-bit deep and 300/1000-entry books), floor1 (multipliers x range bits x partition/class/subclass layouts x X orders x Y vectors), floor0 (orders x bark maps x amplitude bits x books x dims x rates), residue (types 0/1/2 x begin/end cases x partition sizes x classifications x cascades x channels x do-not-decode patterns), mapping (submaps x mux x coupling lists x modes, 255 channels), bigbooks (codebooks with 32767/32768/32769/65536 used entries [thorough: 10 sizes up to 131072] x 3 codeword-length orders (ascending, descending, three lengths scattered) x dense/sparse, EVERY used entry coded through residue 1 [thorough: also lookup 2, dimension 2, residue 0 and 2]; residue classification books with 2^15, 2^16, 4^8, 16^4 entries [thorough: 8 shapes] read in scalar context at both ends, both sides of sorted position 32768 from either end and the first-table bucket edges), f1class (floor-1 class books of 2,3,4,5,8,16,17,64,256 entries [thorough: 19 sizes up to 4096] x class dimension 1..8 x subclass bits 1..3, i.e. smaller than, equal to and larger than subclasses^dim, and every pair of class shapes with dim*bits <= 8 [thorough: 10] sharing one class book; EVERY class-book entry coded for every class); '
                            'judged: per-packet sample count exact; |lib-ref| <= 2^-20*sum|spectrum| + propagated VQ/floor rounding budget; distinct_nontrivial = distinct coordinate prefixes of streams that produced non-zero judged audio'})
    chk.assumptions += ['IMDCT normalisation taken as y[i]=sum X[k]cos(2pi/n(i+1/2+n/4)(k+1/2)) (the specification defers to a citation)',
                        'floor 0: LSP accumulation across VQ vectors follows the evident intent of steps 8-9 (the literal "continue at step 6" would reset it)',
                        'residue partition sizes are multiples of the codebook dimension; residue classbook entries beyond classifications^dim are never coded (floor-1 class books of every size are coded in full); VQ magnitudes stay far below 2^40',
                        'streams whose floor-1 final Y leaves [0,range) or whose floor-0 curve is not finite are outside the alphabet (counted, not judged)',
                        'truncated packets are not "complete audio packets" and are left to C02']
    chk.guard(tot['nonzero_streams'] > 0.5 * (tot['n'] - tot['outside']), 'more than half of the judged streams produced non-zero audio')
    chk.guard(tot['outside'] < 0.35 * max(1, tot['n']), 'fewer than 35% of the streams fell outside the reference alphabet')
    chk.guard(tot['died'] == 0, 'the executor answered for every stream')
    if not per_suite['bigbooks']['cut']:
        chk.guard(meta['big_coded_above_hint'] >= 32768 and meta['big_entry_order_differs'] >= 2 and meta['bigclass_words_above_hint'] >= 100,
                  'codewords at sorted positions above 32767 of books with more than 32767 used entries were decoded and judged (value and scalar context, entry order != codeword order)')
    if not per_suite['f1class']['cut']:
        chk.guard(meta['f1class_surplus_words'] >= 1000 and meta['f1class_short_words'] >= 100 and meta['f1class_shared'] >= 10,
                  'floor-1 class words with bits above subclass_bits*dim were decoded and judged (oversized and shared class books), and undersized ones too')
    return chk.finish()


def replay(path):
    r = json.load(open(path))
    vlib.build('plain')
    _imp()
    d = r['replay']['stream']
    hs = [bytes.fromhex(x) for x in d['headers']]
    idh = vspec.parse_id(hs[0])
    s = vspec.parse_setup(hs[2], idh['channels'], idh['bs0'], idh['bs1'])
    s.rate = idh['rate']
    st = vsynth.Stream(s, [bytes.fromhex(x) for x in d['packets']], d['grans'], d['eos'], headers=hs)
    res, rc, err = vsynth.run_lib([st])
    ref, rd = vsynth.reference(st)
    bad, stats = vsynth.compare(st, res[0], ref, rd)
    print(bad, stats)
    return 1 if bad else 0
