"""C18: independent codec instances do not interfere; results are reproducible.

Engines
  SCHED  stateless model checking of thread schedules (harness/c18_sched.c): N real threads, one runnable at a time,
         DFS over choice sequences with iterative preemption bounding c = 0,1,2(,3); scheduling points at
         g1  = step boundaries of a body (groups of API calls, 8-12 per body),
         g1f = every API call boundary,
         g2  = every allocator call made inside an API call (+ every API call boundary); g2/K = only the first K
               allocator calls of each API call.
         Every schedule runs in a fresh forked child; oracle: each thread's digest == its solo digest, fenv control
         state unchanged across every API call.
  TSAN   the same bodies free-running (no scheduler) on the tsan flavour; any ThreadSanitizer report is a violation.
  FILL   every solo body under allocator fill patterns {00,FF,55,AA,7F}: digests must not change.
  VG     every solo body under valgrind memcheck (use of uninitialised values, undefined bytes reaching an output).
  REENT  two vorbisfile threads interleaved at callback granularity (the only yield points inside a vorbisfile call): for every callback
         invocation i of an operation of thread A, thread B's whole operation runs inside it; one OS thread, two OS threads, ASan with a
         fresh process per execution; thorough: two preemptions.  Oracle: both observations bit-identical to the solo runs (pylib/c18_reent.py).
"""
import os, sys, json, time, re, subprocess, itertools, threading, tempfile, shutil
import concurrent.futures as cf
import vlib
import c18_ambient
import c18_reent

PID = 'C18'
ALL_BODIES = ['ENCA', 'ENCB', 'ENCC', 'ENCD', 'ENCM', 'ENCH', 'ENCW', 'ENCQ', 'ENCP', 'ENMR', 'ENML', 'ENM6', 'ENM0', 'ENCT', 'ENCS', 'DECA', 'DECB', 'DECF', 'DECH', 'DECL', 'DECR', 'VFA', 'VFB', 'VFF', 'VFC', 'VFL', 'VFR', 'VLAP', 'VLAQ', 'CMT']
CORE = ['ENCA', 'ENCB', 'DECA', 'DECB', 'DECF', 'VFA', 'VFB']
BODY_DOC = {
    'ENCA': 'encoder stereo 44.1k VBR q0.4, 3x1024 samples', 'ENCB': 'encoder mono 8k, setup_managed+ctl+setup_init (bitrate managed)',
    'ENCC': 'encoder 5.1 44.1k VBR', 'ENCD': 'encoder stereo 22.05k managed with hard min/max',
    'DECA': 'packet decoder on stream s1 (8k mono) with synthesis_restart', 'DECB': 'packet decoder on stream s2 (44.1k stereo)',
    'DECF': 'packet decoder on a synthesised floor-0 stream (floor0_map_lazy_init)', 'DECH': 'half-rate packet decoder on stream s2',
    'VFA': 'vorbisfile on s1: open, info, ov_read, pcm_seek, read, halfrate, read, time_seek, read_float, clear',
    'VFB': 'vorbisfile on s2: ov_read_float, pcm_seek, halfrate, pcm_seek_lap, ov_read, clear',
    'VFF': 'vorbisfile on the floor-0 stream (raw_seek)', 'VFC': 'vorbisfile on the 2-link chain s1+s2',
    'ENCM': 'encoder stereo 44.1k managed with a hard MINIMUM (96 kbit/s, 8000-bit reservoir via RATEMANAGE2_SET) on a tone followed by near silence (1e-5 sine): packets are zero-padded up to the floor',
    'ENCT': 'very short encodes: {1,2} channels x total input {0,1,7,20,32,33,100} samples x {one wrote() call, 3-sample pieces}, then end of stream (28 encoders, one g1 step each; <=32 samples leaves the pcm lead-in to the end-of-stream LPC extrapolation)',
    'ENCS': 'subset of ENCT used as a concurrent body: 1/2 channels x (7 samples in one call, 32 samples in 3-sample pieces)',
    'VLAP': 'vorbisfile on the right-silent stereo stream (several audio pages): {pcm_seek_lap, pcm_seek_page_lap, time_seek_lap, time_seek_page_lap, raw_seek_lap, crosslap} x handle state {fresh, mid-read, after raw seek into the last page (EOF, no lap data), read to end of stream, after a rejected seek}, fresh handle per combination (30 g1 steps L<state><variant>)',
    'VLAQ': 'the same 30 lapped-seek combinations on the 2-link chain s1+left-silent stereo (lapping across links with different rate/channels)',
    'ENCH': 'encoder stereo 96 kHz VBR q0.5, 0.3 s (psy look-ups reach beyond the end of the ATH table)', 'ENCW': 'encoder mono 64 kHz VBR q0.5, 0.3 s',
    'ENCQ': 'encoder mono 44.1k whose last 4096 samples are a 2e-8 amplitude sine (end-of-stream LPC extrapolation takes its below-epsilon exit on non-zero data)',
    'ENCP': 'encoder mono 44.1k whose first 6144 samples are a 2e-8 amplitude sine (pre-extrapolation LPC takes the same exit)',
    'ENMR': 'encoder stereo 44.1k ABR (vorbis_encode_init -1/96000/-1), right channel digital silence from the first sample', 'ENML': 'encoder stereo 44.1k managed 160000/112000/64000, left channel digital silence',
    'ENM6': 'encoder 5.1 ABR 256000, LFE channel digital silence', 'ENM0': 'encoder mono ABR 64000, all digital silence',
    'CMT': 'comments: add_tag with empty and non-empty values, add, query/query_count, commentheader_out, analysis_headerout, re-parse by headerin',
    'DECL': 'packet decoder on coupled stereo with a digitally silent LEFT channel (unused floor on one side of a coupled pair)',
    'DECR': 'packet decoder on coupled stereo with a digitally silent RIGHT channel, with synthesis_restart',
    'VFL': 'vorbisfile (ov_read_float) on the left-silent stream', 'VFR': 'vorbisfile (ov_read, pcm_seek_lap) on the right-silent stream',
}
FILLS = [0x00, 0xFF, 0x55, 0xAA, 0x7F]
STACK_WORDS = ['00000000', 'ffffffff', '7f7f7f7f', '7fc00000', '3f000000']     # dead-stack patterns: zero, all ones, 0x7f bytes, NaN floats, 0.5f floats
GRAN_NAME = {1: 'g1', 2: 'g1f', 3: 'g2'}


# ------------------------------------------------------------------------------------------------ inputs
def streams(exe):
    p1, _ = vlib.mkzoo('c18_s1', rate=8000, ch=1, n=3000, q=0.3, sig='mix', serial=181, tag='C18A')
    p2, _ = vlib.mkzoo('c18_s2', rate=44100, ch=2, n=7000, q=0.4, sig='mix', serial=182, tag='C18B')
    f0 = os.path.join(vlib.zoo_dir(), 'c18_f0.ogg')
    r = subprocess.run([exe, '--mkfloor0', f0, '8000', '24'], stdout=subprocess.PIPE, stderr=subprocess.PIPE, text=True, timeout=60)
    if r.returncode != 0:
        raise RuntimeError('floor-0 synthesis failed: ' + r.stderr)
    ch = vlib.write_file('c18_ch.ogg', open(p1, 'rb').read() + open(p2, 'rb').read())
    pan = []
    for side, nm in ((0, 'pl'), (1, 'pr')):      # hard-panned stereo: channel `side` is exactly zero
        pp = os.path.join(vlib.zoo_dir(), f'c18_{nm}.ogg')
        r = subprocess.run([exe, '--mkpan', pp, str(side), '9000'], stdout=subprocess.PIPE, stderr=subprocess.PIPE, text=True, timeout=60)
        if r.returncode != 0:
            raise RuntimeError('hard-panned stream encode failed: ' + r.stderr)
        pan.append(f'{nm}={pp}')
    cq = vlib.write_file('c18_cq.ogg', open(p1, 'rb').read() + open(pan[0].split('=', 1)[1], 'rb').read())     # chain whose last link has several audio pages
    return ['s1=' + p1, 's2=' + p2, 'f0=' + f0, 'ch=' + ch] + pan + ['cq=' + cq]


def kv(line):
    """parse 'ok a=1 b=x,y ...' -> (status, dict, violation text or None)"""
    viol = None
    if ' viol ' in line:
        line, viol = line.split(' viol ', 1)
    elif line.startswith('viol '):
        return 'viol', {}, line[5:]
    parts = line.split(' ')
    d = {}
    for p in parts[1:]:
        if '=' in p:
            k, v = p.split('=', 1)
            d[k] = v
    return parts[0], d, viol


def viol_fields(txt):
    f = txt.split('|')
    d = {}
    for x in f[:-1]:
        if '=' in x:
            k, v = x.split('=', 1)
            d[k] = v
    d['text'] = f[-1]
    return d


class Job:
    """one system under exploration: bodies x granularity x K x max preemption bound"""

    def __init__(self, bodies, gran, K, cmax, chunk=1):
        self.bodies, self.gran, self.K, self.cmax, self.chunk = bodies, gran, K, cmax, chunk
        self.btxt = '+'.join(bodies)
        self.bases = {}          # base -> dict(L=, free=[...])
        self.per_bound = {}      # c -> dict(sch, byp, nodes, trans, mid, complete)
        self.orders = set()
        self.orders2 = 0
        self.pcs = set()
        self.pts = ''
        self.executed = 0
        self.aux = 0
        self.det_bad = 0
        self.complete_upto = -1

    def name(self):
        return f"{self.btxt}@{GRAN_NAME[self.gran]}{('/K%d' % self.K) if self.K else ''}"


def nontrivial(order):
    """an interleaving is non-trivial when the threads really alternate (more than one block per some thread)"""
    blocks = 1 + sum(1 for a, b in zip(order, order[1:]) if a != b)
    return blocks > len(set(order))


# ------------------------------------------------------------------------------------------------ TSan / valgrind
TSAN_ENV = {'TSAN_OPTIONS': 'exitcode=66 halt_on_error=0 second_deadlock_stack=1'}


def tsan_reports(stderr):
    reps = []
    for blk in stderr.split('==================')[1:]:
        if 'WARNING: ThreadSanitizer' not in blk:
            continue
        kind = re.search(r'WARNING: ThreadSanitizer: ([^(\n]+)', blk).group(1).strip()
        fr = re.findall(r'#0 (\S+) (\S+?):(\d+)', blk)
        fr = [f for f in fr if 'c18_sched.c' not in f[1]] or fr
        loc = re.search(r"Location is global '([^']+)'", blk)
        where = fr[0][0] + '@' + os.path.basename(fr[0][1]) if fr else '?'
        reps.append({'kind': kind, 'frame': where, 'line': fr[0][2] if fr else '', 'global': loc.group(1) if loc else None, 'text': blk.strip()[:1800]})
    return reps


def _txt(x):
    return x.decode('latin-1') if isinstance(x, bytes) else (x or '')


def run_tsan(texe, st, nth, reps, bodies, timeout=900):
    """returns (rc, info, stdout, stderr); rc=None when the pass had to be killed at `timeout` (partial stderr is still parsed)"""
    try:
        p = subprocess.run([texe] + st + ['--free', str(nth), str(reps), '+'.join(bodies)], env=dict(os.environ, **TSAN_ENV), stdout=subprocess.PIPE, stderr=subprocess.PIPE, text=True, timeout=timeout)
        rc, out, err = p.returncode, p.stdout, p.stderr
    except subprocess.TimeoutExpired as e:
        rc, out, err = None, _txt(e.stdout), _txt(e.stderr)
    info = {}
    for l in out.splitlines():
        if l.startswith('free '):
            info = {k: int(v) for k, v in (x.split('=') for x in l.split()[1:])}
    return rc, info, out, err


def run_valgrind(exe, st, body, timeout=900):
    try:
        p = subprocess.run(['valgrind', '-q', '--error-exitcode=9', '--track-origins=no', exe] + st + ['--solo-raw', body], stdout=subprocess.PIPE, stderr=subprocess.PIPE, text=True, timeout=timeout)
        return p.returncode, p.stdout.strip(), p.stderr
    except subprocess.TimeoutExpired as e:
        return None, _txt(e.stdout), _txt(e.stderr)


# ------------------------------------------------------------------------------------------------ main
def plan_jobs(tier):
    pairs = [list(c) for c in itertools.combinations_with_replacement(CORE, 2)]
    extra_pairs = [['ENCC', 'ENCA'], ['ENCD', 'ENCB'], ['DECH', 'DECB'], ['VFF', 'DECF'], ['VFC', 'VFA'], ['ENCC', 'VFC'], ['DECL', 'DECR'], ['VFL', 'VFR'], ['DECL', 'VFL'], ['ENCM', 'ENCD'], ['ENCS', 'ENCS'], ['ENCS', 'ENCA'], ['ENCS', 'DECB'], ['ENCW', 'ENCQ'], ['ENCH', 'DECA'], ['ENMR', 'ENML'], ['CMT', 'ENM0']]
    triples = [['ENCA', 'DECA', 'VFB'], ['ENCB', 'DECF', 'VFA'], ['DECA', 'DECA', 'DECB']]
    jobs = []
    if tier == 'quick':
        for b in pairs + extra_pairs:
            jobs.append(Job(b, 1, 0, 2))
        for b in triples:
            jobs.append(Job(b, 1, 0, 2))
        for b in [['VLAP', 'VLAQ'], ['VLAP', 'VFA']]:
            jobs.append(Job(b, 1, 0, 1))
        for b in [['ENCA', 'ENCA'], ['DECA', 'DECB'], ['ENCB', 'VFA'], ['DECF', 'VFF'], ['DECB', 'DECB']]:
            jobs.append(Job(b, 3, 0, 1, chunk=24))
        for b in pairs:
            jobs.append(Job(b, 3, 3, 1, chunk=12))
    else:
        triples += [['ENCA', 'ENCB', 'DECB'], ['VFA', 'VFB', 'VFF'], ['ENCD', 'DECH', 'VFC']]
        for b in pairs + extra_pairs:
            jobs.append(Job(b, 1, 0, 3))
        for b in pairs + extra_pairs:
            jobs.append(Job(b, 3, 0, 1, chunk=24))
        for b in triples:
            jobs.append(Job(b, 1, 0, 3))
        g1f_pairs = [[k, k] for k in CORE] + [['ENCA', 'DECB'], ['ENCB', 'VFA'], ['DECA', 'VFB'], ['DECF', 'VFF'], ['ENCA', 'ENCB']]
        for b in g1f_pairs:
            jobs.append(Job(b, 2, 0, 2, chunk=2))
        for b in triples[:3]:
            jobs.append(Job(b, 3, 2, 1, chunk=12))
    jobs.sort(key=lambda j: (-(j.gran * 10 + (0 if j.K else 5)), 0))
    if vlib.SEED:      # VERIF_SEED only permutes the order in which the systems are walked (matters only when the deadline cuts the run)
        import random
        random.Random(vlib.SEED).shuffle(jobs)
    only = os.environ.get('C18_ONLY')      # debugging aid: regular expression selecting systems by name (evidence then says exhaustive:false)
    if only:
        jobs = [j for j in jobs if re.search(only, j.name())]
    return jobs


def run(tier):
    chk = vlib.Check(PID, tier, 'model_checking')
    t0 = time.time()
    deadline = t0 + float(os.environ.get('C18_DEADLINE_S') or (140 if tier == 'quick' else 22 * 60))   # C18_DEADLINE_S: override for measurements on an overloaded machine
    vlib.build('plain', 'tsan')
    exe = vlib.harness('plain', 'c18_sched')
    texe = vlib.harness('tsan', 'c18_sched', extra='-DC18_TSAN', wrap=False)
    st = streams(exe)
    # private copies: another author's rebuild (bin/build.sh wipes <flavour>/bin and zoo/ when the tree changes) must not
    # pull binaries or streams away under a running exploration; the run keeps judging the tree it was started on
    os.makedirs(os.path.join(vlib.BUILD, 'tmp'), exist_ok=True)
    priv = tempfile.mkdtemp(prefix='c18run.', dir=os.path.join(vlib.BUILD, 'tmp'))
    try:
        exe = shutil.copy2(exe, os.path.join(priv, 'c18_sched'))
        texe = shutil.copy2(texe, os.path.join(priv, 'c18_sched_tsan'))
        st = [a.split('=', 1)[0] + '=' + shutil.copy2(a.split('=', 1)[1], priv) for a in st]
        return _run(chk, tier, t0, deadline, exe, texe, st)
    finally:
        shutil.rmtree(priv, ignore_errors=True)


def _run(chk, tier, t0, deadline, exe, texe, st):
    fixed = st + ['deadline=%d' % int(deadline)]
    side_budget = (deadline - time.time()) + (20 if tier == 'quick' else 150)     # TSan / valgrind side passes are killed this many seconds after the start,
    kill_at = time.time() + side_budget                                            # no matter how long they waited in the queue of the side pool
    left = lambda: max(2.0, kill_at - time.time())
    cov = chk.cov
    mach = []          # machinery errors: exit 2

    # ---------------- TSan pass and valgrind run in the background while the scheduler explores
    bg = cf.ThreadPoolExecutor(max_workers=8)
    # (threads, repetitions per process, bodies, processes): every process start is a cold library (lazily built tables!)
    reps = 10 if tier == 'quick' else 15
    procs = 3 if tier == 'quick' else 5
    tsan_base = [(16, reps, ALL_BODIES, procs), (8, reps, ['ENCA', 'ENCS', 'ENCW', 'ENCQ'], procs), (8, reps, ['DECF', 'VFF', 'DECA', 'VFA', 'DECL', 'VFR'], procs), (12, reps, ['ENCB', 'ENCD', 'ENCM', 'ENMR', 'CMT', 'DECB', 'DECH', 'VFB', 'VFC'], procs)]
    if tier == 'thorough':
        tsan_base += [(16, reps, ['ENCA', 'ENCC', 'DECB', 'VFB'], procs), (2, 40, ['ENCA', 'DECB'], procs), (2, 40, ['DECA', 'DECA'], procs), (3, 40, ['VFA', 'DECA', 'ENCB'], procs)]
    tsan_cfgs = [(n, r, b) for n, r, b, k in tsan_base for _ in range(k)]
    self_fut = bg.submit(lambda: subprocess.run([texe, '--selfrace'], env=dict(os.environ, **TSAN_ENV), stdout=subprocess.PIPE, stderr=subprocess.PIPE, text=True, timeout=left()))   # first in the queue
    tsan_futs = [bg.submit(lambda n=n, r=r, b=b: run_tsan(texe, st, n, r, b, left())) for n, r, b in tsan_cfgs]
    have_vg = subprocess.run('command -v valgrind', shell=True, stdout=subprocess.PIPE).returncode == 0
    vg_futs = {b: bg.submit(lambda b=b: run_valgrind(exe, st, b, left())) for b in ALL_BODIES} if have_vg else {}

    # ---------------- REENT: callback-granularity interleaving of two vorbisfile threads (pylib/c18_reent.py, harness/c18_reent.c); first, so that the deadline never cuts it
    reent = c18_reent.run_family(chk, tier) if not os.environ.get('C18_ONLY') or os.environ.get('C18_ONLY') == 'reent' else None

    # ---------------- solo references + heap-fill reproducibility
    cases = [f'solo {b}' for b in ALL_BODIES] + [f'fill {b} {p}' for b in ALL_BODIES for p in FILLS] + [f'sfill {b} {w}' for b in ALL_BODIES for w in STACK_WORDS]
    res = vlib.run_cases(exe, cases, fixed, tag='c18a')
    solo = {}
    fill_ok = 0
    sfill_ok = 0
    for c, r in zip(cases, res):
        cov['evaluations'] += 1
        r = r or 'NOOUTPUT'
        stt, d, viol = kv(r)
        if c.startswith('solo'):
            b = c.split()[1]
            if viol is not None:
                vf = viol_fields(viol)
                chk.violation(vf.get('key', f'solo_crash:{b}'), vf['text'], {'kind': 'solo', 'body': b})
                continue
            if stt != 'ok':
                mach.append(f'solo reference of {b} failed: {r[:200]}')
                continue
            solo[b] = d
            if d.get('det') != '1':
                chk.violation(f'solo_not_reproducible:{b}', f'solo body {b}: two runs of the identical call sequence on identical inputs (two freshly forked processes) gave different outputs: {r[:200]}', {'kind': 'solo', 'body': b})
            if d.get('fenv') != '-1':
                chk.violation(f'fenv:{b}', f'solo body {b}: floating-point environment changed by an API call: {r}', {'kind': 'solo', 'body': b})
        elif c.startswith('sfill'):
            _, b, w = c.split()
            if viol is not None:
                vf = viol_fields(viol)
                chk.violation(vf.get('key', 'stackfill'), vf['text'], {'kind': 'sfill', 'body': b, 'word': w})
            elif stt == 'ok':
                sfill_ok += 1
            elif stt == 'MACHINERY':
                mach.append(f'{c}: {r[:200]}')
            else:
                chk.violation(f'stackfill_died:{b}', f'solo body {b} with stack pre-fill 0x{w}: {r[:300]}', {'kind': 'sfill', 'body': b, 'word': w})
        else:
            _, b, p = c.split()
            if viol is not None:
                vf = viol_fields(viol)
                chk.violation(vf.get('key', 'fill'), vf['text'], {'kind': 'fill', 'body': b, 'pattern': int(p)})
            elif stt == 'ok':
                fill_ok += 1
            else:
                chk.violation(f'fill_died:{b}', f'solo body {b} under fill 0x{int(p):02x}: {r[:300]}', {'kind': 'fill', 'body': b, 'pattern': int(p)})
    cov['stackfill'] = {'words': ['0x' + w for w in STACK_WORDS], 'bytes_prefilled_before_every_api_call': 262144, 'bodies': len(ALL_BODIES), 'identical_digests': sfill_ok, 'of': len(ALL_BODIES) * len(STACK_WORDS)}
    cov['fill'] = {'patterns': ['0x%02x' % p for p in FILLS], 'bodies': len(ALL_BODIES), 'identical_digests': fill_ok, 'of': len(ALL_BODIES) * len(FILLS)}
    cov['bodies'] = {b: {'what': BODY_DOC[b], 'g1_steps': int(d['steps']), 'api_calls': int(d['api']), 'allocator_calls_inside_api': int(d['allocs']), 'nonzero_outputs': int(d['nonzero']), 'padded_packets': int(d.get('padded', 0)), 'tiny_encode_packets': int(d.get('tinypk', 0))} for b, d in solo.items()}

    # ---------------- ambient-state axis of the reproducibility clause: errno alphabet / interleaved failing handle, out-parameter fill alphabet (pylib/c18_ambient.py)
    if not os.environ.get('C18_ONLY') or os.environ.get('C18_ONLY') == 'ambient':
        c18_ambient.run_family(chk, tier, exe, mach)

    # ---------------- scheduler exploration
    jobs = [j for j in plan_jobs(tier) if all(b in solo for b in j.bodies)]      # a body that does not complete alone is a violation already
    total_exec = 0
    total_trans = 0
    cut_any = False

    def do_plans(todo):
        """todo: list of (job, base)"""
        nonlocal total_exec, total_trans
        cs = [f'plan {j.btxt} {j.gran} {j.K} {base}' for j, base in todo]
        rs = vlib.run_cases(exe, cs, fixed, tag='c18p')
        for (j, base), c, r in zip(todo, cs, rs):
            r = r or 'NOOUTPUT'
            stt, d, viol = kv(r)
            cov['evaluations'] += 1
            if viol is not None:
                vf = viol_fields(viol)
                chk.violation(vf.get('key', 'sched'), f"{j.name()} preemptions={vf.get('preempts')} choices={vf.get('choices')}: {vf['text']}", {'kind': 'sched', 'bodies': j.btxt, 'gran': j.gran, 'K': j.K, 'choices': vf.get('choices', '-')})
                j.bases[base] = None
                continue
            if stt != 'ok':
                mach.append(f'plan {j.name()} base {base}: {r[:300]}')
                j.bases[base] = None
                continue
            L = int(d['L'])
            j.bases[base] = {'L': L, 'free': [] if d['free'] == '-' else [int(x) for x in d['free'].split(',')], 'byp': [int(x) for x in d['byp'].split(',')], 'nodes': int(d['nodes']), 'trans': int(d['trans'])}
            j.pts = d['pts']
            j.orders.update(d['orders'].split(','))
            if d.get('pcs', '-') != '-':
                j.pcs.update(d['pcs'].split(','))
            if d['det'] != '1':
                j.det_bad += 1
            j.executed += 2
            total_exec += 2
            total_trans += 2 * int(d['trans'])

    do_plans([(j, '-') for j in jobs])
    # second-level bases: the free initial choice (which thread starts) — keeps the shards balanced
    do_plans([(j, f'0:{k}') for j in jobs if j.bases.get('-') for k in range(1, len(j.bodies))])

    maxc = max([j.cmax for j in jobs] + [0])
    heavy = lambda j: j.gran == 3 and j.K == 0          # full allocator-call granularity: by far the most schedules per bound
    if tier == 'quick':
        stages = [(c, lambda j: True) for c in range(0, maxc + 1)]
    else:
        # iterative bounding per system; the expensive full-g2 bound-1 stage comes after the cheap systems reached bound 2, bound 3 last
        stages = [(0, lambda j: True), (1, lambda j: not heavy(j)), (2, lambda j: not heavy(j)), (1, heavy)] + [(c, lambda j: not heavy(j)) for c in range(3, maxc + 1)]
    for c, sel in stages:
        if time.time() > deadline:
            cut_any = True
            break
        cs, meta = [], []
        for j in jobs:
            if not sel(j) or j.cmax < c or any(v is None for v in j.bases.values()) or not j.bases:
                continue
            for base, info in j.bases.items():
                lo = 1
                if c == 0:
                    ds = [d for d in info['free'] if d >= lo]
                    rng = [(d, d + 1) for d in ds]
                else:
                    rng = [(d, min(d + j.chunk, info['L'])) for d in range(lo, info['L'], j.chunk)]
                for d0, d1 in rng:
                    cs.append(f'sched {j.btxt} {j.gran} {j.K} {c} {base} {d0} {d1}')
                    meta.append(j)
            j.per_bound[c] = {'schedules': 0, 'by_preemptions': [0, 0, 0, 0], 'prefixes': 0, 'steps': 0, 'midbody_preemptions': 0, 'complete': True}
            for base, info in j.bases.items():      # the base schedules themselves (executed by the plan stage)
                pb = j.per_bound[c]
                pb['schedules'] += 1
                pb['by_preemptions'][0] += 1
                pb['prefixes'] += info['nodes']
                pb['steps'] += info['trans']
        rs = vlib.run_cases(exe, cs, fixed, tag='c18s') if cs else []
        for j, cline, r in zip(meta, cs, rs):
            r = r or 'NOOUTPUT'
            stt, d, viol = kv(r)
            pb = j.per_bound[c]
            if stt not in ('ok', 'cut'):
                if r.startswith('DIED') or r.startswith('TIMEOUT') or r.startswith('NOOUTPUT'):
                    mach.append(f'{cline}: explorer process failed: {r[:300]}')
                else:
                    mach.append(f'{cline}: {r[:300]}')
                pb['complete'] = False
                continue
            n = int(d['sch'])
            cov['evaluations'] += n
            byp = [int(x) for x in d['byp'].split(',')]
            pb['schedules'] += n
            pb['by_preemptions'] = [a + b for a, b in zip(pb['by_preemptions'], byp)]
            pb['prefixes'] += int(d['nodes'])
            pb['steps'] += int(d['trans'])
            pb['midbody_preemptions'] += int(d['mid'])
            j.executed += n + int(d['aux'])
            j.aux += int(d['aux'])
            total_exec += n + int(d['aux'])
            total_trans += int(d['trans'])
            if d['orders'] != '-':
                j.orders.update(d['orders'].split(','))
            if d.get('pcs', '-') != '-':
                j.pcs.update(d['pcs'].split(','))
            if d['det'] != '1':
                j.det_bad += 1
            if stt == 'cut':
                pb['complete'] = False
                cut_any = True
            if viol is not None:
                vf = viol_fields(viol)
                chk.violation(vf.get('key', 'sched'), f"{j.name()} preemptions={vf.get('preempts')} choices={vf.get('choices')}: {vf['text']}", {'kind': 'sched', 'bodies': j.btxt, 'gran': j.gran, 'K': j.K, 'choices': vf.get('choices', '-')})
        for j in jobs:
            if sel(j) and c in j.per_bound and j.per_bound[c]['complete'] and j.complete_upto == c - 1:
                j.complete_upto = c
        if chk.violations:
            break      # iterative bounding: report at the smallest bound that fails

    # machinery self-check: a bound-c enumeration restricted to <c preemptions is the bound-(c-1) enumeration
    for j in jobs:
        for c in sorted(j.per_bound):
            if c - 1 in j.per_bound and j.per_bound[c]['complete'] and j.per_bound[c - 1]['complete']:
                if sum(j.per_bound[c]['by_preemptions'][:c]) != j.per_bound[c - 1]['schedules']:
                    mach.append(f'{j.name()}: bound {c} enumerated {sum(j.per_bound[c]["by_preemptions"][:c])} schedules with <{c} preemptions, bound {c-1} enumerated {j.per_bound[c-1]["schedules"]}')
        if j.det_bad:
            mach.append(f'{j.name()}: {j.det_bad} re-executed schedules were not reproduced exactly')

    # ---------------- collect TSan / valgrind
    tsan_info = []
    tsan_reports_n = 0
    tsan_killed = 0
    for (n, r, b), fut in zip(tsan_cfgs, tsan_futs):
        try:
            rc, info, out, err = fut.result(timeout=left() + 30)
        except Exception as e:
            mach.append(f'tsan pass {n}x{r} {b}: {e!r}')
            continue
        cov['evaluations'] += info.get('runs', 0)
        tsan_info.append({'threads': n, 'reps': r, 'bodies': '+'.join(b), 'runs': info.get('runs', 0), 'max_concurrent': info.get('maxactive', 0), 'rc': rc})
        reps_ = tsan_reports(err)
        tsan_reports_n += len(reps_)
        rp_ = {'kind': 'tsan', 'threads': n, 'reps': r, 'bodies': b}
        for rp in reps_:
            g = f":{rp['global']}" if rp['global'] else ''
            chk.violation(f"tsan:{rp['kind']}:{rp['frame']}{g}", f"ThreadSanitizer {rp['kind']} in {rp['frame']}:{rp['line']}{(' on global ' + rp['global']) if rp['global'] else ''} (free-running {n} threads, bodies {'+'.join(b)})\n{rp['text']}", rp_)
        if rc is None:
            tsan_killed += 1      # killed at the side budget: overload or a hang; not judged by itself (reports printed before the kill are)
            cut_any = True
        elif info.get('mismatches', 0) or info.get('fenv', 0):
            chk.violation('free:digest' if info.get('mismatches', 0) else 'free:fenv', f"free-running threads ({n} x {r}, {'+'.join(b)}): {out.strip()[:400]}", rp_)
        elif rc not in (0, 66) or not info:
            chk.violation('free:crash', f"free-running threads ({n} x {r}, {'+'.join(b)}) died rc={rc}: {err[-600:]}", rp_)
    try:
        sp = self_fut.result(timeout=left() + 30)
        tsan_self = (sp.returncode == 66 and 'g_racy' in sp.stderr)
    except Exception as e:
        tsan_self = False
        mach.append(f'TSan self-test did not finish: {e!r}')
    cov['tsan'] = {'passes': tsan_info, 'reports': tsan_reports_n, 'passes_killed_at_budget': tsan_killed, 'engine_selftest_detects_seeded_harness_race': tsan_self}
    vg = {}
    for b, fut in vg_futs.items():
        try:
            rc, out, err = fut.result(timeout=left() + 30)
        except Exception as e:
            mach.append(f'valgrind {b}: {e!r}')
            continue
        cov['evaluations'] += 1
        vg[b] = rc
        if rc is None:
            cut_any = True
        if rc == 9 or 'uninitialised' in err or 'Invalid' in err:
            m = re.search(r'(Conditional jump|Use of uninitialised|Uninitialised byte|Invalid \w+)[^\n]*\n==\d+==\s+(?:at|by) 0x[0-9A-F]+: (\S+)', err)
            fr = m.group(2) if m else '?'
            chk.violation(f'valgrind:{b}:{fr}', f'valgrind memcheck on solo body {b}: {err[:1500]}', {'kind': 'valgrind', 'body': b})
        elif rc not in (0, None):
            mach.append(f'valgrind {b}: rc={rc} {err[-300:]}')
    cov['valgrind'] = {'ran': bool(vg_futs), 'bodies_clean': sum(1 for v in vg.values() if v == 0), 'of': len(vg_futs)}
    bg.shutdown(wait=False, cancel_futures=True)

    # ---------------- evidence
    jt = []
    all_orders = 0
    nontriv = 0
    states = 0
    for j in jobs:
        top = max(j.per_bound) if j.per_bound else None
        nt = sum(1 for o in j.orders if nontrivial(o))
        all_orders += len(j.orders)
        nontriv += nt
        if top is not None:
            states += j.per_bound[top]['prefixes']
        jt.append({'system': j.name(), 'points_per_body(g1/g1f/g2)': j.pts, 'max_bound': j.cmax, 'complete_up_to_bound': j.complete_upto,
                   'schedules_per_bound': {str(c): v['schedules'] for c, v in sorted(j.per_bound.items())},
                   'by_exact_preemptions_at_top_bound': j.per_bound[top]['by_preemptions'] if top is not None else None,
                   'decision_prefixes': j.per_bound[top]['prefixes'] if top is not None else 0,
                   'midbody_preemptions': j.per_bound[top]['midbody_preemptions'] if top is not None else 0,
                   'distinct_g1_interleavings': len(j.orders), 'nontrivial_interleavings': nt, 'distinct_pc_tuples': len(j.pcs) if j.gran <= 2 else None,
                   'executions': j.executed})
    by_bound = {}
    for j in jobs:
        for c, v in j.per_bound.items():
            by_bound[c] = by_bound.get(c, 0) + v['schedules']
    exhaustive = (not cut_any) and all(j.complete_upto == j.cmax for j in jobs) and not chk.violations and not os.environ.get('C18_ONLY')
    cov.update({
        'states': states, 'transitions': total_trans, 'traces_validated_against_impl': total_exec,
        'distinct_nontrivial': nontriv, 'distinct_g1_interleavings': all_orders,
        'schedules_per_preemption_bound': {str(c): n for c, n in sorted(by_bound.items())},
        'systems': jt, 'exhaustive': exhaustive,
        'rule': 'states = distinct scheduler decision prefixes visited (summed over systems, at each system\'s top bound); transitions = scheduling steps executed '
                '(a thread running from one scheduling point to the next) over all executed schedules; traces_validated_against_impl = schedules executed on the real library '
                '(all bounds, incl. base/determinism re-executions); distinct_nontrivial = distinct orders of g1 steps observed in which the threads really alternate '
                '(more blocks than threads); per system: all schedules with <= c preemptions, c iterated 0..max_bound, a bound-c run must reproduce the bound-(c-1) count.',
        'samples': [{'system': j.name(), 'order_of_g1_steps': o} for j in jobs[::max(1, len(jobs) // 10)] for o in sorted(j.orders, key=lambda o: (not nontrivial(o), o))[:1]],
    })
    if reent:
        c18_reent.fold(cov, reent)
        chk.assumptions += c18_reent.ASSUMPTIONS
    chk.assumptions += [
        'scheduling points exist only where the harness can place them without touching the source: body step boundaries, API call boundaries, allocator calls inside API calls; '
        'interleavings at finer grain (between two instructions of one library function) are covered only by the free-running ThreadSanitizer pass',
        'input bytes (packets, file images) of decoders working on the same stream are shared read-only between the threads; everything else is per thread',
        'MXCSR sticky exception status flags (bits 0-5) are not part of the "floating-point environment" compared across API calls; rounding control, FTZ/DAZ, exception masks and the x87 control word are',
        '"all prior heap contents" is covered by the 5-pattern fill alphabet for malloc/realloc-grown/freed memory plus valgrind memcheck; stack garbage only by memcheck',
        'libogg is the uninstrumented system library: races inside libogg code are invisible to the TSan pass (its data is still per instance)',
    ]
    # ---------------- vacuity guards
    if reent and not chk.violations:
        c18_reent.guards(chk, reent, tier)
    if not chk.violations:
        expl = [j for j in jobs if j.cmax >= 1 and 1 in j.per_bound and j.per_bound[max(j.per_bound)]['schedules'] > 2 * len(j.bases)]
        bad = [j.name() for j in expl if len(j.orders) < 2 or sum(1 for o in j.orders if nontrivial(o)) < 1 or j.per_bound[max(j.per_bound)]['midbody_preemptions'] <= 0]
        chk.guard(not bad and len(expl) >= 1, f'every system explored with >=1 preemption showed >=2 distinct interleavings differing in order and threads preempted mid-body ({len(expl)} systems){" FAILED: " + ",".join(bad) if bad else ""}')
        chk.guard(all(int(d['nonzero']) > 0 for d in solo.values()) and len(solo) == len(ALL_BODIES), 'every body produced non-zero output (DECF/VFF: the floor-0 curve was rendered, so floor0_map_lazy_init ran)')
        chk.guard(int(solo.get('ENCM', {}).get('padded', 0)) > 0, 'ENCM really emitted packets padded up to the hard minimum bitrate (%s packets end in >=16 zero bytes)' % solo.get('ENCM', {}).get('padded'))
        chk.guard(int(solo.get('ENCT', {}).get('tinypk', 0)) >= 26 and solo.get('ENCT', {}).get('tinyempty') == '0' and solo.get('ENCT', {}).get('steps') == '28', 'ENCT: all 28 very short encodes ran and every one with input produced audio packets (%s packets)' % solo.get('ENCT', {}).get('tinypk'))
        chk.guard(all(int(solo.get(b, {}).get('lap2ok', 0)) >= 5 for b in ('VLAP', 'VLAQ')), 'VLAP/VLAQ: lapped seeks issued after a raw seek into the last page succeeded with the decoder kept and no lap data available (%s, %s of 6 variants)' % (solo.get('VLAP', {}).get('lap2ok'), solo.get('VLAQ', {}).get('lap2ok')))
        chk.guard(tsan_self, 'TSan engine reports a seeded race in the harness (self-test)')
        done_t = [t for t in tsan_info if t['rc'] is not None]
        chk.guard(len(done_t) >= 1 and all(t['max_concurrent'] >= 2 for t in done_t), f'every completed TSan pass had >=2 bodies running concurrently ({len(done_t)} of {len(tsan_cfgs)} passes completed)')
        chk.guard(fill_ok == len(ALL_BODIES) * len(FILLS), 'all fill-pattern runs completed')
        chk.guard(sfill_ok == len(ALL_BODIES) * len(STACK_WORDS), 'all stack pre-fill runs completed (each run first proves with a probe that a fresh alloca really shows the pattern)')
        if tier == 'thorough':
            chk.guard(bool(vg_futs) and any(v == 0 for v in vg.values()), 'valgrind ran')
    for m in mach:
        chk.guard(False, 'machinery: ' + m)
    return chk.finish()


def replay(path):
    r = json.load(open(path))['replay']
    vlib.build('plain')
    exe = vlib.harness('plain', 'c18_sched')
    st = streams(exe)
    k = r.get('kind')
    if k == 'reent':
        return c18_reent.replay(r)
    if k == 'ambient':
        return c18_ambient.replay(r)
    if k == 'sched':
        out = vlib.run_cases(exe, [f"one {r['bodies']} {r['gran']} {r['K']} {r['choices']}"], st, jobs=1)
        print(out[0])
        return 0 if (out[0] or '').startswith('ok') else 1
    if k == 'sfill':
        out = vlib.run_cases(exe, [f"sfill {r['body']} {r['word']}"], st, jobs=1)
        print(out[0])
        return 0 if (out[0] or '').startswith('ok') else 1
    if k == 'fill':
        out = vlib.run_cases(exe, [f"fill {r['body']} {r['pattern']}"], st, jobs=1)
        print(out[0])
        return 0 if (out[0] or '').startswith('ok') else 1
    if k == 'solo':
        out = vlib.run_cases(exe, [f"solo {r['body']}"], st, jobs=1)
        print(out[0])
        return 0 if (out[0] or '').startswith('ok') and 'fenv=-1' in out[0] and 'det=1' in out[0] else 1
    if k == 'tsan':
        vlib.build('tsan')
        texe = vlib.harness('tsan', 'c18_sched', extra='-DC18_TSAN', wrap=False)
        rc, info, out, err = run_tsan(texe, st, r['threads'], r['reps'], r['bodies'])
        print(out.strip())
        print(err[:3000])
        return 0 if rc == 0 and not tsan_reports(err) else 1
    if k == 'valgrind':
        rc, out, err = run_valgrind(exe, st, r['body'])
        print(out)
        print(err[:3000])
        return 0 if rc == 0 else 1
    print('unknown replay kind', k)
    return 2
