"""C17: integer PCM output is the rounded, clipped, interleaved float output.

Bounded-exhaustive enumeration, exhaustive in the VALUE dimension (executor: harness/c17_pcm.c).
 (a) twin handles: ov_read(A) against ov_read_float(B) on the same file at every position reached by reading through,
     for all 8 formats x every buffer length 0 .. 2 frames+1 plus {4096, 65536} (quick thins the 1022 lengths of the
     255-channel stream to every 13th plus +-3 around 0, 1 and 2 frames), on encoder-made streams with
     1, 2, 3, 6 and 255 channels, a chain whose links have 2, 1 and 3 channels, and three "loud" streams (valid streams whose
     residue codebooks are declared 2^1, 2^17, 2^31 times larger, so that the decoded PCM is far outside +-1);
     non-positive word sizes (also probed in every decoder state: after open, data pending, mid-stream, after end of
     stream, after seeks to total/middle/start; seekable and non-seekable handles, full and half rate: always a negative
     code, nothing written, position unchanged, following reads unaffected); the two chained streams (mono->stereo, stereo->mono->3ch) again on NON-SEEKABLE handles under
     ASan (channel count per link from construction); negative buffer lengths {-1,-2,-4,-4096,INT_MIN,INT_MIN+1} (probed right after open and
     between ordinary reads, i.e. with decoded data pending; a guarded real buffer sits behind the pointer): error or 0 at
     end of stream, never a positive count, nothing written, position unchanged, following reads still equal the twin.  Every (format, length) case of the 1/2/3/6-channel streams is also run with half-rate
     decoding switched on (ov_halfrate(vf,1) before the first read on both handles): bytes = conversion of the half-rate
     float decode, whole frames, ov_pcm_tell advances by exactly 2 per frame returned.
 (c) ov_read_filter with non-idempotent filters (gain 2, gain 0.5, offset) x 4 request patterns (big buffer, 100 bytes, one
     frame, big buffers with refused too-small / negative requests in between) x 8 formats x 1,2,3 channels: every byte is
     convert(filter(twin float)) with the filter applied exactly once; filter samples handed over == frames returned.
 (b) value enumeration through the real packing loops: the filter callback of ov_read_filter overwrites the decoded
     block with float bit patterns; quick: a stratified boundary set (every exponent, every integer and half-step of
     both grids +-3 ulp, conversion-overflow boundaries) x 8 formats, plus every pattern with 2^-17 <= |x| < 4 for
     16-bit signed little-endian and 2^-9 <= |x| < 4 for 8-bit unsigned; thorough: ALL 2^32 patterns x 8 formats.
 (d) destination-buffer placement axis and filter-callback axis (pylib/c17_place.py, executor harness/c17_place.c): every format x
     channel count x length class with the destination at every offset 0..7 (thorough 0..15) from a 16-byte aligned base inside a
     canary arena, and ending exactly at an inaccessible page; ov_read_filter with filter NULL / identity / scale / negate / a filter
     that reads an independent handle; boundary float set at every placement; dense float sweeps at an odd address.
"""
import os, sys, re, json, time, struct, subprocess, random
import vlib
import c17_place as PL

PID = 'C17'
KEY_FTOI = 'ftoi_overflow_wraps_to_negative_rail'
CLS = ['exact', 'rounded', 'tie', 'clip+', 'clip-', 'inf+', 'inf-', 'denormal', 'zero', 'negzero']
SLICE_BITS = 24
NSLICE = 1 << (32 - SLICE_BITS)
NAN_PATTERNS = 2 * ((1 << 23) - 1)


def fmt_word(f):
    return 2 if f & 4 else 1


def fmt_name(f):
    return 'w%d%s%s' % (fmt_word(f), 's' if (f >> 1) & 1 else 'u', 'be' if f & 1 else 'le')


def fmt_path(f):
    """which of the separate packing loops of ov_read_filter a format runs through on a little-endian host"""
    if fmt_word(f) == 1:
        return 'word==1 loop'
    if f & 1:
        return 'byte-swapped big-endian loop'
    return 'host-endian signed loop' if (f >> 1) & 1 else 'host-endian unsigned loop'


def bits_float(b):
    return struct.unpack('<f', struct.pack('<I', b))[0]


# ------------------------------------------------------------------ streams
def streams(tier):
    """name -> (path, max channels). Everything is generated from the current tree under vlib.BUILD/zoo."""
    S = {}
    n255 = 300 if tier == 'quick' else 900

    def z(name, **kw):
        p, m = vlib.mkzoo(name, **kw)
        S[name] = (p, m['ch'])
        return p, m
    z('c17_m1', rate=8000, ch=1, n=1200, q=0.3, sig='mix', serial=1701, tag='c17m1')
    z('c17_s2', rate=11025, ch=2, n=1100, q=0.2, sig='sine', serial=1702, tag='c17s2')
    z('c17_t3', rate=44100, ch=3, n=2600, q=0.1, sig='mix', serial=1703, tag='c17t3')
    z('c17_x6', rate=44100, ch=6, n=2200, q=0.3, sig='sine', serial=1704, tag='c17x6')
    z('c17_y255', rate=8000, ch=255, n=n255, q=0.1, sig='mix', serial=1705, tag='c17y255')
    z('c17_v2', rate=44100, ch=2, n=262144, q=0.1, sig='silence', serial=1706, tag='c17v2')    # looping carrier for the value enumeration (1024-frame blocks)
    links = [vlib.mkzoo('c17_c2', rate=11025, ch=2, n=700, q=0.2, sig='mix', serial=1711, tag='c17c2', pages='3'),
             vlib.mkzoo('c17_c1', rate=8000, ch=1, n=600, q=0.3, sig='sine', serial=1712, tag='c17c1', pages='flush'),
             vlib.mkzoo('c17_c3', rate=44100, ch=3, n=900, q=0.1, sig='mix', serial=1713, tag='c17c3')]
    p, _ = vlib.chain('c17_chain', links)
    S['c17_chain'] = (p, 3)
    CHAINLINKS['c17_chain'] = ','.join('%d:%d' % (m['n'], m['ch']) for _, m in links)
    links = [vlib.mkzoo('c17_d1', rate=8000, ch=1, n=500, q=0.3, sig='mix', serial=1714, tag='c17d1', pages='flush'),
             vlib.mkzoo('c17_d2', rate=11025, ch=2, n=640, q=0.2, sig='sine', serial=1715, tag='c17d2')]
    p, _ = vlib.chain('c17_chain12', links)
    S['c17_chain12'] = (p, 2)
    CHAINLINKS['c17_chain12'] = ','.join('%d:%d' % (m['n'], m['ch']) for _, m in links)
    exe = vlib.harness('plain', 'c17_pcm')
    for shift in (1, 17, 31):
        name = 'c17_loud%d' % shift
        path = os.path.join(vlib.zoo_dir(), name + '.ogg')
        r = subprocess.run([exe, '--mkloud', path, '2', '44100', '2600', str(shift), str(1720 + shift)], stdout=subprocess.PIPE, stderr=subprocess.PIPE, text=True, timeout=120)
        if r.returncode != 0:
            sys.stderr.write('mkloud failed: ' + r.stderr)
            raise SystemExit(2)
        S[name] = (path, 2)
    return S


CHAINLINKS = {}      # chain name -> 'n1:ch1,n2:ch2,..' (construction ground truth, filled by streams())
STREAMING = ['c17_chain12', 'c17_chain']       # mono->stereo and stereo->mono->3ch, read through NON-SEEKABLE handles under ASan
STREAM_LENS = [0, 1, 2, 3, 4, 5, 6, 7, 12, 13, 100, 1000, 4096, 65536]
PROBE_STREAMS = ['c17_m1', 'c17_s2', 'c17_t3', 'c17_chain12', 'c17_chain']   # non-positive word sizes probed in every decoder state
GAIN_STREAMS = ['c17_m1', 'c17_s2', 'c17_t3']   # 1, 2, 3 channels for the non-idempotent-filter cases
FILTS = ['gain2', 'gain0.5', 'offset+0.25']
PATTERNS = ['big_buffer', '100_byte_buffer', 'one_frame_buffer', 'big_with_refused_requests']
# negative buffer lengths (a caller's 'size - used' gone wrong): must be refused like any buffer too small for one frame
NEGLENS = [-1, -2, -4, -4096, -2147483648, -2147483647]
HALF = ['c17_m1', 'c17_s2', 'c17_t3', 'c17_x6']      # 1, 2, 3, 6 channels: every (format, length) case is also run at half rate
TWIN = ['c17_m1', 'c17_s2', 'c17_t3', 'c17_x6', 'c17_y255', 'c17_chain', 'c17_loud1', 'c17_loud17', 'c17_loud31']


def parse(line):
    """'<status> k=v k=v ...' -> (status, dict)"""
    if line is None:
        return 'NOOUTPUT', {}
    sp = line.split()
    if not sp:
        return 'NOOUTPUT', {}
    d = {}
    for tok in sp[1:]:
        if '=' in tok:
            k, v = tok.split('=', 1)
            d[k] = v
    if sp[0] not in ('ok', 'bad', 'SKIP'):
        d = {'_line': line}
    return sp[0], d


def parse_runs(s):
    out = []
    if not s or s == '-':
        return out
    for r in s.split(';'):
        if r == 'more':
            continue
        kind, rng, got, want = r.split(':')
        lo, hi = rng.split('-')
        out.append((int(kind), int(lo, 16), int(hi, 16), int(got), want))
    return out


def merge_ranges(rs):
    """[(lo,hi,got)] -> merged list where adjacent/overlapping ranges with the same packed value are joined"""
    out = []
    for lo, hi, got in sorted(rs):
        if out and out[-1][2] == got and lo <= out[-1][1] + 1:
            out[-1] = (out[-1][0], max(out[-1][1], hi), got)
        else:
            out.append((lo, hi, got))
    return out


def case_line(c, S):
    """c = (kind, stream name, args...) -> executor case text"""
    return f"{c[0]} {S[c[1]][0]} " + ' '.join(str(x) for x in c[2:]) + (' ' + CHAINLINKS[c[1]] if c[0] == 'S' else '')


def make_stream_cases(tier):
    """twin read-through on non-seekable handles of the chained streams (run under ASan)"""
    return [('S', name, f, ln) for name in STREAMING for f in range(8) for ln in STREAM_LENS]


def make_cases(tier, S):
    pre, val = [], []
    for name in TWIN:
        _, ch = S[name]
        for f in range(8):
            frame = fmt_word(f) * ch
            lens = list(range(0, 2 * frame + 2))
            if tier == 'quick' and ch > 16:
                # 255 channels, quick: all lengths around 0, 1 frame and 2 frames, every 13th in between (thorough: all of them)
                lens = sorted(set(l for l in lens if l % 13 == 0 or min(abs(l - b) for b in (0, frame, 2 * frame)) <= 3))
            for ln in lens + [4096, 65536] + NEGLENS:
                pre.append(('T', name, f, ln))
                if name in HALF:
                    # the same case with half-rate decoding on: bytes = conversion of the half-rate float decode, position advances 2 per frame
                    pre.append(('T', name, f, ln, 1))
        for w in (0, -1, -2147483648):
            for ln in (0, 1, 2 * ch, 4096):
                pre.append(('W', name, w, ln))
    nparts = 16
    for name in ('c17_v2', 'c17_t3'):
        for f in range(8):
            for part in range(nparts):
                pre.append(('G', name, f, part, nparts))
    for f in range(8):          # boundary set through the filter with half-rate decoding on (2-channel carrier)
        for part in range(4):
            pre.append(('G', 'c17_v2', f, part, 4, 1))
    for name in PROBE_STREAMS:
        for seekable in (1, 0):
            for half in (0, 1):
                pre.append(('P', name, seekable, half))
    for name in GAIN_STREAMS:
        for f in range(8):
            for filt in range(len(FILTS)):
                for pat in range(len(PATTERNS)):
                    pre.append(('F', name, f, filt, pat))
    if tier == 'thorough':
        # ALL 2^32 patterns per format; format order = priority, so that a run cut by the deadline still completes whole formats
        for f in [6, 0, 5, 4, 2, 7, 1, 3]:
            ln = 1024 * 2 * fmt_word(f) + 5     # one long block of the carrier stream plus a tail that must stay untouched
            blk = [('V', 'c17_v2', f, sl << SLICE_BITS, (sl + 1) << SLICE_BITS, ln) for sl in range(NSLICE)]
            if vlib.SEED:
                random.Random(vlib.SEED + f).shuffle(blk)    # order only: a capped run does not always cut the same tail
            val += blk
    else:
        # quick: every float of both signs in the band where the result is neither trivially 0 nor trivially a rail:
        # 16-bit signed LE: 2^-17 <= |x| < 4 (exponent fields 110..128), 8-bit unsigned: 2^-9 <= |x| < 4 (118..128)
        for f, e0 in ((6, 110), (0, 118)):
            ln = 1024 * 2 * fmt_word(f) + 5
            for e in range(e0, 129):
                for sg in (0, 1):
                    lo = (sg << 31) | (e << 23)
                    val.append(('V', 'c17_v2', f, lo, lo + (1 << 23), ln))
    return pre, val


def is_half(c):
    return (c[0] == 'T' and len(c) > 4 and c[4] == 1) or (c[0] == 'G' and len(c) > 5 and c[5] == 1)


def classify_failure(c, status, d):
    """-> list of (key, short description) for one failing case (excluding kind-1 runs, handled by the caller)"""
    kind = c[0]
    what = d.get('what', '-')
    tag = fmt_name(c[2]) if kind in 'TVGSF' else ('word%d' % c[2] if kind == 'W' else ('seekable' if c[2] else 'nonseekable') + (':halfrate' if c[3] else ''))
    if kind == 'S':
        tag += ':nonseekable'
    if kind == 'F':
        tag += ':filtered'
    if is_half(c):
        tag += ':halfrate'
    out = []
    if status not in ('ok', 'bad'):
        raw = d.get('_line', '')
        if 'AddressSanitizer' in raw or 'runtime error' in raw:
            raw = re.sub(r'0x[0-9a-fA-F]+', '0x..', re.sub(r'==\d+==', '', raw))     # no addresses / pids in anything we write
            i = raw.find('AddressSanitizer')
            out.append((f'sanitizer_report:{c[1]}:{tag}', f'{kind} case {c[1:]}: the executor died with a sanitizer report: {raw[max(0, i - 10):i + 400]}'))
        else:
            out.append((f'executor_{status}:{kind}:{c[1]}:{tag}', f'executor answered {status} {raw[:300]}'))
        return out
    if what != '-':
        token = what.split(':')[0]
        out.append((f'{token}:{c[1]}:{tag}', f'{kind} case on {c[1]} {tag} ' + ('' if kind == 'P' else f'filter={FILTS[c[3]]} requests={PATTERNS[c[4]]}' if kind == 'F' else f'len={c[3] if kind in "TWS" else c[-1]}') + f': {what}'))
    for k, lo, hi, got, want in parse_runs(d.get('runs')):
        if k == 2:
            x = bits_float(lo)
            out.append((f'value_mispacked:{tag}:{"twin" if kind == "T" else "filter"}', f'{kind} case on {c[1]} {tag}: float bits 0x{lo:08x}..0x{hi:08x} (first {x!r}) packed as {got}, reference {want} ({fmt_path(c[2])})'))
    return out


def evaluate(chk, cases, res, S, agg):
    for c, line in zip(cases, res):
        chk.cov['evaluations'] += 1
        status, d = parse(line)
        kind = c[0]
        if status == 'SKIP':
            agg['skipped'].append(c)
            continue
        f = c[2] if kind in 'TVGSF' else None
        if 'cls' in d and f is not None:
            cl = [int(x) for x in d['cls'].split(',')]
            for i, n in enumerate(cl):
                agg['cls'][f][i] += n
            if kind == 'V':
                agg['vjudged'][f] += int(d['n'])
                agg['vnan'][f] += int(d['nan'])
                agg['vslices'][f] += 1
                agg['vcover'][f] += c[4] - c[3]
            if kind == 'G':
                agg['gjudged'] += int(d['n'])
            if kind == 'T':
                agg['tjudged'] += int(d['n'])
                agg['tbig'] += int(d['big'])
        if is_half(c) and status in ('ok', 'bad'):
            if int(d.get('half', 0)) != 1:
                agg['other'].append((f'executor_ignored_halfrate:{kind}:{c[1]}', (line or '')[:200], c))
            if kind == 'T' and int(d.get('reads', 0)) > 0:
                agg['half_reads'] += int(d['reads'])
                agg['half_combos'].add((c[2], int(d['maxch'])))
            if kind == 'G':
                agg['half_filter_calls'] += int(d.get('calls', 0))
        if kind == 'P' and status in ('ok', 'bad'):
            agg['word_probes'] += int(d.get('probes', 0))
            agg['word_probes_einval'] += int(d.get('einval', 0))
            if status == 'ok' and int(d.get('states', 0)) == (6 if c[2] else 3) and int(d.get('reads', 0)) > 5:
                agg['probe_combos'].add(c[1:])
        if kind == 'S' and status in ('ok', 'bad'):
            agg['stream_reads'] += int(d.get('reads', 0))
            agg['stream_rej'] += int(d.get('rej', 0))
            if status == 'ok' and int(d.get('reads', 0)) > 0 and int(d.get('crossed', 0)) == int(d.get('links', 0)) - 1:
                agg['stream_combos'].add((c[1], c[2]))
        if kind == 'F' and status in ('ok', 'bad'):
            agg['filter_reads'] += int(d.get('reads', 0))
            agg['filter_rej'] += int(d.get('rej', 0))
            agg['filter_samples'] += int(d.get('fsamples', 0))
            agg['filter_frames'] += int(d.get('frames', 0))
            if status == 'ok' and int(d.get('reads', 0)) > 0:
                agg['filter_combos'].add(c[1:])
                if c[4] == 3 and int(d.get('rej', 0)) > 2:
                    agg['filter_refused_combos'].add(c[1:4])
        if kind == 'T' and c[3] < 0 and status in ('ok', 'bad'):
            agg['negprobes'] += int(d.get('negprobes', 0))
            if int(d.get('negprobes', 0)) > 1 and int(d.get('reads', 0)) > 0:
                agg['neg_combos'].add((c[2], c[1], is_half(c)))
        if kind in 'TW':
            agg['rej' if kind == 'T' else 'wrej'] += int(d.get('rej', 0))
            agg['einval'] += int(d.get('einval', 0))
            agg['reads'] += int(d.get('reads', 0))
            agg['multi'] += int(d.get('multi', 0))
            if kind == 'T' and status == 'ok' and int(d.get('reads', 0)) > 0:
                agg['maxch'] = max(agg['maxch'], int(d.get('maxch', 0)))
                if int(d.get('maxch', 0)) != int(d.get('minch', 0)):
                    agg['chain_reads'] += 1
        # kind-1 mismatches: positive value whose scaled product is >= 2^31 came out as the negative rail
        b1 = int(d.get('bad1', 0)) if status in ('ok', 'bad') else 0
        if b1:
            rs = [(lo, hi, got) for k, lo, hi, got, _ in parse_runs(d.get('runs')) if k == 1]
            if kind == 'T':
                agg['k1twin'].setdefault(c[1], {}).setdefault(f, [0, 0, c, rs])
                e = agg['k1twin'][c[1]][f]
                e[0] += b1
                e[1] += int(d['n'])
            else:
                agg['k1'][f]['n' if kind == 'V' else 'nenv'] += b1
                agg['k1'][f]['contig' if kind == 'V' else 'env'] += rs
                if agg['k1'][f]['case'] is None or kind == 'V' and agg['k1'][f]['case'][0] != 'V':
                    agg['k1'][f]['case'] = c
        if status not in ('ok', 'bad'):
            for key, desc in classify_failure(c, status, d):
                agg['other'].append((key, desc, c))
            continue
        b2 = int(d.get('bad2', 0))
        what = d.get('what', '-')
        if what != '-' or b2:
            fl = classify_failure(c, status, d)
            if b2 and not any(k.startswith('value_mispacked') for k, _ in fl):
                fl.append((f'value_mispacked:{fmt_name(f) if f is not None else "word"}:unlisted', f'{kind} case on {c[1]}: {b2} mismatches beyond the run list: {(line or "")[:200]}'))
            for key, desc in fl:
                agg['other'].append((key, desc, c))
        elif status == 'bad' and not b1:
            agg['other'].append((f'unexplained_bad:{kind}:{c[1]}', (line or '')[:300], c))


def run(tier):
    chk = vlib.Check(PID, tier, 'exploration')
    t0 = time.time()
    vlib.build('plain', 'asan')
    exe = vlib.harness('plain', 'c17_pcm')
    exe_asan = vlib.harness('asan', 'c17_pcm')
    S = streams(tier)
    pre, val = make_cases(tier, S)
    scases = make_stream_cases(tier)
    agg = {'cls': [[0] * len(CLS) for _ in range(8)], 'vjudged': [0] * 8, 'vnan': [0] * 8, 'vslices': [0] * 8, 'vcover': [0] * 8, 'gjudged': 0, 'tjudged': 0, 'tbig': 0,
           'rej': 0, 'wrej': 0, 'einval': 0, 'reads': 0, 'multi': 0, 'maxch': 0, 'chain_reads': 0, 'half_reads': 0, 'half_combos': set(), 'half_filter_calls': 0, 'negprobes': 0, 'neg_combos': set(), 'word_probes': 0, 'word_probes_einval': 0, 'probe_combos': set(), 'stream_reads': 0, 'stream_rej': 0, 'stream_combos': set(),
           'filter_reads': 0, 'filter_rej': 0, 'filter_samples': 0, 'filter_frames': 0, 'filter_combos': set(), 'filter_refused_combos': set(), 'skipped': [],
           'k1': [{'n': 0, 'nenv': 0, 'contig': [], 'env': [], 'case': None} for _ in range(8)], 'k1twin': {}, 'other': []}
    budget = 150 if tier == 'quick' else 22 * 60
    deadline = int(t0 + budget)
    # the small batch (twin / refusal / boundary-set cases, ~100 CPU s) carries every vacuity guard: no cap in quick
    res = vlib.run_cases(exe, [case_line(c, S) for c in pre], ['--deadline', str(deadline)] if tier == 'thorough' else [], tag='c17a')
    evaluate(chk, pre, res, S, agg)
    pagg = PL.run_family(chk, tier, S, deadline)      # (d) placement / filter-callback axes, before anything the deadline may cut
    # non-seekable chained twins under ASan: a wrong per-link info lookup is an out-of-bounds read before it is a wrong byte
    res = vlib.run_cases(exe_asan, [case_line(c, S) for c in scases], ['--deadline', str(deadline)] if tier == 'thorough' else [], tag='c17s')
    evaluate(chk, scases, res, S, agg)
    res = vlib.run_cases(exe, [case_line(c, S) for c in val], ['--deadline', str(deadline)], tag='c17b')
    evaluate(chk, val, res, S, agg)
    PL.run_sweep(chk, tier, S, deadline, pagg)        # (d) dense float sweeps at an odd destination address

    # ---------------------------------------------------------------- the ftoi overflow finding, stated precisely
    lines = []
    groups = {}
    first_replay = None
    nfail = 0
    for f in [6, 0, 4, 5, 7, 1, 2, 3]:
        k = agg['k1'][f]
        if not (k['n'] or k['nenv']):
            continue
        nfail += 1
        scale = 128.0 if fmt_word(f) == 1 else 32768.0
        if k['contig']:
            mr = merge_ranges(k['contig'])
            how = 'contiguous, every pattern in the range'
            cnt = k['n']
        else:
            mr = merge_ranges(k['env'])
            how = 'envelope of the boundary-set members that failed'
            cnt = k['nenv']
        if not mr:      # the executor's run list was used up by other mismatches
            mr = merge_ranges(k['env'])
            how, cnt = 'ranges not listed by the executor', k['n'] + k['nenv']
        rtxt = ', '.join(f'0x{lo:08x}..0x{hi:08x} = {bits_float(lo)!r}..{bits_float(hi)!r} -> {got}' for lo, hi, got in mr[:4]) + (' ...' if len(mr) > 4 else '')
        groups.setdefault(f'{cnt} values ({how}) {rtxt}; x*{scale:g} >= 2^31', []).append(f)
        if first_replay is None:
            first_replay = {'case': ('V', 'c17_v2', f, mr[0][0], mr[0][0] + 1, 1024 * 2 * fmt_word(f) + 5) if mr else k['case'], 'tier': tier}
    for txt, fs in groups.items():
        lines.append('/'.join(fmt_name(f) for f in fs) + ' [' + ', '.join(sorted(set(fmt_path(f) for f in fs))) + ']: ' + txt)
    tw = []
    twg = {}
    for name, byf in sorted(agg['k1twin'].items()):
        for f, (nb, nj, c, rs) in sorted(byf.items()):
            twg.setdefault((name, nb), []).append(fmt_name(f))
            if first_replay is None:
                first_replay = {'case': c, 'tier': tier}
    for (name, nb), fs in sorted(twg.items()):
        tw.append(f'{name} {"/".join(fs)}: {nb} samples (summed over all buffer lengths) came out as the negative rail')
    # anything else first, so that it is the first VIOLATION line printed
    for key, desc, c in agg['other']:
        chk.violation(key, desc, {'case': c, 'tier': tier})
    if lines or tw:
        desc = ('vorbis_ftoi (cvtsd2si on x86-64) returns INT_MIN once sample*scale reaches 2^31; the clip that follows sends the sample to the NEGATIVE rail '
                '(-32768 / -128, i.e. 0x00 for unsigned) instead of the positive one. Mis-packed bit-pattern ranges per format: ' + ' | '.join(lines) +
                (' || also through plain ov_read on valid streams, ov_read_float of the twin handle showing samples >= 2^31/scale: ' + '; '.join(tw[:6]) if tw else ''))
        for _ in range(max(1, nfail + sum(len(v) for v in twg.values()))):
            chk.violation(KEY_FTOI, desc, first_replay)

    # ---------------------------------------------------------------- coverage
    combos = [(fmt_name(f), CLS[i]) for f in range(8) for i in range(len(CLS)) if agg['cls'][f][i] > 0]
    full = [f for f in range(8) if agg['vcover'][f] == 1 << 32]
    exhaustive = not agg['skipped'] and not pagg['skipped']
    chk.cov.update({
        'distinct_nontrivial': len(combos),
        'exhaustive': exhaustive,
        'rule': 'cases: P = non-positive word sizes {0,-1,-2,INT_MIN} x flags x lengths probed in every decoder state of a read-through (stream, seekable, half-rate); S = T on non-seekable handles of the chained streams (ASan build); F = ov_read_filter with a gain/offset filter under a request pattern; T = (stream, format, buffer length[, half-rate]) twin read-through, all 8 formats x lengths 0..2 frames+1, 4096, 65536 x every position reached, '
                'the 1/2/3/6-channel streams additionally with ov_halfrate(vf,1) on both handles before the first read (ov_pcm_tell must advance 2 per frame); '
                'W = non-positive word {0,-1,INT_MIN} x 4 lengths; G = slice of the stratified boundary float set through ov_read_filter on a 2- and a 3-channel stream; '
                'V = contiguous block of float bit patterns through ov_read_filter (%s). '
                'distinct_nontrivial = distinct (format, value class) pairs for which at least one sample was judged against the reference; '
                'classes: %s' % ('ALL 2^32 patterns in 256 slices for each of the 8 formats' if tier == 'thorough' else 'quick: every pattern with 2^-17 <= |x| < 4 for w2sle and 2^-9 <= |x| < 4 for w1ule', ', '.join(CLS)),
        'samples': [case_line(c, {k: (k, v[1]) for k, v in S.items()}) for c in (pre[:3] + pre[len(pre) // 2:len(pre) // 2 + 2] + [x for x in pre if x[0] == 'W'][:2] + [x for x in pre if x[0] == 'G'][:2] + val[:3])],
        'format_value_classes': {fmt_name(f): {CLS[i]: agg['cls'][f][i] for i in range(len(CLS))} for f in range(8)},
        'formats_with_all_2^32_patterns': [fmt_name(f) for f in full],
        'value_slices_done': {fmt_name(f): agg['vslices'][f] for f in range(8)},
        'contiguous_patterns_enumerated': {fmt_name(f): agg['vcover'][f] for f in range(8)},
        'values_judged_filter_full': sum(agg['vjudged']), 'nan_patterns_excluded_full': sum(agg['vnan']),
        'values_judged_filter_boundary_set': agg['gjudged'], 'samples_judged_twin': agg['tjudged'], 'twin_samples_beyond_int_range': agg['tbig'],
        'twin_reads': agg['reads'], 'small_buffer_refusals': agg['rej'], 'nonpositive_word_refusals': agg['wrej'], 'refusals_with_OV_EINVAL': agg['einval'],
        'multichannel_multiframe_reads': agg['multi'], 'max_channels_read': agg['maxch'], 'reads_over_channel_change': agg['chain_reads'],
        'halfrate_twin_reads': agg['half_reads'], 'halfrate_format_x_channels_combos': len(agg['half_combos']), 'halfrate_filter_calls': agg['half_filter_calls'],
        'negative_length_probes': agg['negprobes'], 'negative_length_format_x_stream_x_rate_combos': len(agg['neg_combos']),
        'nonpositive_word_state_probes': agg['word_probes'], 'nonpositive_word_state_probes_answered_OV_EINVAL': agg['word_probes_einval'],
        'nonpositive_word_stream_x_seekable_x_rate_combos': len(agg['probe_combos']),
        'nonseekable_chain_reads_under_asan': agg['stream_reads'], 'nonseekable_small_buffer_refusals': agg['stream_rej'], 'nonseekable_chain_x_format_combos': len(agg['stream_combos']),
        'gain_filter_reads': agg['filter_reads'], 'gain_filter_refused_requests': agg['filter_rej'], 'gain_filter_samples_handed_to_filter': agg['filter_samples'],
        'gain_filter_frames_returned': agg['filter_frames'], 'gain_filter_stream_x_format_x_filter_x_pattern_combos': len(agg['filter_combos']),
        'cases_skipped_by_deadline': len(agg['skipped']),
        'ftoi_overflow_ranges': lines,
    })
    chk.assumptions += [
        'NaN samples are not judged (not producible by a valid stream); +-inf must go to the rail of their sign',
        'a negative buffer length is a buffer too small for one frame: an error (HEAD: OV_EINVAL) or 0 at end of stream, never a positive count',
        'either tie rule is accepted (|out - x*scale| <= 0.5 before clipping)',
        'word sizes other than 1 and 2, and flag values other than 0/1, are outside the documented interface and not judged',
        'a too-small buffer (0 <= length < one frame, or negative length) at end of stream may answer 0 (EOF) instead of a negative code (HEAD tests end of stream first); in every case nothing may be written',
        'a non-positive word size must be answered with a negative code in every state, end of stream included (HEAD: OV_EINVAL before anything else)',
        'word sizes 3, 4, 8 are accepted by HEAD (packed as 16-bit with a wider stride); they are outside the documented interface (1 or 2) and not judged',
        'little-endian host: the fourth 16-bit loop (little-endian output on a big-endian host) is unreachable here',
        'the float side (ov_read_float) is taken as given; its conformance is C01 territory',
        'the filter callback of ov_read_filter replaces the decoded block; the packing loops after it are the ones ov_read runs (ov_read is ov_read_filter with filter=NULL)',
    ]
    PL.finish(chk, tier, S, pagg, exhaustive)
    ok_fmts = range(8)
    chk.guard(all(agg['cls'][f][3] > 0 and agg['cls'][f][4] > 0 for f in ok_fmts), 'each format saw both rails clipped')
    chk.guard(all(agg['cls'][f][2] > 0 for f in ok_fmts), 'each format saw exact ties')
    chk.guard(all(agg['cls'][f][5] > 0 and agg['cls'][f][6] > 0 and agg['cls'][f][7] > 0 and agg['cls'][f][8] > 0 and agg['cls'][f][9] > 0 for f in ok_fmts), 'each format saw +-inf, denormals, +0 and -0')
    chk.guard(agg['multi'] > 0 and agg['maxch'] == 255, 'multi-frame reads on >=3 channels were compared and the 255-channel stream was read')
    chk.guard(len(agg['half_combos']) == 32 and agg['half_filter_calls'] > 0,
              'half-rate decoding: all 8 formats x {1,2,3,6} channels were read with ov_halfrate on (position must advance 2 per frame), and the filter path ran at half rate')
    chk.guard(len(agg['neg_combos']) == 8 * (len(TWIN) + len(HALF)),
              'negative buffer lengths were probed right after open and between ordinary reads for all 8 formats on every twin stream (1..255 channels), full and half rate')
    chk.guard(len(agg['probe_combos']) == len(PROBE_STREAMS) * 4 and agg['word_probes'] > 0,
              'non-positive word sizes were probed after open, with data pending, mid-stream, after end of stream (and after seek to total / middle / start on seekable handles) '
              'on every probe stream, seekable and non-seekable, full and half rate')
    chk.guard(len(agg['stream_combos']) == 8 * len(STREAMING) and agg['stream_rej'] > 0,
              'non-seekable handles: both chains were read through every link boundary for all 8 formats under ASan, too-small buffers included')
    chk.guard(len(agg['filter_combos']) == len(GAIN_STREAMS) * 8 * len(FILTS) * len(PATTERNS) and len(agg['filter_refused_combos']) == len(GAIN_STREAMS) * 8 * len(FILTS)
              and agg['filter_samples'] == agg['filter_frames'] > 0,
              'non-idempotent filters: every stream x format x filter x request pattern ran, refused requests occurred between reads, filter samples == frames returned')
    chk.guard(agg['chain_reads'] > 0, 'a read-through crossed a change of channel count')
    chk.guard(agg['rej'] > 0 and agg['wrej'] > 0, 'small-buffer and non-positive-word refusals were observed')
    chk.guard(agg['tbig'] > 0, 'the twin check met samples of a valid stream whose scaled value is beyond the int range')
    chk.guard(sys.byteorder == 'little', 'host is little-endian (format -> loop mapping)')
    if not agg['other']:
        chk.guard(all(agg['vjudged'][f] + agg['vnan'][f] == agg['vcover'][f] for f in range(8)), 'every enumerated bit pattern was packed and compared exactly once (judged + NaN == enumerated)')
    if exhaustive and tier == 'thorough' and not agg['other']:
        chk.guard(all(agg['vcover'][f] == 1 << 32 and agg['vnan'][f] == NAN_PATTERNS for f in range(8)),
                  'all 2^32 bit patterns per format (2^32 - 16777214 NaNs judged)')
    if exhaustive and tier == 'quick':
        chk.guard(agg['vcover'][6] == 38 << 23 and agg['vcover'][0] == 22 << 23, 'quick band sweep complete: 38 resp. 22 sign x exponent blocks of 2^23 patterns')
    return chk.finish()


def replay(path):
    r = json.load(open(path))['replay']
    tier = r.get('tier', 'quick')
    c = tuple(r['case'])
    if c[0] in PL.KINDS:
        vlib.build('plain')
        return PL.replay_case(c, tier, streams(tier))
    fl = 'asan' if c[0] == 'S' else 'plain'
    vlib.build('plain', fl)
    vlib.harness('plain', 'c17_pcm')
    exe = vlib.harness(fl, 'c17_pcm')
    S = streams(tier)
    line = case_line(c, S)
    out = vlib.run_cases(exe, [line], jobs=1, tag='c17r')
    print(line)
    print(out[0])
    status, d = parse(out[0])
    return 0 if status == 'ok' and int(d.get('badn', 0)) == 0 else 1
