"""C20: half-rate decoding halves the sample count and keeps positions truthful (explicit-state BFS with toggles in the alphabet)."""
import sys, time, json, subprocess
import vlib, zoo, seekgraph, c20_axes
from seekgraph import Explorer, parse_out, OV_EINVAL

PID = 'C20'
REFUSE = ('F8', 'F9')
SEEK = ('ps', 'pp', 'rs', 'ts', 'tp')


def sigma(rich=False):
    def s(fm, st):
        ops = ['rf4096', 'rf37', 'h1', 'h0']
        P = fm.sample_targets(rich)
        if not rich:
            # thin the target set: boundaries, odd/even neighbours
            keep = set([0, 1, fm.L - 1, fm.L])
            for k in range(fm.nl):
                s0, e0 = fm.start[k], fm.start[k + 1]
                keep.update([s0, s0 + 1, e0 - 1, (s0 + e0) // 2, (s0 + e0) // 2 + 1])
                fp = fm.fence[k]
                for f in fp[:2] + fp[-2:]:
                    keep.update([f, f + 1])
            P = sorted(p for p in keep if 0 <= p <= fm.L)
        for p in P:
            ops += ['ps%d' % p]
        for p in P[::3]:
            ops += ['pp%d' % p]
        R = fm.raw_targets(False)
        for o in R[::4]:
            ops.append('rs%d' % o)
        for t in fm.time_targets(False)[::3]:
            ops += ['ts' + t]
        return ops
    return s


def hr_state(hist, rcs):
    """half-rate flag implied by the history (toggle ops that returned 0)"""
    f = 0
    for o, (rc, _) in zip(hist, rcs):
        if o == 'h1' and rc == 0:
            f = 1
        if o == 'h0' and rc == 0:
            f = 0
    return f


def classify(fm, hist, r, what):
    # named predicate for the known pilot finding: toggle while the decoder is initialised
    if 'h1' in hist:
        i = hist.index('h1')
        if any(o.startswith(('rf', 'ri', 'ps', 'ts')) for o in hist[:i]):
            return 'halfrate_on_while_decoder_initialised:' + what
    return f'{fm.name}:{hist[-1][:2] if hist else "open"}:{what}'


def make_judge(chk, stats):
    def judge(ex, parent, op, r, hist):
        fm = ex.fm
        chk.cov['evaluations'] += 1
        rep = {'file': fm.name, 'ops': hist}
        if 'err' in r:
            chk.violation(f'{fm.name}:crash', f'executor died / timed out: {r["err"][:300]}', rep)
            return
        if r['F'] != '-':
            chk.violation(classify(fm, hist, r, r['F']), f'flags {r["F"]} after {hist}', rep)
        if int(r.get('N', -1)) != fm.L:
            chk.violation(classify(fm, hist, r, 'total_changed'), f'ov_pcm_total={r.get("N")} expected {fm.L}', rep)
        hs = hr_state(hist, r['R'])
        ok = True
        for o, (rc, tell) in zip(hist, r['R']):
            if o[:2] in SEEK:
                ok = (rc == 0)
            elif o in ('h0', 'h1'):
                if fm.name in REFUSE:
                    if o == 'h1' and rc != OV_EINVAL:
                        chk.violation(f'{fm.name}:halfrate_not_refused', f'h1 returned {rc} on a stream with 64-sample short blocks (expected OV_EINVAL) after {hist}', rep)
                elif rc != 0:
                    chk.violation(classify(fm, hist, r, 'toggle_refused'), f'{o} returned {rc} on a stream without 64-sample blocks', rep)
            elif rc < 0:
                ok = False
        if parent is not None and op == 'h1' and fm.name in REFUSE:
            stats['refusals'] += 1
            # refused: full-rate decoding intact at the same position (the read-through probe below checks the audio from there)
            if r['T'] != parent['rec']['T']:
                chk.violation(f'{fm.name}:refusal_disturbed_state', f'refused h1 changed the handle state / position ({parent["rec"]["T"]} -> {r["T"]}) after {hist}', rep)
        if parent is not None and op in ('h0', 'h1'):
            stats['toggles'] += 1
            # toggling keeps the position (rounded down to the grid when switching on)
            pt = parent['rec']['T']
            if pt >= 0 and ok:
                exp = min(pt, fm.L)  # position truthful: stays (the next read continues from there); a half-rate read-through of an odd-length stream ends one past the total, which is the end of the stream
                if r['T'] not in (exp, exp & ~1):
                    chk.violation(classify(fm, hist, r, 'toggle_moved_position'), f'{op} at tell {pt} moved the position to {r["T"]}', rep)
        if parent is not None and op[:2] == 'ps' and hs:
            p = int(op[2:])
            rc, tell = r['R'][-1]
            if rc == 0 and tell != (p & ~1):
                chk.violation(classify(fm, hist, r, 'halfrate_seek_landing'), f'{op} with half-rate on landed at {tell}, expected {p & ~1}', rep)
            stats['hr_seeks'] += 1
        if parent is not None and op[:2] == 'ts' and hs:
            # a time seek is a sample-accurate seek to floor(t*rate) of the containing link (targets lie strictly between sample instants)
            tgt = fm.time_target(float(op[2:]))
            rc, tell = r['R'][-1]
            if tgt is not None and rc == 0:
                s0 = fm.start[tgt[0]]
                if tell != s0 + ((tgt[1] - s0) & ~1):
                    chk.violation(classify(fm, hist, r, 'halfrate_time_seek_landing'), f'{op} with half-rate on landed at {tell}, expected {s0 + ((tgt[1] - s0) & ~1)}', rep)
                stats['hr_time_seeks'] += 1
        if not ok:
            return
        stats['judged'] += 1
        stats['sigs'].add((hs, op[:2] if op else 'open', hr_state(hist[:-1], r['R'][:-1]) if hist else 0, fm.link_of_pos(max(0, r['T']))))
        P = r.get('P', '-')
        if not P.startswith('ok'):
            chk.violation(classify(fm, hist, r, 'audio:' + (P.split(':')[1] if P.startswith('bad') else P)), f'half-rate={hs}: after {hist[-6:]} (tell={r["T"]}) read-through != {"half-rate" if hs else "full-rate"} linear decode: {P}', rep)
    return judge


def run(tier):
    chk = vlib.Check(PID, tier, 'model_checking')
    chk.soft_guards_when_cut = False          # quick is deadline-bounded by design; the guards below hold long before any cut
    vlib.build('plain')
    allf = zoo.standard_files()
    files = {k: allf[k] for k in ('F1f', 'F2', 'F2z')}
    files.update(zoo.halfrate_refusal_files())
    files.update(zoo.halfrate_extra_files())
    files.update(c20_axes.bfs_roots())        # an odd-rate link and an all-long tail whose final page holds 8 packets
    exe, listfile, models = seekgraph.load_models(files)
    # reference facts: ceil(N/2) per link, positions advance by two per sample
    rs = json.loads(subprocess.run([exe, '--files', listfile, '--refstats'], stdout=subprocess.PIPE, env=vlib.run_env(), text=True).stdout)
    for fm, st in zip(models, rs):
        rep = {'file': fm.name, 'ops': ['h1', 'read to end']}
        if fm.name in REFUSE:
            if st['href_ok'] or not st['ref_ok'] or st['ref_tell_errors']:
                chk.violation(f'{fm.name}:refusal_reference', f'64-sample-block stream: half-rate linear decode was not refused or full-rate linear decode failed ({st})', rep)
            for k, l in enumerate(st['links']):
                if l['len'] != fm.links[k]['n'] or l['total'] != fm.links[k]['n']:
                    chk.violation(f'{fm.name}:linear_count', f'link {k}: constructed {fm.links[k]["n"]} samples, decoded {l["len"]}, ov_pcm_total {l["total"]}', rep)
            chk.cov['evaluations'] += 1
            continue
        if not st['href_ok'] or not st['ref_ok']:
            chk.violation(f'{fm.name}:linear_halfrate_failed', 'linear (half-rate) decode reported an error or hole', rep)
            continue
        if st['href_tell_errors'] or st['ref_tell_errors']:
            chk.violation(f'{fm.name}:linear_positions', f'linear decode: positions did not advance by 1<<hs per sample ({st})', rep)
        for k, l in enumerate(st['links']):
            n = fm.links[k]['n']
            if l['len'] != n or l['hlen'] != (n + 1) // 2 or l['total'] != n:
                chk.violation(f'{fm.name}:halfrate_count', f'link {k}: N={n} full={l["len"]} half={l["hlen"]} expected {(n + 1) // 2}', rep)
        chk.cov['evaluations'] += 1
    # directed exhaustive sweeps (rate axis x time seeks; fresh decode machine x final page): fixed enumerations, completed before the deadline-bounded BFS
    t_ax = time.time()
    ax = c20_axes.run(chk, tier)
    t_end = (time.time() + 250) if tier == 'quick' else (t_ax + 1500)     # quick: the BFS keeps the per-file budget it had (8 files/200 s, now 10 files/250 s; it ends by its depth cap in ~40 s on an idle machine); thorough: the sweeps count against the 25 min
    stats = {'toggles': 0, 'hr_seeks': 0, 'hr_time_seeks': 0, 'judged': 0, 'sigs': set(), 'refusals': 0}
    tot_states = tot_trans = 0
    per_file = {}
    all_fix = True
    merr = []
    for i, fm in enumerate(models):
        budget = time.time() + max(5.0, (t_end - time.time()) / (len(models) - i))
        ex = Explorer(exe, listfile, fm, sigma(tier == 'thorough'), make_judge(chk, stats), deadline=budget,
                      depth_cap=(5 if tier == 'quick' else 9)).explore()
        merr += ex.machinery_errors[:3]
        per_file[fm.name] = {'states': len(ex.states), 'transitions': ex.trans, 'fixpoint': ex.fixpoint, 'cut': ex.cut, 'max_depth': ex.max_depth, 'alphabet': len(sigma(tier == 'thorough')(fm, None))}
        tot_states += len(ex.states)
        tot_trans += ex.trans
        all_fix = all_fix and ex.fixpoint
        if len(chk.cov['samples']) < 10:
            hsx = [s['hist'] for s in ex.states.values() if 'h1' in s['hist'] and len(s['hist']) >= 3][:3]
            chk.cov['samples'] += [{'file': fm.name, 'history': h} for h in hsx]
    # streaming handles: toggle before the first read only
    cases = []
    for fm in models:
        if fm.name == 'F8':
            continue      # streaming: the 64-sample-block link is not known when the toggle is made; what must happen there is not specified
        cases += [f'{fm.idx} n - pcat h1', f'{fm.idx} n - pcat', f'{fm.idx} n - pcat h1 h0']
    out = [parse_out(x) for x in vlib.run_cases(exe, cases, ['--files', listfile], tag='stream')]
    for c, r in zip(cases, out):
        chk.cov['evaluations'] += 1
        P = r.get('P', r.get('err', '?'))
        if not P.startswith('ok'):
            chk.violation('streaming:' + c.split(' ', 3)[3] + ':' + (P.split(':') + ['?'])[1], f'streaming handle {c}: {P} {r}', {'case': c})
    # "nonzero turns it on": every other truthy flag value must leave the handle in exactly the state ov_halfrate(vf,1) does
    eq = []
    for fm in models:
        mid = (fm.L // 2) | 1
        for alt in ('h2', 'hm', 'hb'):
            for tpl in (['@'], ['@', 'rf4096'], ['rf4096', '@'], ['@', 'ps%d' % mid, 'rf37'], ['@', 'h0', 'rf37'], ['h1', '@', 'rf37'], ['@', 'rf37', '@'], ['ps%d' % mid, '@', 'pp%d' % (fm.L - 1)]):
                eq.append((fm, alt, [alt if o == '@' else o for o in tpl], ['h1' if o == '@' else o for o in tpl]))
    lines = []
    for fm, alt, a, b in eq:
        lines += [f'{fm.idx} s - plin ' + ' '.join(a), f'{fm.idx} s - plin ' + ' '.join(b)]
    out = vlib.run_cases(exe, lines, ['--files', listfile], tag='eqflag')
    for i, (fm, alt, a, b) in enumerate(eq):
        chk.cov['evaluations'] += 1
        ra, rb = out[2 * i], out[2 * i + 1]
        if ra is None or rb is None or ra.startswith(('DIED', 'TIMEOUT')) or ra != rb:
            chk.violation(f'{fm.name}:truthy_flag_{alt}_differs_from_1', f'history {a} and the same history with ov_halfrate(vf,1) leave different observations: {str(ra)[:200]} | {str(rb)[:200]}', {'file': fm.name, 'ops': a})
    chk.cov['truthy_flag_equivalence_pairs'] = len(eq)
    if merr:
        chk.guard(False, 'replay determinism: %r' % (merr[:2],))
    chk.cov.update({'states': tot_states, 'transitions': tot_trans, 'traces_validated_against_impl': tot_trans,
                    'distinct_nontrivial': len(stats['sigs']) + len(ax['sigs']), 'halfrate_time_seeks': stats['hr_time_seeks'], 'per_file': per_file, 'exhaustive': all_fix, 'toggle_transitions': stats['toggles'], 'halfrate_sample_seeks': stats['hr_seeks'],
                    'rule': 'BFS over histories of reads, seeks and ov_halfrate(0|1) toggles on real handles, canonical state hash; in every state the read-through must be bit-identical to the half-rate (flag on) '
                            'or full-rate (flag off) linear decode at ov_pcm_tell; totals unchanged; ps lands on p&~1; distinct_nontrivial = distinct (flag, op kind, flag before, link) signatures '
                            '+ distinct (family, file kind, class, flag, op, ...) signatures of the directed sweeps (cov.axes)'})
    chk.assumptions += ['zoo links have even lengths and even page granules so that "the even position at or below the target" is well defined', 'streams F8/F9 contain a link with 64-sample short blocks written by the specification-level synthesiser (the encoder never emits them)']
    chk.guard(stats['toggles'] > 20 and stats['hr_seeks'] > 50, 'toggles and half-rate seeks exercised')
    chk.guard(stats['refusals'] > 10, 'refusal on 64-sample-block streams exercised from many states')
    chk.cov['refusals_judged'] = stats['refusals']
    return chk.finish()


def replay(path):
    r = json.load(open(path))
    vlib.build('plain')
    if r['replay'].get('family') == 'c20_axes':
        return c20_axes.replay(r['replay'])
    allf = zoo.standard_files()
    files = {k: allf[k] for k in ('F1f', 'F2', 'F2z')}
    files.update(zoo.halfrate_refusal_files())
    files.update(zoo.halfrate_extra_files())
    files.update(c20_axes.bfs_roots())
    exe, listfile, models = seekgraph.load_models(files)
    fm = [m for m in models if m.name == r['replay']['file']][0]
    out = vlib.run_cases(exe, [f"{fm.idx} s - plin " + ' '.join(r['replay']['ops'])], ['--files', listfile], jobs=1)
    print(out[0])
    return 0 if ' P=ok' in (out[0] or '') else 1
