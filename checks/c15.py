"""C15: encoder set-up succeeds completely or fails cleanly for all arguments.
Bounded-exhaustive enumeration of the set-up argument grid and of vorbis_encode_ctl request histories (explicit-state style:
final set-up states are deduplicated by a canonical hash and each distinct state is encoded from once), executed on the real
library under ASan/UBSan (harness/c15_setup.c)."""
import sys, os, time, json, re, subprocess, itertools, resource
import vlib
import c15_geom
import c15_scale
import c15_life

PID = 'C15'
OV_EINVAL, OV_EIMPL, OV_EFAULT = -131, -130, -129
NQ = 16
PL1_BOUNDARY = [-1, 0, 1, 2, 3, 4, 5, 6, 7, 8, 9, 15, 16, 17, 31, 32, 33, 63, 64, 65, 127, 128, 129, 253, 254, 255, 256, 257, 299, 300]
ENC_CH = [1, 2, 3, 6, 7, 255]
ENC_RATES = [1, 2, 100, 4000, 7999, 8000, 11025, 16000, 22050, 32000, 44100, 48000, 64000, 96000, 192000, 200000]   # >= one per template band + both extremes
ENC_Q = ['-0.100000001', '0.0498999991', '0.5', '1']
ENC_NS = [0, 1, 4097]
SIG_RATES = [4000, 8000, 11025, 16000, 22050, 32000, 44100, 48000, 96000]     # one per template band (44100 and 48000: 5.1 has its own template there)
SIG_Q = ['-0.100000001', '0.5', '1']
SPLITS = {L: [(a, b, L - a - b) for a in range(L + 1) for b in range(L + 1 - a)] for L in range(4)}


def tables(exe):
    out = subprocess.run([exe, '--tables'], stdout=subprocess.PIPE, env=vlib.run_env(), timeout=60).stdout.decode()
    return json.loads(out.strip().splitlines()[-1])


def parse(line):
    """'ok n=.. cls=a*1,b*2 succ=.. enc=.. st=.. leak=.. bad=k@d;k@d' -> dict"""
    d = {'n': 0, 'cls': {}, 'succ': {}, 'enc': {}, 'st': {}, 'leak': {}, 'geo': {}, 'blk': {}, 'lpr': None, 'bad': [], 'flags': []}
    for tok in line.split(' ')[1:]:
        if '=' not in tok:
            d['flags'].append(tok)
            continue
        k, v = tok.split('=', 1)
        if k == 'n':
            d['n'] = int(v)
        elif k == 'lpr':
            d['lpr'] = float(v)
        elif k == 'bad':
            d['bad'] = [tuple((x.split('@', 1) + ['?'])[:2]) for x in v.split(';') if x]
        elif k in d:
            for item in v.split(','):
                if item:
                    key, cnt = item.rsplit('*', 1)
                    d[k][key] = d[k].get(key, 0) + int(cnt)
    return d


class Runner:
    """Runs case lines; a sanitizer death names its tuple (death callback), the case is re-run with that tuple skipped (<=3 per case)."""

    def __init__(self, exe, chk):
        self.exe, self.chk = exe, chk
        self.crashes = []       # (case, ord, desc, stderr)
        self.timeouts = []
        self.incomplete = []    # cases given up on
        self.executed = 0
        self.rebuilt = 0

    def run(self, cases, tag, timeout_s=120):
        """returns list of parsed results (None where the case could not be completed)"""
        res = [None] * len(cases)
        if not os.path.exists(self.exe):
            # another check rebuilt the shared build directory (bin/build.sh wipes <flavour>/bin when the tree changed): build again
            vlib.build('asan')
            self.exe = vlib.harness('asan', 'c15_setup')
            self.rebuilt += 1
        pending = [(i, []) for i in range(len(cases))]
        rounds = 0
        while pending and rounds < 6:
            rounds += 1
            lines = [cases[i] + ''.join(' %d' % s for s in skips) for i, skips in pending]
            out = vlib.run_cases(self.exe, lines, ['--timeout', str(timeout_s)], tag=tag)
            nxt = []
            for (i, skips), r in zip(pending, out):
                r = r or 'NOOUTPUT'
                if r.startswith('ok'):
                    res[i] = parse(r)
                elif r.startswith('TIMEOUT'):
                    m = re.search(r'ord=(-?\d+) desc=(\S*)', r)
                    self.timeouts.append((cases[i], int(m.group(1)) if m else -1, m.group(2) if m else ''))
                    if m and len(skips) < 3:
                        nxt.append((i, skips + [int(m.group(1))]))
                    else:
                        self.incomplete.append(cases[i])
                elif r.startswith('DIED'):
                    m = re.search(r'C15-DEATH idx=-?\d+ ord=(-?\d+) desc=([^\s"\\]*)', r)
                    rc = re.match(r'DIED rc=(-?\d+)', r)
                    if not m:
                        if rc and rc.group(1) == '3' and rounds < 5:
                            nxt.append((i, skips))      # collateral of a watchdog exit in the same worker: simply run it again
                        else:
                            self.crashes.append((cases[i], -1, '', r))
                            self.incomplete.append(cases[i])
                        continue
                    self.crashes.append((cases[i], int(m.group(1)), m.group(2), r))
                    if len(skips) < 3:
                        nxt.append((i, skips + [int(m.group(1))]))
                    else:
                        self.incomplete.append(cases[i])
                else:
                    self.crashes.append((cases[i], -1, '', r))
                    self.incomplete.append(cases[i])
            pending = nxt
        for i, _ in pending:
            self.incomplete.append(cases[i])
        return res


def crash_site(stderr_json):
    """name of the crash from the sanitizer report: '<file>:<line>:<function>:<what>' (no addresses, no scratch paths)"""
    try:
        txt = json.loads(stderr_json[stderr_json.index('"'):])
    except Exception:
        txt = stderr_json.replace('\\n', '\n')
    what = 'report'
    m = re.search(r'C15-SIGNAL (\d+)', txt)
    if m:
        return 'signal_%s_without_sanitizer_report' % m.group(1)
    m = re.search(r'runtime error: ([^\n]*)', txt)
    if m:
        what = re.sub(r'0x[0-9a-f]+', 'ADDR', m.group(1)).replace(' ', '_')[:60]
    else:
        m = re.search(r'ERROR: AddressSanitizer: ([A-Za-z0-9_-]+)', txt)
        if m:
            what = m.group(1)
    for m in re.finditer(r'#\d+ 0x[0-9a-f]+ in (\S+) (\S+?/lib/[^/\s:]+)(?::(\d+))?', txt):
        if '/harness/' in m.group(2):
            continue
        return '%s:%s:%s:%s' % (os.path.basename(m.group(2)), m.group(3) or '?', m.group(1), what)
    m = re.search(r'#\d+ 0x[0-9a-f]+ in (\S+)', txt)
    return '%s:%s' % (m.group(1) if m else 'unknown', what)


def desc_to_case(desc, T, pl=2, ns=4097):
    """tuple description printed by the harness -> a case line that executes exactly that tuple"""
    f = desc.split(':')
    kv = dict(x.split('=', 1) for x in f if '=' in x)
    if 'piece' in kv and f[0] in ('vbr', 'managed'):    # a tuple of the submission-size axis
        return 'W %d %s %s %s %s %s %s' % (f[0] == 'managed', kv['ch'], kv['rate'], kv['nom'] if f[0] == 'managed' else kv['q'], kv['ns'], kv['piece'], kv['batch'])
    if 'lp' in kv and f[0] in ('vbr', 'managed'):      # a tuple of the geometry family: explicit-value case line
        return 'L %d %s %s %s %s %s %s 0' % (f[0] == 'managed', f[1][1:], kv['ch'], kv['rate'], kv['nom'] if f[0] == 'managed' else kv['q'], kv['cpl'], kv['lp'])
    if 'pl' in kv and f[0] in ('vbr', 'managed'):      # a tuple of the signal phase: explicit-value case line
        if f[0] == 'vbr':
            return 'S 0 %s %s %s %d %s %d' % (f[1][1:], kv['ch'], kv['rate'], T['quals'].index(kv['q']), kv['pl'], ns)
        return 'S 1 %s %s %s %s %s %s %s %d' % (f[1][1:], kv['ch'], kv['rate'], kv['max'], kv['nom'], kv['min'], kv['pl'], ns)
    if f[0] == 'vbr':
        return 'G %s %s %d %d %d %d' % (f[1][1:], kv['ch'], T['rates'].index(int(kv['rate'])), T['quals'].index(kv['q']), pl, ns)
    if f[0] == 'managed':
        b = T['bitr']
        if f[1] in ('p0', 'p1') and all(int(kv[x]) in b for x in ('max', 'nom', 'min')) and int(kv['rate']) in T['mrates']:
            ti = b.index(int(kv['max'])) * 49 + b.index(int(kv['nom'])) * 7 + b.index(int(kv['min']))
            return 'M %s %s %d %d %d %d' % (f[1][1:], kv['ch'], T['mrates'].index(int(kv['rate'])), ti, pl, ns)
        return 'S 1 %s %s %s %s %s %s %d %d' % (f[1][1:], kv['ch'], kv['rate'], kv['max'], kv['nom'], kv['min'], pl, ns)     # scaling family: explicit values, paths 0..5
    if f[0] == 'ctl':
        a, b, c = kv['split'].split('-')
        ops = [x for x in kv['ops'].split('.') if x != '']
        return 'C %s %s %s %s %d %d %s' % (kv['base'], a, b, c, 1 if pl >= 2 else 0, len(ops), ' '.join(ops))
    raise ValueError(desc)


def callpath(desc):
    f = desc.split(':')
    if f[0] not in ('ctl', 'vbr', 'managed') or len(f) < 3:
        return 'unattributed'
    if f[0] == 'ctl':
        return 'ctl:' + f[1] + ':' + f[2]
    if any(x.startswith('req=') for x in f):
        return 'ctl:scaling'        # scaling family with one request between setup_managed and setup_init
    if any(x.startswith('cpl=') for x in f) and not (('cpl=-1' in f) and ('lp=-' in f)):
        return 'ctl:geometry'       # geometry family with OV_ECTL_COUPLING_SET / OV_ECTL_LOWPASS_SET between setup_* and setup_init: reported with the ctl histories
    return f[0] + ':' + {'vbr:p0': 'init_vbr', 'vbr:p1': 'setup_vbr+setup_init', 'managed:p0': 'init', 'managed:p1': 'setup_managed+setup_init'}[f[0] + ':' + f[1]]


def run(tier):
    chk = vlib.Check(PID, tier, 'exploration')
    t0 = time.time()
    budget = 150 if tier == 'quick' else 23 * 60
    chk.deadline = t0 + budget
    vlib.build('asan')
    exe = vlib.harness('asan', 'c15_setup')
    T = tables(exe)
    rates, quals, ops, bases = T['rates'], T['quals'], T['ops'], T['bases']
    A = len(ops)
    R = Runner(exe, chk)
    exhaustive = True
    notes = []
    cls_all = {}          # (phase, class) -> count
    succ = {}
    enc = {}
    leaks = {}
    bads = []             # (kind, desc, pl, ns)
    fn_codes = {}         # function -> set of return codes
    nsetups = 0

    def absorb(phase, cases, results, plns):
        nonlocal nsetups
        for c, r, (pl, ns) in zip(cases, results, plns):
            if r is None:
                continue
            chk.cov['evaluations'] += r['n']
            nsetups += r['n']
            for k, v in r['cls'].items():
                cls_all[(phase, k)] = cls_all.get((phase, k), 0) + v
                if k == 'SKIPPED':
                    continue
                f = k.split(':')
                if phase != 'ctl':
                    for j in range(1, len(f) - 1, 2):
                        fn_codes.setdefault(f[j], set()).add(int(f[j + 1]))
            for k, v in r['succ'].items():
                succ[k] = succ.get(k, 0) + v
            for k, v in r['enc'].items():
                ek = (phase, ('b' + c.split(' ')[1]) if phase == 'ctl' else (c.split(' ')[3] if c[0] in 'SL' else c.split(' ')[2]), k)
                enc[ek] = enc.get(ek, 0) + v
            for k, v in r['leak'].items():
                leaks[k] = v
            for kind, desc in r['bad']:
                bads.append((kind, desc, pl, ns))
            if 'WAOVERFLOW' in r['flags']:
                notes.append('allocator table overflow in ' + c)

    def phase(name, cases, plns, tag, reserve=0, absorber=None, always=0, step=None):
        """run cases in chunks; stop (exhaustive=False) when the wall deadline minus `reserve` is reached; the first `always` cases run regardless"""
        nonlocal exhaustive
        tt = time.time()
        ru0 = resource.getrusage(resource.RUSAGE_CHILDREN)
        pos = 0
        step = step or (4096 if tier == 'quick' else 1024)
        while pos < len(cases):
            if pos >= always and time.time() > chk.deadline - reserve:
                exhaustive = False
                notes.append('deadline: phase %s stopped after %d of %d case lines' % (name, pos, len(cases)))
                break
            chunk, cp = cases[pos:pos + step], plns[pos:pos + step]
            res = R.run(chunk, tag)
            if absorber is None:
                absorb(name, chunk, res, cp)
            else:
                absorber(chunk, res, cp)
            pos += len(chunk)
        walls[name] = round(walls.get(name, 0) + time.time() - tt, 1)
        ru1 = resource.getrusage(resource.RUSAGE_CHILDREN)
        cpus[name] = round(cpus.get(name, 0) + (ru1.ru_utime - ru0.ru_utime) + (ru1.ru_stime - ru0.ru_stime), 1)
        if os.environ.get('C15_PROGRESS'):
            print('[c15] phase %s: %d/%d case lines, %.1fs (t=%.0fs)' % (name, pos, len(cases), time.time() - tt, time.time() - t0), file=sys.stderr, flush=True)
        return pos

    walls = {}
    cpus = {}             # executor CPU seconds (user + system) per phase: the load-independent cost
    # ------------------------------------------------------------------ 1. VBR grid: every tuple set up (and cleared) on both call paths;
    # on the channel counts in pl1 additionally analysis_init + headerout + headerin after every success
    pl1 = sorted(set(PL1_BOUNDARY) | set(range(-1, 301, 7)))
    pl1_paths = {0: set(pl1), 1: {1, 2, 6, 255}}
    cases, plns = [], []
    for path in (0, 1):
        for ch in range(-1, 301):
            pl = 1 if ch in pl1_paths[path] else 0
            cases.append('G %d %d -1 -1 %d 0' % (path, ch, pl))
            plns.append((pl, 0))
    phase('vbr', cases, plns, 'c15g', always=len(cases))
    # ------------------------------------------------------------------ 2. encode sub-grid (VBR)
    cases, plns = [], []
    for path in ((0,) if tier == 'quick' else (0, 1)):
        for ch in ENC_CH:
            for rate in ENC_RATES:
                for q in ENC_Q:
                    for ns in ENC_NS:
                        if tier == 'quick' and ch == 255 and ns == 4097 and q not in ('0.5',) and rate not in (1, 8000, 44100, 200000):
                            continue     # quick: the 255-channel full encodes (1.7 s each) only on the extremes + all rates at q .5
                        cases.append('G %d %d %d %d 2 %d' % (path, ch, rates.index(rate), quals.index(q), ns))
                        plns.append((2, ns))
    phase('enc', cases, plns, 'c15e', reserve=600, always=len(cases) if tier == 'quick' else 0)
    # ------------------------------------------------------------------ 3. managed grid
    mch = [1, 2, 6] if tier == 'quick' else [-1, 0, 1, 2, 3, 6, 255, 256]
    cases, plns = [], []
    for path in (0, 1):
        for ch in mch:
            for mi in range(8):
                for ns in ENC_NS:
                    if tier == 'quick' and ((path == 0) != (ns == 4097)) and ns != 0:
                        continue     # quick: one-step path encodes 4097 samples, three-step path 1 sample; both 0
                    cases.append('M %d %d %d -1 2 %d' % (path, ch, mi, ns))
                    plns.append((2, ns))
    phase('managed', cases, plns, 'c15m', reserve=600, always=len(cases) if tier == 'quick' else 0)
    # ------------------------------------------------------------------ 3a. bitrate scaling family (pylib/c15_scale.py): per-channel bitrates x channel count, so that stage one
    # (template lookup) succeeds for the channel counts only stage two (vorbis_encode_setup_init) refuses; one-step, two-step and with one request between the stages
    sc_cases = c15_scale.cases(tier)
    SC = c15_scale.Summary()

    def absorb_scale(cases, results, plns):
        absorb('scale', cases, results, [(int(c.split(' ')[4]), int(c.split(' ')[5])) for c in cases])
        for meta, r in zip(plns, results):
            if r is not None:
                SC.absorb(meta, r)

    sc_quick = len(c15_scale.cases('quick'))       # thorough: the quick members always, the rest in at most 4 minutes of the budget and never into the last 10
    sc_done = phase('scale', [l for l, m in sc_cases], [m for l, m in sc_cases], 'c15b', reserve=max(600, chk.deadline - (time.time() + 240)), absorber=absorb_scale,
                    always=sc_quick, step=sc_quick)
    # ------------------------------------------------------------------ 3a''. submission-size axis of the encode stage: the whole signal in ONE vorbis_analysis_buffer/_wrote call, and in many small
    # pieces that are all submitted (stream closed) before the first vorbis_analysis_blockout - the amount of audio buffered at one blockout is the axis (the other phases submit 1024 and drain)
    SUB_TOTALS = [4096, 24576, 30000, 65536, 70001]
    SUB_TEMPLATES = ['0 1 8000 0.1', '0 2 44100 0.5', '1 2 44100 128000', '0 6 48000 0.3'] + ([] if tier == 'quick' else ['0 2 22050 0.8', '1 1 16000 32000', '0 2 96000 0.5', '0 2 44100 -0.1'])
    sub_cases = ['W %s %d %d %d' % (t_, tot, piece, batch) for t_ in SUB_TEMPLATES for tot in SUB_TOTALS for piece, batch in ((tot, 0), (1024, 1), (64, 1))]
    phase('submit', sub_cases, [(2, int(c.split(' ')[5])) for c in sub_cases], 'c15w', always=len(sub_cases), step=len(sub_cases))
    # ------------------------------------------------------------------ 3a'. lifecycle family (pylib/c15_life.py, harness/c15_life.c): every legal call sequence up to the bound over
    # two encoders created from ONE successfully set-up vorbis_info; each encoder lifetime compared with the same calls made by the only encoder on a fresh info
    tt = time.time()
    ru0 = resource.getrusage(resource.RUSAGE_CHILDREN)
    life_exe = vlib.harness('asan', 'c15_life')
    life_cfgs = json.loads(subprocess.run([life_exe, '--tables'], stdout=subprocess.PIPE, env=vlib.run_env(), timeout=60).stdout.decode().strip().splitlines()[-1])['cfgs']
    LIFE, life_viol, life_exh = c15_life.run(vlib, life_exe, tier, crash_site, deadline=None if tier == 'quick' else chk.deadline - 600, time_fn=time.time)
    walls['lifecycle'] = round(time.time() - tt, 1)
    ru1 = resource.getrusage(resource.RUSAGE_CHILDREN)
    cpus['lifecycle'] = round((ru1.ru_utime - ru0.ru_utime) + (ru1.ru_stime - ru0.ru_stime), 1)
    chk.cov['evaluations'] += LIFE['executed']
    if not life_exh:
        exhaustive = False
        notes.append('lifecycle family not completed: %s' % (LIFE.get('stopped') or LIFE.get('deadline')))
    # ------------------------------------------------------------------ 3b. signal alphabet: every template class x every signal
    # class = rate band x {mono, stereo, 5.1} x {low q, mid q, high q, managed}; signals = over-full-scale sines, square, level sweep, FLT_MAX/inf/NaN bursts
    cases, plns = [], []
    sig_classes = 0
    for path in ((0,) if tier == 'quick' else (0, 1)):
        for rate in SIG_RATES:
            for ch in (1, 2, 6):
                modes = [('q', quals.index(q)) for q in SIG_Q] + [('m', (20000 if rate < 26000 else 40000) * ch)]
                for kind, val in modes:
                    sig_classes += 1
                    for nsx in ((4097,) if tier == 'quick' else (4097, 20000)):
                        for sgi in range(len(T['signals'])):
                            if kind == 'q':
                                cases.append('S 0 %d %d %d %d %d %d' % (path, ch, rate, val, 10 + sgi, nsx))
                            else:
                                cases.append('S 1 %d %d %d -1 %d -1 %d %d' % (path, ch, rate, val, 10 + sgi, nsx))
                            plns.append((10 + sgi, nsx))
    phase('signals', cases, plns, 'c15x', reserve=600, always=len(cases) if tier == 'quick' else 0)
    # ------------------------------------------------------------------ 3c. geometry family: rate / quality / lowpass -> residue and psychoacoustic geometry,
    # every member through the whole encode stage (>= 3 long blocks of broadband noise with one 52 dB step, so that both block sizes occur)
    geom, geom_always = c15_geom.ordered_cases(tier)
    G = {'cases': {}, 'encoded': {}, 'geo': {}, 'blk_both': 0, 'blk_two_sizes': 0, 'near': {}, 'near_tmpl': set(), 'below': None, 'above': None, 'exact': 0, 'modes': {}, 'refused': {}, 'done': 0, 'cpl_rc': {}}

    def absorb_geom(cases, results, plns):
        absorb('geometry', cases, results, [(100, 0)] * len(cases))
        for c, r, meta in zip(cases, results, plns):
            fam = meta['fam']
            G['cases'][fam] = G['cases'].get(fam, 0) + 1
            if r is None:
                continue
            G['done'] += 1
            for k, v in r['cls'].items():
                m = re.search(r'^([MV]):.*:ctl_coupling:(-?\d+)', k)
                if m:
                    ck = ('managed' if m.group(1) == 'M' else 'vbr') + ':' + m.group(2)
                    G['cpl_rc'][ck] = G['cpl_rc'].get(ck, 0) + v
            if not r['geo']:
                for k in r['cls']:
                    G['refused'][fam] = G['refused'].get(fam, 0) + 1
                continue
            if not r['enc'].get('geom/packets'):
                continue
            G['encoded'][fam] = G['encoded'].get(fam, 0) + 1
            geo = list(r['geo'])[0]
            G['geo'].setdefault(geo, c)
            tl, bs = geo.split('/')[0], geo.split('/')[1].split('.')
            mk = ('managed' if meta['managed'] else 'vbr') + ('/coupling_off' if meta['cpl'] == 0 else '') + ('/lowpass_set' if fam == 'lp' else '')
            G['modes'][mk] = G['modes'].get(mk, 0) + 1
            if bs[0] != bs[1]:
                G['blk_two_sizes'] += 1
                m = re.match(r'L(\d+)/S(\d+)', list(r['blk'])[0]) if r['blk'] else None
                if m and int(m.group(1)) >= 3 and int(m.group(2)) >= 1:
                    G['blk_both'] += 1
            x = r['lpr']
            if x is not None:
                if x == 1.0:
                    G['exact'] += 1
                elif x < 1.0 and (G['below'] is None or 1.0 - x < G['below'][0]):
                    G['below'] = (1.0 - x, c)
                elif x > 1.0 and (G['above'] is None or x - 1.0 < G['above'][0]):
                    G['above'] = (x - 1.0, c)
                if 0.98 < x < 1.0:
                    G['near'][(fam, tl)] = G['near'].get((fam, tl), 0) + 1

    def run_geometry():
        # thorough: at most 7 minutes of the budget and never into the last 8 (the quick members run regardless)
        return phase('geometry', [l for l, m in geom], [m for l, m in geom], 'c15l', reserve=max(480, chk.deadline - (time.time() + 420)), absorber=absorb_geom,
                     always=len(geom) if tier == 'quick' else geom_always, step=len(geom) if tier == 'quick' else None)   # quick: one chunk (no barrier between chunks)

    if tier != 'quick':
        geom_pos = run_geometry()      # thorough: the quick members always, the rest within the time slice
    # ------------------------------------------------------------------ 4. ctl histories
    states = {}      # (base, hash) -> (len, split, ops tuple, r2)
    nhist = 0

    def ctl_cases(base, L, splits):
        out = []
        for (a, b, c) in splits:
            if L == 0:
                out.append('C %d 0 0 0 0 0' % base)
            else:
                for o in range(A):
                    out.append('C %d %d %d %d 0 1 %d' % (base, a, b, c, o))
        return out

    def absorb_ctl(cases, results, plns):
        nonlocal nhist
        absorb('ctl', cases, results, plns)
        for c, r in zip(cases, results):
            if r is None:
                continue
            f = c.split(' ')
            base, split = int(f[1]), (int(f[2]), int(f[3]), int(f[4]))
            nhist += r['n']
            for k in r['st']:
                h, r2, seq = k.split(':')
                opsq = tuple(int(x) for x in seq.split('.') if x != '')
                key = (base, h)
                cand = (len(opsq), split, opsq, int(r2))
                if key not in states or cand < states[key]:
                    states[key] = cand

    cases = []
    for base in range(len(bases)):
        for L in range(0, 3):
            cases += ctl_cases(base, L, SPLITS[L])
    if tier == 'quick':
        for base in (0, 1):          # depth 3 on two bases, in the placement where requests take effect
            cases += ctl_cases(base, 3, [(0, 3, 0)])
    phase('ctl', cases, [(0, 0)] * len(cases), 'c15c', absorber=absorb_ctl, always=len(cases))

    # ------------------------------------------------------------------ 4b. deprecated (v1) requests RATEMANAGE_SET / _AVG / _HARD, one struct member at a time at a boundary value
    # (executor table ops_v1), issued between setup_* and setup_init; every set-up that setup_init accepts goes through the encode stage (0.75 s of audio for managed set-ups)
    V1 = {'cases': 0, 'encoded': 0, 'init_ok': 0}
    v1_bases = (1, 8) if tier == 'quick' else (1, 8, 0, 3, 9)

    def absorb_v1(cases, results, plns):
        absorb('ctl', cases, results, plns)
        for r in results:
            if r is not None:
                V1['cases'] += r['n']
                V1['encoded'] += sum(v for k, v in r['enc'].items() if k.endswith('/packets'))
                V1['init_ok'] += sum(v for k, v in r['cls'].items() if '|I0|' in k)

    v1_cases = ['C %d 0 1 0 1 1 %d' % (b, A + i) for b in v1_bases for i in range(len(T['ops_v1']))]
    phase('ctl_v1', v1_cases, [(2, 1100)] * len(v1_cases), 'c15v', absorber=absorb_v1, always=len(v1_cases), step=len(v1_cases))
    # ------------------------------------------------------------------ 5. encode once from every distinct final state (histories of <= 2 requests)
    encoded = set()
    states_encoded = 0

    def encode_states(name, pred, reserve, always):
        nonlocal states_encoded
        order = sorted(((k, v) for k, v in states.items() if v[3] == 0 and k not in encoded and pred(k, v)), key=lambda kv: (kv[1][0], kv[0][0], kv[1][1], kv[1][2]))
        st_cases = ['C %d %d %d %d 1 %d %s' % (base, a, b, c, L, ' '.join(str(o) for o in opsq)) for (base, h), (L, (a, b, c), opsq, r2) in order]
        done = phase(name, st_cases, [(2, 1100)] * len(st_cases), 'c15s', reserve=reserve, always=always, absorber=lambda ch_, res_, cp_: absorb('ctl', ch_, res_, cp_))
        for k, v in order[:done]:
            encoded.add(k)
        states_encoded += done

    if tier == 'quick':
        encode_states('state_encodes', lambda k, v: v[0] <= 1 or (v[0] == 2 and k[0] in (0, 1, 3, 8)), 10, 512)
        geom_pos = run_geometry()      # quick: every member, regardless of the deadline; last, so that the deadline-bounded phase above keeps its time
    else:
        encode_states('state_encodes', lambda k, v: v[0] <= 2, 420, 512)
    depth3_done = []
    if tier == 'thorough':
        # -------------------------------------------------------------- 6. analysis_init + headerout + headerin on every remaining channel count / path
        cases, plns = [], []
        for path in (0, 1):
            for ch in range(-1, 301):
                if ch not in pl1_paths[path]:
                    cases.append('G %d %d -1 -1 1 0' % (path, ch))
                    plns.append((1, 0))
        done = phase('vbr_pl1_all', cases, plns, 'c15g2', reserve=300)
        pl1_all = done == len(cases)
        # -------------------------------------------------------------- 7. depth-3 ctl histories, every split, per base
        for base in range(len(bases)):
            if time.time() > chk.deadline - 180:
                exhaustive = False
                notes.append('deadline: depth-3 ctl histories not run for bases %s' % list(range(base, len(bases))))
                break
            cases = ctl_cases(base, 3, SPLITS[3])
            if phase('ctl_depth3', cases, [(0, 0)] * len(cases), 'c15c3', absorber=absorb_ctl, reserve=60) == len(cases):
                depth3_done.append(base)
        # -------------------------------------------------------------- 8. encode from the states only reachable with 3 requests, until the deadline
        encode_states('state_encodes_depth3', lambda k, v: True, 30, 0)
    order = [k for k, v in states.items() if v[3] == 0]
    maxL = 2 if tier == 'quick' else 3

    # ------------------------------------------------------------------ judge
    # crashes (sanitizer reports), grouped by crash site x call path
    groups = {}
    for case, ordn, desc, err in R.crashes:
        site = crash_site(err) if err.startswith('DIED') else 'executor:' + err[:40]
        cp = callpath(desc) if desc else 'unattributed'
        if cp.startswith('ctl:'):
            cp = 'ctl'
        groups.setdefault((site, cp), []).append((desc, case, err))
    for (site, cp), lst in sorted(groups.items()):
        lst.sort(key=lambda x: (len(x[0]), x[0]))
        desc, case, err = lst[0]
        f = case.split(' ')
        if f[0] == 'S':
            pl, ns = (int(f[6]), int(f[7])) if f[1] == '0' else (int(f[8]), int(f[9]))
        elif f[0] == 'L':
            pl, ns = 100, 0
        elif f[0] == 'B':
            pl, ns = int(f[4]), int(f[5])
        elif f[0] == 'W':
            pl, ns = 2, int(f[5])
        else:
            pl = int(f[5]) if f[0] in 'GM' else (2 if f[5] == '1' else 0)
            ns = int(f[6]) if f[0] in 'GM' else 1100
        rc = desc_to_case(desc, T, pl, ns) if desc else case
        key = 'sanitizer:%s:%s' % (site, cp)
        if '_vp_psy_init' in site and 'index_17_out_of_bounds' in site:
            key = 'asan:psy_init_noiseoff_oob'       # fixed in /repo by 09189a4; a regression is reported under the recorded key
        chk.violation(key, '%d tuples die with a sanitizer report at %s (call path %s); first: %s; examples: %s' % (len(lst), site, cp, desc, [x[0] for x in lst[1:4]]),
                      {'case': rc, 'stderr_tail': err[-1500:]})
    for key, text, rp in life_viol:
        chk.violation(key, text, rp)
    for case, ordn, desc in R.timeouts:
        chk.violation('watchdog:%s' % ((callpath(desc) if not desc.startswith('ctl') else 'ctl') if desc else 'unattributed'), 'CPU watchdog expired in %s (tuple %s)' % (case, desc), {'case': desc_to_case(desc, T) if desc else case})
    bgroups = {}
    for kind, desc, pl, ns in bads:
        cp = callpath(desc)
        if cp.startswith('ctl:'):
            cp = 'ctl'
        bgroups.setdefault((kind, cp), []).append((desc, pl, ns))
    for (kind, cp), lst in sorted(bgroups.items()):
        lst.sort(key=lambda x: (len(x[0]), x[0]))
        desc, pl, ns = lst[0]
        try:
            rcase = desc_to_case(desc, T, pl, ns)
        except Exception:
            rcase = desc
        chk.violation('%s:%s' % (kind, cp), '%d tuples: %s on call path %s; first: %s; examples: %s' % (len(lst), kind, cp, desc, [x[0] for x in lst[1:4]]),
                      {'case': rcase})
    if R.rebuilt:
        notes.append('the executor vanished %d time(s) during the run (shared build directory rebuilt by another check) and was rebuilt from the then-current tree' % R.rebuilt)
    if R.incomplete:
        exhaustive = False
        notes.append('%d case lines not completed (more than 3 dying tuples, or unattributed death): %s' % (len(R.incomplete), R.incomplete[:5]))

    # ------------------------------------------------------------------ coverage facts
    succ_pairs = set()
    for k in succ:
        ch, mode, tl = k.split('/')
        succ_pairs.add((int(ch), tl))
    enc_by = {}
    for (phase, ch, k), v in enc.items():
        enc_by[(phase, ch, k)] = v
    codes_seen = set()
    for s in fn_codes.values():
        codes_seen |= s
    ctl_codes = {}
    for (phase, k), v in cls_all.items():
        if phase == 'ctl':
            for m in re.finditer(r'([0-9a-f]+):(-?\d+)\+', k):
                ctl_codes.setdefault(m.group(1), set()).add(int(m.group(2)))
    set_after_init_einval = sum(v for (phase, k), v in cls_all.items() if phase == 'ctl' and re.search(r'\|I0\|.*\b(15|21|31|41|11|12|13):-131\+', k))
    get_after_init_ok = sum(v for (phase, k), v in cls_all.items() if phase == 'ctl' and re.search(r'\|I0\|.*\b(10|20|30|40):0\+', k))
    leak_classes = {}
    for k, v in leaks.items():
        c = k.split(':vbr:')[0].split(':managed:')[0].split(':ctl:')[0]
        e = leak_classes.setdefault('leak:' + c, {'tuples': 0, 'bytes': set(), 'example': k})
        e['tuples'] += 1
        e['bytes'].add(v)
    for e in leak_classes.values():
        e['bytes'] = sorted(e['bytes'])[:6]
    sig_managed = {k: v for (p, k), v in cls_all.items() if p == 'signals' and k.startswith('M:') and ':0:' in k and not k.endswith(':-')}
    distinct = len([1 for (phase, k) in cls_all if k != 'SKIPPED'])
    chk.cov.update({
        'distinct_nontrivial': distinct,
        'rule': 'distinct outcome classes = (call path [init_vbr | setup_vbr+setup_init | init | setup_managed+setup_init | ctl history], return code of every call, '
                'template chosen (coupling restriction + rate band) or none); ctl histories: (request number:return code)* with the positions of setup_* and setup_init',
        'exhaustive': exhaustive,
        'setups_executed': nsetups, 'ctl_histories': nhist, 'ctl_alphabet': A, 'ctl_bases': len(bases), 'ctl_max_depth': maxL if tier == 'thorough' else '2 (+ depth 3 between setup_* and setup_init on bases 0,1)',
        'ctl_depth3_all_splits_bases': depth3_done,
        'distinct_final_states': len(states), 'distinct_final_states_with_successful_init': len(order), 'states_encoded_from': states_encoded,
        'vbr_grid': '%d channel counts x %d rates x %d qualities x 2 call paths' % (302, len(rates), NQ),
        'vbr_analysis_init_headerout_headerin_on_channels': ('all -1..300, both paths' if (tier == 'thorough' and pl1_all) else 'path init_vbr: %d channel counts (boundaries + every 7th); three-step path: 1,2,6,255' % len(pl1)),
        'managed_grid': '%d channel counts x 8 rates x 343 triples {-1,0,1,8000,64000,256000,2^31-1}^3 x 2 call paths, each success encoded' % len(mch),
        'successful_channel_template_pairs': len(succ_pairs),
        'return_codes_by_function': {k: sorted(v) for k, v in sorted(fn_codes.items())},
        'ctl_return_codes_by_request_hex': {k: sorted(v) for k, v in sorted(ctl_codes.items())},
        'signal_phase': {'signals': T['signals'], 'template_classes_requested': sig_classes, 'samples_per_encode': '4097' if tier == 'quick' else '4097 and 20000',
                         'encodes_by_signal': {T['signals'][int(k.split('/')[0][2:]) - 10] + '/' + k.split('/')[2]: sum(v for (p, c, kk), v in enc_by.items() if p == 'signals' and kk == k)
                                               for k in sorted({kk for (p, c, kk) in enc_by if p == 'signals'})}},
        'encodes': {'%s/ch%s/%s' % k: v for k, v in sorted(enc_by.items()) if k[1] in ('255', '6', '2', 'b0', 'b1', 'b7')},
        'geometry_family': {
            'what': 'set-up arithmetic rate/quality/lowpass -> floor n, residue begin/end, psy tables; every member: set-up [+COUPLING_SET 0] [+LOWPASS_SET] + setup_init, analysis_init, headerout, '
                    'headerin, encode of 3*blocksizes[1] samples of broadband noise with one 52 dB step, flush',
            'grids': {'lowpass_sweep': '%d channel counts x %d rates (one or two per template band) x {VBR, managed} x {as set up, OV_ECTL_COUPLING_SET 0} x lowpass/Nyquist in %d values (full sweep; %d on the coarse one) '
                                       '+ both neighbours of exactly Nyquist + %d absolute kHz values at the 2 / 99 kHz clamps'
                                       % (((5, 10) if tier == 'quick' else (7, 11)) + (len(c15_geom.lp_fractions(True, tier)), len(c15_geom.lp_fractions(False, tier)), len(c15_geom.lp_absolute(True, tier)))),
                      'rate_sweep': 'channels 1,2,6 x %d rates (8000..200000 step %d, +-1 around %s) x %s' % (len(c15_geom.sweep_rates(tier)), 500 if tier == 'quick' else 100, c15_geom.BOUNDARIES,
                                                                                                             '3 qualities' if tier == 'quick' else '5 qualities + managed'),
                      'quality_sweep': '6ch/44100, 6ch/48000, 2ch/44100 x %d qualities -0.1..1.0 (%s)' % (len(c15_geom.sweep_quals(tier)), 'step 0.005; 0.0005 in [0.45,0.55] and +-0.002 around every tenth' if tier == 'quick'
                                                                                                        else 'step 0.001; 0.0001 in [0.45,0.55] and +-0.003 around every tenth')},
            'case_lines': len(geom), 'case_lines_run': geom_pos, 'cases_by_subfamily': G['cases'], 'encoded_with_packets_by_subfamily': G['encoded'], 'refused_by_setup_by_subfamily': G['refused'],
            'encoded_by_mode': G['modes'],
            'OV_ECTL_COUPLING_SET_0_return_codes(observation: on managed set-ups the request is refused with OV_EIMPL, a documented code; the set-up then proceeds on the unchanged template)': G['cpl_rc'],
            'distinct_geometries(template,blocksizes,floor_n,residue type.grouping.begin-end)': len(G['geo']),
            'distinct_geometries(template,blocksizes,residue ends)': len({c15_geom.geometry_key(g) for g in G['geo']}),
            'distinct_templates_encoded': len({g.split('/')[0] for g in G['geo']}),
            'two_blocksize_encodes': G['blk_two_sizes'], 'of_which_with_>=3_long_and_>=1_short_blocks': G['blk_both'],
            'smallest_nonzero_1-lowpass/Nyquist_encoded': [G['below'][0], G['below'][1]] if G['below'] else None,
            'smallest_nonzero_lowpass/Nyquist-1_encoded': [G['above'][0], G['above'][1]] if G['above'] else None,
            'encodes_with_lowpass_exactly_Nyquist': G['exact'],
            'encodes_with_lowpass/Nyquist_in_(0.98,1)_by_subfamily_and_template': {'%s/%s' % k: v for k, v in sorted(G['near'].items())},
            'geometry_samples': [[g, c] for g, c in sorted(G['geo'].items())[::max(1, len(G['geo']) // 6)]][:6],
        },
        'deprecated_request_boundaries': dict(V1, bases=[bases[b] for b in v1_bases], requests=len(T['ops_v1']),
                                              what='OV_ECTL_RATEMANAGE_SET/_AVG/_HARD with the typical struct and one member at a boundary: longs {-1,0,1,LONG_MAX}, doubles {-1e300,-2,-0.001,0,1e-300,1e300,NaN,+-inf}; '
                                                   'setup_* + request + setup_init + encode stage'),
        'submission_axis': {'templates(managed ch rate q|nominal)': SUB_TEMPLATES, 'total_samples': SUB_TOTALS, 'pieces': 'whole signal in one vorbis_analysis_buffer/_wrote call; 1024- and 64-sample pieces, all submitted and the stream closed before the first vorbis_analysis_blockout',
                            'cases': len(sub_cases)},
        'scaling_family': SC.coverage(tier, T, len(sc_cases), sc_done),
        'lifecycle_family': dict(LIFE, what='every legal call sequence of 1..depth calls over two encoder slots on one successfully set-up vorbis_info; calls per slot: A analysis_init, B block_init, '
                                            'H headerout, E one chunk of audio (buffer/wrote + blockout/analysis/addblock/flushpacket until dry), F end of stream, C block_clear + dsp_clear; vorbis_info_clear '
                                            'twice at the end; first call on slot 1 (the slots are interchangeable); each encoder lifetime compared packet by packet with a solo run of the same calls',
                                 configurations=life_cfgs),
        'leak_observations(C13, not judged here)': leak_classes,
        'phase_wall_s': walls,
        'phase_executor_cpu_s': cpus,
        'notes': notes,
        'samples': [{'class': k, 'phase': p, 'count': v} for (p, k), v in sorted(cls_all.items())[::max(1, len(cls_all) // 10)]][:12],
    })
    chk.assumptions += [
        'OV_EFAULT is documented for the set-up calls but no code path of lib/vorbisenc.c returns it; it is accepted, not required',
        'vorbis_encode_ctl before vorbis_encode_setup_* is outside the documented order ("must be called after"); such histories are executed and judged on memory safety and documented codes only',
        'after setup_init: *_SET / RATEMANAGE_AVG / RATEMANAGE_HARD must return OV_EINVAL and leave every GET result and the public vorbis_info fields unchanged; undefined request numbers may return OV_EINVAL or OV_EIMPL; '
        'GET requests are not required to succeed after setup_init (OV_ECTL_RATEMANAGE2_GET=0x14 has a non-zero low nibble and returns OV_EINVAL there)',
        'NULL arguments are only issued where the header documents them (OV_ECTL_RATEMANAGE2_SET)',
        'after a successful set-up vorbis_analysis_init, vorbis_analysis_headerout, vorbis_analysis(_wrote/_blockout), vorbis_bitrate_addblock/flushpacket and vorbis_synthesis_headerin of the produced headers are required to return success '
        'and the headers must carry the requested channels and rate',
        'managed set-ups whose hard minimum would pad every packet beyond 64 KiB are set up and header-checked but not encoded (libogg buffer growth is quadratic there); counted as bigpad_not_encoded',
        'leaks are recorded under leak:* for C13 and never judged here',
        'geometry family: OV_ECTL_LOWPASS_SET / OV_ECTL_COUPLING_SET are only issued after a successful setup_* and before setup_init (documented order); any finite lowpass value is a legal argument '
        '(the request clamps to 2..99 kHz); a request may return 0, OV_EINVAL or OV_EIMPL and the set-up that follows must still be memory-safe through the whole encode stage',
        'the three-step path does not promise a cleared vorbis_info on failure; only vorbis_info_clear (twice) being safe is required there',
        'one-step calls: "cleared on failure" is read as the effect of vorbis_info_clear: the struct is all-zero AND the set-up storage allocated by vorbis_info_init / the call has been released '
        '(live bytes of the wrapped allocator back to the level before vorbis_info_init); which stage refused a one-step call is found by running the two-step calls on a second vorbis_info and is '
        'only used to count coverage, never judged (the header does not promise equal codes)',
        'scaling family: channel counts and bitrates outside any sensible range are legal ARGUMENTS (long) that must be refused or accepted cleanly; channel counts that do not fit an int are not issued',
        'lifecycle family: a successfully set-up vorbis_info is shared read-only configuration: vorbis_analysis_init takes it by pointer and several dsp states may be created from it and used alternately '
        'from one thread, or one after another; vorbis_info_clear only after every dsp state was cleared; vorbis_block_clear before the vorbis_dsp_clear of its dsp state. vorbis_analysis_headerout is issued '
        'at most once per encoder and before its first audio; audio may be submitted without having asked for the headers. vorbis_synthesis_init on an encoder-side vorbis_info is not documented and not issued. '
        'Encoder output is required to be a function of the set-up and of the calls made on that encoder only',
    ]
    if not chk.violations:
        for fn in ('init_vbr', 'setup_vbr', 'init', 'setup_managed'):
            chk.guard({0, OV_EINVAL, OV_EIMPL} <= fn_codes.get(fn, set()), 'vorbis_encode_%s returned each of 0, OV_EINVAL, OV_EIMPL' % fn)
        chk.guard({0, OV_EINVAL} <= fn_codes.get('setup_init', set()), 'vorbis_encode_setup_init returned 0 and OV_EINVAL')
        allctl = set()
        for s in ctl_codes.values():
            allctl |= s
        chk.guard({0, OV_EINVAL, OV_EIMPL} <= allctl, 'vorbis_encode_ctl returned each of 0, OV_EINVAL, OV_EIMPL')
        chk.guard(len(succ_pairs) >= 30, 'at least 30 distinct successful (channels, template band) set-ups (%d)' % len(succ_pairs))
        chk.guard(any(k.startswith('255/V/') for k in succ) and enc_by.get(('enc', '255', 'pl2/ns4097/packets'), 0) > 0, '255-channel set-up encoded 4097 samples and produced packets')
        chk.guard(any('/M/' in k for k in succ) and any('/V/' in k for k in succ), 'managed and VBR set-ups both succeeded')
        chk.guard(any(p == 'managed' and k.endswith('/packets') for (p, c, k) in enc_by), 'a managed set-up was encoded and produced packets')
        nsig = len(T['signals'])
        sig_ok = {i: sum(v for (p, c, k), v in enc_by.items() if p == 'signals' and k.startswith('pl%d/' % (10 + i)) and k.endswith('/packets')) for i in range(nsig)}
        chk.guard(all(sig_ok[i] >= 60 for i in range(nsig)), 'every signal of the alphabet was encoded (with packets) from >= 60 successfully set-up template classes: %s' % sig_ok)
        chk.guard(any(v for (kk, v) in sig_managed.items()), 'the signal alphabet was encoded from managed set-ups as well')
        chk.guard(all(any(p == 'enc' and k.startswith('pl2/ns%d/' % ns) for (p, c, k) in enc_by) for ns in ENC_NS) and any(p == 'enc' and k == 'pl2/ns4097/packets' for (p, c, k) in enc_by), 'encodes of 0, 1 and 4097 samples ran')
        chk.guard(set_after_init_einval > 0 and get_after_init_ok > 0, 'set requests after setup_init were refused and get requests answered')
        near51 = {fam: sum(v for (f_, tl), v in G['near'].items() if f_ == fam and tl.startswith('c6_')) for fam in ('lp', 'rate', 'q')}
        chk.guard(near51['lp'] >= 150, 'geometry: >= 150 lowpass-sweep cases on the 6-channel (5.1) template with lowpass/Nyquist in (0.98,1.0) went through the encode stage (%d)' % near51['lp'])
        chk.guard(near51['rate'] >= 1 and near51['q'] >= 2, 'geometry: the rate sweep and the quality sweep (no request) each reached the 5.1 template with table lowpass/Nyquist in (0.98,1.0) and encoded (%s)' % near51)
        near_t = {tl for (f_, tl), v in G['near'].items() if f_ == 'lp' and v >= 10}
        chk.guard(len(near_t) >= c15_geom.NTEMPLATES, 'geometry: every one of the %d set-up templates was encoded from with >= 10 lowpass values in (0.98,1.0) of Nyquist (%d)' % (c15_geom.NTEMPLATES, len(near_t)))
        chk.guard(G['exact'] >= 50 and G['below'] is not None and G['below'][0] < 1e-8 and G['above'] is not None and G['above'][0] < 1e-8,
                  'geometry: lowpass exactly at Nyquist and within 1e-8 of it on both sides was encoded')
        chk.guard(G['blk_two_sizes'] >= 1000 and G['blk_both'] * 10 >= G['blk_two_sizes'] * 9, 'geometry: >= 90%% of the encodes with two block sizes had >= 3 long and >= 1 short block (%d of %d)' % (G['blk_both'], G['blk_two_sizes']))
        chk.guard(all(G['encoded'].get(fam, 0) >= n for fam, n in (('lp', 3000), ('rate', 3000), ('q', 1200))), 'geometry: encodes per sub-family lowpass >= 3000, rate >= 3000, quality >= 1200 (%s)' % G['encoded'])
        chk.guard(all(G['modes'].get(m, 0) >= 100 for m in ('vbr/lowpass_set', 'managed/lowpass_set', 'vbr/coupling_off/lowpass_set', 'managed/coupling_off/lowpass_set')),
                  'geometry: the lowpass sweep encoded >= 100 cases in each of VBR / managed x {as set up, OV_ECTL_COUPLING_SET 0 requested} (%s)' % G['modes'])
        chk.guard(len(order) >= 20 and states_encoded >= 20, 'at least 20 distinct post-ctl set-up states were encoded from')
        chk.guard(V1['cases'] == len(v1_cases) and V1['init_ok'] >= V1['cases'] * 9 // 10 and V1['encoded'] >= V1['init_ok'] * 9 // 10,
                  'deprecated requests: every boundary variant was issued, >= 90%% of the set-ups were accepted by setup_init and >= 90%% of those encoded with packets (%s)' % V1)
        sub_ok = {tot: sum(v for (p_, c_, k), v in enc_by.items() if p_ == 'submit' and k == 'pl2/ns%d/packets' % tot) for tot in SUB_TOTALS}
        chk.guard(all(v == 3 * len(SUB_TEMPLATES) for v in sub_ok.values()), 'submission axis: every template x total x {one piece, 1024-sample pieces, 64-sample pieces all submitted before the first blockout} was encoded with packets (%s)' % sub_ok)
        vbr_stage2 = sum(v for (p_, k), v in cls_all.items() if p_ == 'vbr' and re.match(r'^V:init_vbr:-\d+:probe_setup_vbr:0:probe_setup_init:-\d+:', k))
        SC.guards(chk, tier, vbr_stage2, enc_by)
        chk.guard(LIFE['executed'] == LIFE['case_lines'] and LIFE['executed'] >= 5000, 'lifecycle: every generated sequence was executed (%d of %d)' % (LIFE['executed'], LIFE['case_lines']))
        chk.guard(LIFE['two_encoders_alive'] >= 4000 and LIFE['sequences_encoding_after_peer_cleared'] >= 300,
                  'lifecycle: >= 4000 sequences had two encoders alive on one info, and in >= 300 one of them produced packets after the other had been cleared (%d / %d)'
                  % (LIFE['two_encoders_alive'], LIFE['sequences_encoding_after_peer_cleared']))
        chk.guard(LIFE['reuse_lifetimes_with_packets'] >= 100, 'lifecycle: >= 100 encoder lifetimes started after an earlier encoder on the same info had been cleared, and produced packets (%d)' % LIFE['reuse_lifetimes_with_packets'])
        chk.guard(LIFE['packets_compared_with_solo'] >= 20000, 'lifecycle: >= 20000 packets were compared with the solo reference (%d)' % LIFE['packets_compared_with_solo'])
    return chk.finish()


def replay(path):
    r = json.load(open(path))
    vlib.build('asan')
    if 'life_case' in r['replay']:
        out = vlib.run_cases(vlib.harness('asan', 'c15_life'), [r['replay']['life_case']], ['--timeout', '300'], jobs=1, tag='c15r')
        o = out[0] or 'NOOUTPUT'
        print(o[:3000])
        return 0 if o.startswith('ok') and not c15_life.parse(o)['bad'] else 1
    exe = vlib.harness('asan', 'c15_setup')
    out = vlib.run_cases(exe, [r['replay']['case']], ['--timeout', '300'], jobs=1, tag='c15r')
    o = out[0] or 'NOOUTPUT'
    print(o[:3000])
    if not o.startswith('ok'):
        return 1
    d = parse(o)
    return 1 if d['bad'] else 0
