"""C10: decoded audio does not depend on how the bytes are delivered.

Deviation-bounded environment enumeration (DEV): the default answer of the read callback is "everything that was asked
for"; deviations are a uniform cap on every answer and cuts (a read that would cross absolute offset b stops at b).
Enumerated completely (no sampling):
  * every uniform cap c in 1..2048 and {4096, 65536}
  * every 1-cut schedule (every byte offset strictly inside the file)
  * 2-cut pairs: quick = all pairs inside declared windows (BOS page + start of the header page; the end of the header
    page + a whole audio page; a window around a link boundary of each chain); thorough = ALL pairs of the smallest file
  * request-length schedules (ov_read_float: constants 1,2,3,63,64,65,4096, alternating 1/4096, ramps 1..k..1;
    ov_read: 1 frame, 3 frames, 7 bytes (not frame aligned), 4096 bytes;
    ov_read_filter with a stateless gain-0.5 filter and with an identity filter: 64 bytes, 1 frame, 1000, 4096, alternating 64/4096 and 4/1000) x delivery sets (quick: chosen cap set and all
    1-cuts of the smallest file and around the link boundaries; thorough: full product with all caps and all 1-cuts of every file)
  * the `initial`/`ibytes` hand-over of ov_open_callbacks (first k bytes already read by the caller, source positioned after
    them): k over a boundary set (1, 4, 27, 28, first page +-1, header end +-1, first audio pages, 2 KiB/4 KiB/64 KiB +-1, link
    boundaries, whole file) on every file x path x caps/request schedules/apis, EVERY k on the small files, and k x every 1-cut
  * x access path: vorbisfile seekable / vorbisfile streaming (seek_func NULL) / packet API via a raw libogg loop.
Oracle: per link bit-identical floats to the packet-API decode with full reads, link order, channel count/rate, no
negative return (no hole / rejected packet on the packet path), ov_read integer bytes identical across schedules."""
import os, sys, json, time, random
import vlib, zoo

PID = 'C10'
HARNESS = 'c10_deliver'
CAPS_ALL = list(range(1, 2049)) + [4096, 65536]
CAPS_SMALL = [0, 1, 2, 3, 5, 17, 64, 255, 256, 257, 1000, 2047, 2048, 4096]
REQ_F = ['c1', 'c2', 'c3', 'c63', 'c64', 'c65', 'c4096', 'a1,4096', 'r5', 'r70', 'r600']
REQ_I = ['F1', 'F3', 'b7', 'b4096']          # F<k>: k frames of the widest link; b7: not a multiple of the frame size
# ov_read_filter (api g: stateless gain 0.5, api k: identity; both check their input against the reference and count frames)
REQ_G = ['b64', 'F1', 'b1000', 'b4096', 'a64,4096', 'a4,1000']
REQ_G_ROWS_QUICK = ['b64', 'F1', 'a64,4096']   # quick: subset used in the (request schedule x every 1-cut) rows, api g only
API_NAME = {'f': 'ov_read_float', 'i': 'ov_read', 'g': 'ov_read_filter(gain 0.5)', 'k': 'ov_read_filter(identity)'}
PATHS = ['s', 'n', 'p']
ROWCHUNK = 256


def combos(rows_quick=False):
    """(path, api, req) combinations of access path and request-length schedule"""
    out = [(p, 'f', r) for p in PATHS for r in REQ_F]
    out += [(p, 'i', r) for p in ('s', 'n') for r in REQ_I]
    if rows_quick:
        out += [(p, 'g', r) for p in ('s', 'n') for r in REQ_G_ROWS_QUICK]
    else:
        out += [(p, a, r) for p in ('s', 'n') for a in ('g', 'k') for r in REQ_G]
    return out


def workdir():
    """private directory under the build tree: bin/build.sh wipes <build>/zoo and <build>/<flavour>/bin whenever any flavour is
    rebuilt (other checks run concurrently), so the files and the executor of a running C10 check live here instead"""
    d = os.path.join(vlib.BUILD, 'c10')
    os.makedirs(d, exist_ok=True)
    return d


def private_exe():
    exe = vlib.harness('plain', HARNESS)
    data = open(exe, 'rb').read()
    path = atomic_write(HARNESS + '.' + (vlib._key or 'x'), data)
    os.chmod(path, 0o755)
    return path


def atomic_write(name, data):
    path = os.path.join(workdir(), name)
    if os.path.exists(path) and open(path, 'rb').read() == data:
        return path
    tmp = path + '.%d.tmp' % os.getpid()
    with open(tmp, 'wb') as f:
        f.write(data)
    os.replace(tmp, path)
    return path


def make_files():
    """name -> dict(path, links=[meta], data, pages). F1/F2 are byte-identical to zoo.standard_files() F1/F2 (same link recipes),
    written under c10_ names atomically because other checks rewrite F1.ogg/F2.ogg concurrently."""
    recipe = {
        'F1': [zoo.link('A', 1, 'natural')],
        'S2': [vlib.mkzoo('c10_S2a', rate=8000, ch=1, n=500, q=0.3, sig='mix', serial=78, pages='2', tag='S2a'),
               vlib.mkzoo('c10_S2b', rate=11025, ch=2, n=400, q=0.2, sig='sine', serial=79, pages='flush', tag='S2b')],
        'F2': [zoo.link('A', 100, '3'), zoo.link('B', 101, 'flush'), zoo.link('C', 102, '2')],
        'S': [vlib.mkzoo('c10_S', rate=8000, ch=1, n=600, q=0.3, sig='mix', serial=77, pages='flush', tag='S')],
        # > 64 KiB: the seekable open hops back CHUNKSIZE and has to hunt for a page boundary in the middle of the file
        'BIG': [vlib.mkzoo('c10_BIG', rate=44100, ch=2, n=110000, q=0.7, sig='noise', serial=90, pages='natural', tag='BIG')],
    }
    # chains whose links carry serial numbers with bit 31 set (the library stores serials sign-extended in longs):
    # first / middle / last / all links; 0x80000000, 0x9abcdef1, 0xffffffff
    def hl(pos, serial):
        s32 = serial - (1 << 32) if serial >= (1 << 31) else serial        # mkzoo parses a signed long; libogg keeps the low 32 bits
        kw = [dict(rate=8000, ch=1, n=400, q=0.3, sig='mix', pages='2'), dict(rate=11025, ch=2, n=300, q=0.2, sig='sine', pages='flush'),
              dict(rate=8000, ch=1, n=350, q=0.3, sig='sine', pages='natural')][pos]
        return vlib.mkzoo('c10_H%d_%08x' % (pos, serial), serial=s32, tag='H%d' % pos, **kw)
    HI = (0x80000000, 0x9abcdef1, 0xffffffff)
    recipe['Hfirst'] = [hl(0, HI[1]), hl(1, 201), hl(2, 202)]
    recipe['Hmid'] = [hl(0, 200), hl(1, HI[0]), hl(2, 202)]
    recipe['Hlast'] = [hl(0, 200), hl(1, 201), hl(2, HI[2])]
    recipe['Hall'] = [hl(0, HI[0]), hl(1, HI[1]), hl(2, HI[2])]
    # streams with a huge comment header (embedded cover art): LC20 has a ~22 KB header page, LC70 a maximal 65307-byte page
    # followed by a continued page; a page then needs tens of thousands of 1-byte answers of the read callback
    alphabet = 'ABCDEFGHIJKLMNOPQRSTUVWXYZabcdefghijklmnopqrstuvwxyz0123456789+/'
    def longtag(n):
        return ''.join(alphabet[(i * 7 + i // 61 + (i * i) // 4099) % 64] for i in range(n))
    recipe['LC20'] = [vlib.mkzoo('c10_LC20', rate=8000, ch=1, n=600, q=0.3, sig='mix', serial=81, pages='flush', tag=longtag(20000))]
    recipe['LC70'] = [vlib.mkzoo('c10_LC70', rate=8000, ch=1, n=600, q=0.3, sig='mix', serial=82, pages='flush', tag=longtag(70000))]
    # header-size ladder beyond two maximal pages (comment + setup span 3..7 pages; round-7 seed C10r7-2: header section bounded to CHUNKSIZE), alone and
    # as the SECOND link of a chain (streaming mode meets the big header at a link boundary)
    for size in (131000, 140000, 200000, 400000):
        recipe['LC%d' % (size // 1000)] = [zoo.big_comment('A', 83 + size // 100000, size)]
    recipe['LCC'] = [zoo.link('A', 95, '3'), zoo.big_comment('A', 96, 140000)]
    # multiplexed links whose whole audio sits in one page behind a foreign page (defect repaired by fix b18ba1d: seekable mode delivered nothing)
    recipe['XD'] = [zoo.multiplexed('D', 97, 'natural', fserial=9700)]
    recipe['XA'] = [zoo.link('D', 98, 'natural'), zoo.multiplexed('A', 99, 'natural', fserial=9701)]
    out = {}
    for name, links in recipe.items():
        data = b''.join(open(p, 'rb').read() for p, _ in links)
        path = atomic_write('c10_%s.ogg' % name, data)
        pages = vlib.parse_pages(data)
        bounds = []
        off = 0
        for p, m in links:
            bounds.append(off)
            off += m['bytes']
        assert off == len(data)
        out[name] = {'path': path, 'links': [m for _, m in links], 'data': data, 'pages': pages, 'len': len(data), 'bounds': bounds,
                     'truth': '/'.join('%d:%d:%d' % (m['ch'], m['rate'], m['n']) for _, m in links), 'total': sum(m['n'] for _, m in links)}
    return out


def fixed_args(files):
    a = []
    for name, f in files.items():
        a += ['--file', name, f['path'], f['truth']]
    return a


def parse(r):
    """executor line -> (status, fields)"""
    if r is None:
        return 'NOOUTPUT', {}
    sp = r.split(' ')
    st = sp[0]
    if st in ('DIED', 'TIMEOUT', 'BADCASE'):
        return st, {'raw': r[:300]}
    fl = {}
    for t in sp[1:]:
        if '=' in t:
            k, v = t.split('=', 1)
            fl[k] = v
    return st, fl


def neg_list(fl):
    v = fl.get('neg', '0')
    if ':' not in v:
        return int(v or 0), []
    n, rest = v.split(':', 1)
    items = []
    for it in rest.split(','):
        code, at = it.split('@')
        lk, ix = at.split(':')
        items.append((int(code), int(lk), int(ix)))
    return int(n), items


def classify(fname, nl, path, api, devclass, st, fl):
    """specific key of a failing case"""
    if st == 'bad:neg':
        n, items = neg_list(fl)
        if (path == 'n' and nl > 1 and n == nl - 1 and all(c == -3 and ix == 0 for c, lk, ix in items)
                and [lk for c, lk, ix in items] == list(range(1, nl))):
            # intact chain, streaming mode: exactly one OV_HOLE at the first read of every link after the first, audio identical
            return 'streaming_chain_hole_at_link_boundary'
        code = items[0][0] if items else 0
        return f'negative_return_{-code}:{path}{api}:{fname}:{devclass}'
    if st.startswith('bad:'):
        return f'{st.split(":")[1]}:{path}{api}:{fname}:{devclass}'
    return f'{st.lower()}:{path}{api}:{fname}:{devclass}'


class Runner:
    def __init__(self, chk, exe, files):
        self.chk, self.exe, self.files = chk, exe, files
        self.fa = fixed_args(files)
        self.rh = {}          # file -> set of reference hashes seen (must be 1)
        self.logs = set()     # distinct (file, path, api, req, callback log) of deviating single cases
        self.rowD = 0
        self.groups = {}      # (phase, file, path) -> dict(n=, hit=, ok=)
        self.viol_counts = {}
        self.samples = []
        self.machinery = []   # executor could not run at all (exit 2 of the harness = its own set-up failed)

    def case(self, f, path, api, req, cap, cuts):
        return f'{f} {path} {api} {req} {cap} {len(cuts)}' + ''.join(' %s' % c for c in cuts)

    def run(self, phase, devclass, cases, tag):
        """cases: list of case lines. Returns number of executions."""
        if not cases:
            return 0
        if vlib.SEED:       # the seed only permutes the order in which the enumeration is walked
            cases = list(cases)
            random.Random(vlib.SEED).shuffle(cases)
        res = vlib.run_cases(self.exe, cases, self.fa, tag='c10' + tag)
        ex = 0
        for c, r in zip(cases, res):
            st, fl = parse(r)
            sp = c.split(' ')
            fname, ptok, api, req = sp[0], sp[1], sp[2], sp[3]
            path = ptok[0]                      # 's@58' = seekable with 58 bytes handed over as `initial`
            ini = ptok[2:] if '@' in ptok else ''
            nl = len(self.files[fname]['links'])
            row = 'rown' in fl
            n = int(fl['rown']) if row else 1
            ex += n
            self.chk.cov['evaluations'] += n
            g = self.groups.setdefault((phase, fname, path), {'n': 0, 'hit': 0, 'bad': 0, 'maxR': 0, 'maxC': 0})
            g['n'] += n
            if 'RH' in fl:
                self.rh.setdefault(fname, set()).add(fl['RH'] + '/' + fl.get('RIH', ''))
            if ini and not row and st == 'ok':
                self.logs.add((fname, ptok, api, req, fl.get('LG')))     # a non-empty initial buffer is itself a deviation
                g['ini'] = g.get('ini', 0) + 1
            if row:
                g['hit'] += int(fl['both'])
                self.rowD += int(fl['D'])
                g['bad'] += int(fl['rowbad'])
            else:
                if fl.get('all') == '1' and int(fl.get('hits', 0)) > 0:
                    g['hit'] += 1
                    self.logs.add((fname, ptok, api, req, fl.get('LG')))
                g['maxR'] = max(g['maxR'], int(fl.get('R', 0)))
                g['maxC'] = max(g['maxC'], int(fl.get('C', 0)))
                g['maxB'] = max(g.get('maxB', 0), int(fl.get('B', 0)))
            if st in ('DIED', 'NOOUTPUT', 'BADCASE') and ('rc=2 ' in fl.get('raw', '') or st != 'DIED') and not self.machinery:
                # the executor itself could not work (input file / binary removed under it, malformed case): a broken run, not a verdict
                self.machinery.append(f'{st} on "{c}": {fl.get("raw", "")[:200]}')
            if st in ('NOOUTPUT', 'BADCASE') or (st == 'DIED' and 'rc=2 ' in fl.get('raw', '')):
                continue
            if st != 'ok':
                if not row:
                    g['bad'] += 1
                single = c
                if row and int(fl.get('firstbad', -1)) >= 0:
                    single = ' '.join(sp[:-1] + [fl['firstbad']])
                key = classify(fname, nl, path, api, devclass, st, fl)
                self.viol_counts[key] = self.viol_counts.get(key, 0) + (int(fl['rowbad']) if row else 1)
                what = {'s': 'vorbisfile seekable', 'n': 'vorbisfile streaming (seek_func NULL)', 'p': 'packet API (libogg loop)'}[path] + (f' with initial/ibytes={ini} (source positioned after them)' if ini else '')
                self.chk.violation(key, f'{fname} ({nl} link{"s" if nl > 1 else ""}) via {what}, {API_NAME.get(api, api)} lengths {req}, case "{single}": {st} neg={fl.get("neg", "?")} {fl.get("raw", "")}'[:400],
                                   {'case': single, 'phase': phase})
        if len(self.samples) < 40:
            self.samples += [cases[0], cases[len(cases) // 2], cases[-1]]
        return ex


def rows(r, fname, path, api, req, cap, fixed, lo, hi):
    """chunked rows enumerating the last cut over [lo,hi)"""
    out = []
    a = lo
    while a < hi:
        b = min(hi, a + ROWCHUNK)
        out.append(r.case(fname, path, api, req, cap, list(fixed) + ['%d..%d' % (a, b)]))
        a = b
    return out


def pair_rows_window(r, fname, path, win_a, win_b=None):
    """all 2-cut pairs b1<b2 inside window win_a, or b1 in win_a x b2 in win_b (disjoint, a before b)"""
    out = []
    n = 0
    if win_b is None:
        for b1 in range(win_a[0], win_a[1]):
            if b1 + 1 < win_a[1]:
                out.append(r.case(fname, path, 'f', 'c4096', 0, [b1, '%d..%d' % (b1 + 1, win_a[1])]))
                n += win_a[1] - b1 - 1
    else:
        for b1 in range(win_a[0], win_a[1]):
            out.append(r.case(fname, path, 'f', 'c4096', 0, [b1, '%d..%d' % (win_b[0], win_b[1])]))
            n += win_b[1] - win_b[0]
    return out, n


def run(tier):
    chk = vlib.Check(PID, tier, 'fault_enumeration')
    thorough = tier == 'thorough'
    # internal deadline (seconds); C10_DEADLINE_S overrides it for measurement runs on an overloaded machine
    deadline = chk.t0 + float(os.environ.get('C10_DEADLINE_S') or (165 if not thorough else 19 * 60))
    vlib.build('plain')
    exe = private_exe()
    files = make_files()
    R = Runner(chk, exe, files)
    phases = {}
    complete = {}
    cut_note = []

    def phase(name, devclass, cases, tag, batch):
        """run a phase in batches of `batch` case lines; the deadline is checked before every batch"""
        done = 0
        ex = 0
        while done < len(cases):
            if time.time() > deadline:
                break
            part = cases[done:done + batch]
            ex += R.run(name, devclass, part, tag)
            done += len(part)
        phases[name] = ex
        complete[name] = done == len(cases)
        if not complete[name]:
            cut_note.append(f'deadline: phase {name} executed the first {done} of {len(cases)} case lines (enumeration order), the rest was not run')
        return cases

    # ---- phase 0: default schedule, every path / api (anchors the whole comparison)
    c0 = [R.case(f, p, a, 'c4096' if a == 'f' else 'b4096', 0, []) for f in files for (p, a) in (('s', 'f'), ('n', 'f'), ('p', 'f'), ('s', 'i'), ('n', 'i'), ('s', 'g'), ('n', 'g'), ('s', 'k'), ('n', 'k'))]
    phase('default', 'default', c0, 'd', 1000)

    # ---- phase 0b: chains with serial numbers >= 2^31 (early, so that a deadline never cuts it): caps subset, every request schedule / api,
    #      every 1-cut around the link boundaries (thorough: every 1-cut), every path
    HF = [f for f in files if f.startswith('H')]
    ch = []
    for f in HF:
        for p in PATHS:
            ch += [R.case(f, p, 'f', 'c4096', c, []) for c in CAPS_SMALL[1:]]
        ch += [R.case(f, p, a_, q, c, []) for (p, a_, q) in combos() for c in (0, 3)]
        for p in PATHS:
            if thorough:
                ch += rows(R, f, p, 'f', 'c4096', 0, [], 1, files[f]['len'])
            else:
                for bnd in files[f]['bounds'][1:]:
                    ch += rows(R, f, p, 'f', 'c4096', 0, [], bnd - 40, bnd + 70)
    phase('hiserial', 'hiserial', ch, 'h', 400)

    # ---- phase 0c: huge header pages under tiny read answers (a 22 KB / a maximal 65307-byte page one or two bytes at a time)
    LCF = ['LC20', 'LC70', 'LC131', 'LC140', 'LC200', 'LC400', 'LCC']
    cl = []
    for f in LCF:
        F = files[f]
        bigp = max(F['pages'], key=lambda x: x.size())
        ks = sorted({1, 58, 59, 4096, 8192, 8193, 20000, bigp.offset + 27, bigp.offset + bigp.size() - 1, bigp.offset + bigp.size(), bigp.offset + bigp.size() + 1, F['pages'][-2].offset, F['len']})
        for p in PATHS:
            cl += [R.case(f, p, 'f', 'c4096', c, []) for c in (1, 2, 3, 7, 255, 2047, 2048, 4096)]
            cl += [R.case(f, f'{p}@{k}', 'f', 'c4096', c, []) for k in ks if k <= F['len'] for c in (0, 1, 2, 7)]
            cl += [R.case(f, p, 'f', q, c, []) for q in ('c1', 'r70') for c in (1, 2)]
        for p in ('s', 'n'):
            cl += [R.case(f, p, a_, q, c, []) for (a_, q) in (('i', 'b4096'), ('i', 'F1'), ('g', 'b64'), ('k', 'a4,1000')) for c in (1, 2, 3)]
        if thorough and f in ('LC20', 'LC70', 'LC140', 'LCC'):
            for p in PATHS:
                cl += [R.case(f, p, 'f', 'c4096', c, []) for c in range(4, 2047)]
                if f == 'LC20':
                    cl += rows(R, f, p, 'f', 'c4096', 0, [], 1, F['len'])
    phase('bigpage', 'bigpage', cl, 'b', 2000)

    # ---- phase 1: every uniform cap x path x file (default request length)
    big = ['F1', 'F2', 'S2', 'XD', 'XA']
    c1 = [R.case(f, p, 'f', 'c4096', c, []) for f in big for p in PATHS for c in CAPS_ALL]
    c1 += [R.case(f, p, 'i', 'b4096', c, []) for f in big for p in ('s', 'n') for c in (CAPS_ALL if thorough else CAPS_SMALL[1:])]
    # file > CHUNKSIZE: page hunting after the backward hop of the seekable open under fragmentation
    c1 += [R.case('BIG', p, 'f', 'c4096', c, []) for p in PATHS for c in (sorted(set(CAPS_SMALL + list(range(1, 2049)))) if thorough and p == 's' else CAPS_SMALL)]
    phase('caps', 'cap', c1, 'c', 20000)

    # ---- phase 1b: request-length schedules x caps (cheap, so before the big cut enumerations)
    c3 = []
    for f in big + ['S']:
        for (p, a, q) in combos():
            for c in (CAPS_SMALL if not thorough else [0] + CAPS_ALL):
                c3.append(R.case(f, p, a, q, c, []))
    phase('req_x_caps', 'req', c3, 'r', 20000)

    # ---- phase 2: every 1-cut x path x file
    c2 = [R.case(f, p, 'f', 'c4096', 0, [b]) for f in big + ['S'] for p in PATHS for b in range(1, files[f]['len'])]
    LB = files['BIG']['len']
    hunt = (LB - 65536 - (64 if not thorough else 2048), LB - 65536 + (300 if not thorough else 4096))   # around the landing point of the backward CHUNKSIZE hop
    c2 += [R.case('BIG', 's', 'f', 'c4096', 0, [b]) for b in range(hunt[0], hunt[1])]
    if thorough:
        c2 += [R.case('BIG', 's', 'f', 'c4096', 0, [b]) for b in range(LB - 4096, LB)]
    phase('cut1', 'cut1', c2, 'k', 20000)

    pg_S_hdr = files['S']['pages'][2].offset
    # ---- phase 2b: the first k bytes handed over through `initial`/`ibytes` (source positioned after them), every path
    def ibound(f):
        """boundary set of initial sizes for file f"""
        F = files[f]
        pgs = F['pages']
        hdr_end = pgs[2].offset                     # first audio page of link 0
        a2 = pgs[min(3, len(pgs) - 1)].offset       # second audio page (or the only one)
        v = {1, 4, 26, 27, 28, pgs[0].size() - 1, pgs[0].size(), pgs[0].size() + 1, pgs[1].offset + 27, pgs[1].offset + 28,
             1000, 2047, 2048, 2049, hdr_end - 1, hdr_end, hdr_end + 1, hdr_end + 27, a2 - 1, a2, a2 + 1, a2 + 40,
             4096, 4097, 8192, 65536, 65537, F['len'] - 1, F['len']}
        for b in F['bounds'][1:]:
            q = [x for x in pgs if x.offset >= b]
            v.update([b - 1, b, b + 1, b + 58, q[1].offset + 100, q[2].offset, q[2].offset + 1, q[min(3, len(q) - 1)].offset + 5])
        return sorted(x for x in v if 1 <= x <= F['len'])
    ci = []
    for f in files:
        for k in ibound(f):
            for p in PATHS:
                for c in (0, 1, 7, 255, 2048) if not thorough else CAPS_SMALL:
                    ci.append(R.case(f, f'{p}@{k}', 'f', 'c4096', c, []))
                for q in ('c1', 'r70'):
                    ci.append(R.case(f, f'{p}@{k}', 'f', q, 0, []))
            for p in ('s', 'n'):
                for a_, q in (('i', 'b4096'), ('i', 'F1'), ('g', 'b64'), ('k', 'a4,1000')):
                    ci.append(R.case(f, f'{p}@{k}', a_, q, 0, []))
    # every initial size of the small files (thorough: of every file but BIG)
    for f in (('S', 'S2') if not thorough else ('S', 'S2', 'F1', 'F2')):
        for p in PATHS:
            ci += [R.case(f, f'{p}@{k}', 'f', 'c4096', 0, []) for k in range(1, files[f]['len'] + 1)]
    phase('initial', 'initial', ci, 'i', 20000)
    # initial x every 1-cut of the smallest file
    cj = []
    for k in ((1, 58, 59, 2048, pg_S_hdr + 1) if not thorough else ibound('S')):
        for p in (('s', 'n') if not thorough else PATHS):
            cj += rows(R, 'S', f'{p}@{k}', 'f', 'c4096', 0, [], 1, files['S']['len'])
    phase('initial_x_cut1', 'initial', cj, 'j', 200)

    # ---- phase 3: 2-cut pairs inside declared windows
    S = files['S']
    pg = S['pages']
    W_A = (1, pg[1].offset + 102)                        # BOS page and the first 102 bytes of the comment/setup page
    W_B = (pg[2].offset - 91, pg[3].offset + 13)         # end of the setup page, the first audio page completely, start of the next
    windows = {'S:W_A': W_A, 'S:W_B': W_B}
    c4 = []
    for p in PATHS:
        for wa, wb in (((W_A, None), (W_B, None), (W_A, W_B)) if thorough else ((W_A, None), (W_B, None))):
            c4 += pair_rows_window(R, 'S', p, wa, wb)[0]
    for f, half in (('S2', 60 if not thorough else 150), ('F2', 50 if not thorough else 120)):
        for bi, bnd in enumerate(files[f]['bounds'][1:]):
            if not thorough and bi > 0:
                continue
            w = (bnd - half, bnd + half)
            windows[f'{f}:link{bi + 1}'] = w
            for p in PATHS:
                c4 += pair_rows_window(R, f, p, w)[0]
    if thorough:
        windows['S:W_A x W_B'] = [list(W_A), list(W_B)]
    phase('cut2_windows', 'cut2', c4, 'w', 600)

    # ---- phase 4: request-length schedules x every 1-cut of the smallest file, and x the link-boundary neighbourhoods of the chains
    c3b = []
    for (p, a, q) in combos(not thorough):
        c3b += rows(R, 'S', p, a, q, 0, [], 1, files['S']['len'])
    for f in ('S2', 'F2'):
        for bnd in files[f]['bounds'][1:]:
            for (p, a, q) in combos(not thorough):
                c3b += rows(R, f, p, a, q, 0, [], bnd - 40, bnd + 70)
    phase('req_x_cut1', 'req', c3b, 'q', 200)

    # ---- phase 5 (thorough): ALL 2-cut pairs of the smallest file, batched by b1 so that a deadline cuts cleanly
    pairs_done_below = None
    if thorough:
        L = S['len']
        step = 64
        done_b1 = {p: 1 for p in PATHS}
        tot = 0
        complete['cut2_all_pairs_S'] = True
        for b0 in range(1, L - 1, step):
            for p in PATHS:
                if time.time() > deadline:
                    complete['cut2_all_pairs_S'] = False
                    break
                cs = [R.case('S', p, 'f', 'c4096', 0, [b1, '%d..%d' % (b1 + 1, L)]) for b1 in range(b0, min(b0 + step, L - 1))]
                tot += R.run('cut2all', 'cut2', cs, 'p')
                done_b1[p] = min(b0 + step, L - 1)
            if not complete['cut2_all_pairs_S']:
                break
        phases['cut2_all_pairs_S'] = tot
        pairs_done_below = done_b1
        if not complete['cut2_all_pairs_S']:
            cut_note.append(f'deadline: all 2-cut pairs (b1<b2) of S completed only for b1 below {done_b1} (per access path), file length {L}')
    # ---- phase 6 (thorough): request-length schedules x every 1-cut of every file (full product; after the pairs so that a deadline keeps the pairs)
    if thorough:
        c3d = []
        for f in big:
            for (p, a, q) in combos():
                c3d += rows(R, f, p, a, q, 0, [], 1, files[f]['len'])
        phase('req_x_cut1_all_files', 'req', c3d, 'Q', 200)
    exhaustive = all(complete.values())

    # ---- determinism: re-run probe cases twice, identical output required
    probe = [c0[0], c0[-1], c1[0], c1[-1], c2[len(c2) // 2]]
    a = vlib.run_cases(exe, probe, R.fa, jobs=1, tag='c10x')
    b = vlib.run_cases(exe, probe, R.fa, jobs=2, tag='c10y')
    chk.guard(a == b and all(x for x in a), 'replaying probe cases twice gives identical observations')

    chk.guard(not R.machinery, 'executor machinery intact (no harness set-up failure): %r' % (R.machinery[:1],))

    # ---- coverage facts / vacuity guards (only for phases that ran to completion)
    G = R.groups
    chk.guard(complete.get('default') and phases.get('caps', 0) > 0, 'the default-schedule phase ran to completion and the cap enumeration started')
    for f in files:
        chk.guard(len(R.rh.get(f, ())) == 1, f'reference decode of {f} identical in every worker process ({len(R.rh.get(f, ()))} hashes)')
    if complete.get('caps'):
        for f in big:
            for p in PATHS:
                g = G.get(('caps', f, p), {})
                chk.guard(g.get('maxR', 0) >= files[f]['len'], f'cap=1 really delivered {f} one byte per read via path {p} (max reads {g.get("maxR")})')
                chk.guard(g.get('hit', 0) >= 2040, f'caps below the request size applied on {f}/{p} ({g.get("hit")})')
    if complete.get('caps'):
        chk.guard(G.get(('caps', 'BIG', 's'), {}).get('maxB', 0) >= 65536, 'the seekable open of BIG hopped back a full CHUNKSIZE (page hunting in mid-file reached)')
    if complete.get('cut1'):
        for f in big + ['S']:
            for p in PATHS:
                g = G.get(('cut1', f, p), {})
                chk.guard(g.get('hit', 0) >= 0.97 * (files[f]['len'] - 1), f'1-cuts actually shortened a read on {f}/{p} in {g.get("hit")} of {files[f]["len"] - 1} offsets')
    for p in PATHS:
        if complete.get('cut2_windows'):
            g = G.get(('cut2_windows', 'S', p), {})
            chk.guard(g.get('hit', 0) >= 0.9 * g.get('n', 1) and g.get('n', 0) > 0, f'both cuts applied in the 2-cut windows on S/{p} ({g.get("hit")}/{g.get("n")})')
        if complete.get('req_x_caps'):
            g = G.get(('req_x_caps', 'F2', p), {})
            chk.guard(g.get('maxC', 0) >= files['F2']['total'], f'length-1 requests really consumed F2 one sample per call via {p} (max calls {g.get("maxC")})')
    if complete.get('initial'):
        for f in files:
            for p in PATHS:
                g = G.get(('initial', f, p), {})
                chk.guard(g.get('ini', 0) >= 0.9 * g.get('n', 1) and g.get('n', 0) >= 20, f'opens with a non-empty initial buffer ran and passed on {f}/{p} ({g.get("ini")}/{g.get("n")})')
    chk.guard(max(x.size() for x in files['LC70']['pages']) == 65307 and max(x.size() for x in files['LC20']['pages']) > 16384,
              'LC70 contains a maximal 65307-byte page and LC20 a page larger than 16 KiB')
    if complete.get('bigpage'):
        for f in LCF:
            for p in PATHS:
                g = G.get(('bigpage', f, p), {})
                chk.guard(g.get('maxR', 0) >= files[f]['len'] and g.get('n', 0) >= 50, f'{f} delivered one byte per read via path {p} (max reads {g.get("maxR")}, {g.get("n")} executions)')
    if complete.get('hiserial'):
        for f in HF:
            for p in PATHS:
                g = G.get(('hiserial', f, p), {})
                chk.guard(g.get('n', 0) >= 200, f'chain {f} with serial numbers >= 2^31 decoded via path {p} ({g.get("n")} executions)')
    chk.guard(sum(g['n'] for g in G.values()) == chk.cov['evaluations'], 'every execution attributed to a (phase, file, path) group')

    per_group = {f'{ph}:{f}:{p}': {'executions': g['n'], 'deviation_applied': g['hit'], 'failing': g['bad']} for (ph, f, p), g in sorted(G.items())}
    chk.cov.update({
        'distinct_nontrivial': len(R.logs) + R.rowD,
        'rule': 'DEV enumeration of read-callback answers: default = full answer; deviations = uniform cap c (every c in 1..2048, 4096, 65536) or cuts (read stops at absolute offset b; every b in 1..len-1; '
                '2-cut pairs: all pairs inside the listed windows' + (' and ALL pairs b1<b2 of file S' if thorough else '') + '; hand-over of the first k bytes through initial/ibytes with the source positioned after them: k over a boundary set on every file and every k on the small files, also x every 1-cut of S) x access path {seekable vorbisfile, streaming vorbisfile, packet API} x request-length schedules '
                f'(ov_read_float {REQ_F}, ov_read {REQ_I}, ov_read_filter with a gain-0.5 / an identity filter {REQ_G} [bytes]); files F1 (1 link), F2 (3 links 1ch/2ch/1ch, 8k/11.025k/44.1k), S2 (2 links 1ch/2ch), S (1 link, smallest), Hfirst/Hmid/Hlast/Hall (3-link chains 1ch/2ch/1ch whose first / middle / last / every link has a serial number with bit 31 set: 0x80000000, 0x9abcdef1, 0xffffffff; caps subset, every request schedule, 1-cuts around the link boundaries), LC20/LC70 (comment header of 20 KB / 70 KB: a 22 KB header page / a maximal 65307-byte page plus a continued page; caps 1,2,3,7,.. and initial/ibytes subset), BIG (1 link > 64 KiB: caps, and 1-cuts only around the landing point of the open-time backward hop, seekable path). '
                'distinct_nontrivial = number of distinct (file, path, api, request schedule, hash of the complete callback log) among single cases in which a deviation actually shortened a read, '
                'plus, for row cases (one execution per value of the last cut), the number of distinct callback logs within each row among executions where every cut shortened a read (rows differ in file/path/schedule/first cut)',
        'samples': [{'case': s, 'format': '<file> <path s|n|p> <api f|i> <request schedule> <cap> <ncut> <cuts..>'} for s in R.samples[:12]],
        'exhaustive': exhaustive, 'phase_complete': complete, 'executions_per_phase': phases, 'windows_2cut': {k: list(v) for k, v in windows.items()}, 'window_1cut_BIG': list(hunt), 'per_group': per_group,
        'failing_executions_by_key': R.viol_counts, 'files': {f: {'bytes': v['len'], 'links': v['truth'], 'pages': len(v['pages'])} for f, v in files.items()},
        'cut_by_deadline': cut_note, 'pairs_S_complete_for_b1_below': pairs_done_below,
    })
    chk.assumptions += [
        'reference = packet-level decode (libogg + vorbis_synthesis) of the same library with full 4096-byte reads, checked against construction ground truth (channels, rate, sample count per link)',
        'streaming mode: the *bitstream index is only required to be constant inside a link and to change at a link boundary; seekable mode: equal to the link number',
        'initial/ibytes: the bytes handed over are exactly the first k bytes of the file and the source (seekable or not) is positioned at k; path p feeds them as one ogg_sync_wrote',
        'ov_read integer output is only compared across schedules/modes (anchor: seekable, full reads, 4096 bytes); exact packing is C17',
        'ov_read_filter: the filter must be shown exactly the unfiltered reference PCM, every frame once (frames shown == frames delivered at end of stream); '
        'bytes delivered with the gain filter are compared across schedules with an anchor taken with a 131072-byte buffer (a whole block always fits) that is tied to 0.5*reference within one LSB',
        'request lengths start at 1 sample / one frame of the widest link: ov_read with less than one frame returns OV_EINVAL by documentation, ov_read_float(0) is indistinguishable from EOF',
        'path p asks 4096 bytes per read (decoder_example.c); vorbisfile asks READSIZE=2048; caps/cuts apply to both',
        'S2/S/F1/F2 are encoder-made; headers occupy their own pages as the encoder (and the Vorbis I spec) lays them out',
    ]
    return chk.finish()


def replay(path):
    r = json.load(open(path))
    vlib.build('plain')
    exe = private_exe()
    files = make_files()
    out = vlib.run_cases(exe, [r['replay']['case']], fixed_args(files), jobs=1, tag='c10r')
    print('case    :', r['replay']['case'])
    print('observed:', out[0])
    print('expected: ok neg=0 (bit-identical PCM per link, no negative return)')
    return 0 if (out[0] or '').startswith('ok ') else 1
