"""C11: a damaged or skipped packet disturbs only its own neighbourhood.

Fault enumeration over packet histories on the real packet-level decoder (harness/c11_damage.c):
for every test stream and EVERY audio packet index k: drop (with / without a packetno gap), duplicate (same number / renumbered),
replace by every other packet j (bytes only / bytes+granulepos+eos), zero-length, EVERY byte truncation, EVERY single-bit flip,
every header packet injected (numbered / renumbered); restart: every (history length h, restart point k) with the history taken
from the stream itself and from a twin stream (same encoder setup, different signal); page level through vorbisfile: every audio
page dropped / CRC broken / delivered twice, seekable and streaming; one ASan pass over all flips+truncations of the smallest stream.
thorough adds longer streams and pairs of disturbances (all simple pairs k1<k2; all bit flips and truncations of packet k2 after a
structural disturbance 1..3 packets earlier).  Exemptions E (end trim) and S (start trim) are documented in the executor.
Oracle: per-packet output chunks (count + bit-exact floats) of every clean packet other than the disturbed one and the first one
delivered after the disturbance equal the clean decode."""
import os, sys, json, time, random, subprocess, collections
import vlib

PID = 'C11'
FLIP_CHUNK = 40          # bytes of a packet per flip case line (load balancing only)
SIMPLE = [('dropgap', 0, 0), ('drop', 0, 0), ('dup', 0, 0), ('dup', 1, 0), ('zero', 0, 0)]


# ------------------------------------------------------------------ streams
def mk(name, maker, **kw):
    """mkzoo-compatible cached stream maker call for harness/<maker>.c."""
    if maker == 'mkzoo':
        return vlib.mkzoo(name, **kw)
    if maker == 'synth':
        import zoo                       # specification-level synthesiser (numpy: bin/check re-execs under python3-vt)
        kw = dict(kw)
        if 'fill' in kw:
            kw['fill'] = tuple(kw['fill'])
        return zoo.synth_link(name, kw.pop('serial'), kw.pop('bs0'), kw.pop('bs1'), kw.pop('npk'), **kw)
    exe = vlib.harness('plain', maker)
    path = os.path.join(vlib.zoo_dir(), name + '.ogg')
    meta_p = path + '.json'
    args = [f'{k}={v}' for k, v in sorted(kw.items())]
    sig = maker + ' ' + ' '.join(args) + ' ' + (vlib._key or '')
    if os.path.exists(path) and os.path.exists(meta_p):
        m = json.load(open(meta_p))
        if m.get('_sig') == sig:
            return path, m
    out = subprocess.run([exe, path] + args, stdout=subprocess.PIPE, stderr=subprocess.PIPE, text=True)
    if out.returncode != 0:
        raise RuntimeError(maker + ' failed: ' + out.stderr)
    m = json.loads(out.stdout.strip().splitlines()[-1])
    m['_sig'] = sig
    json.dump(m, open(meta_p, 'w'))
    return path, m


# family: name -> (maker, kwargs, twin signal kwargs)
FAMILIES = {
    'a8k': ('mkzoo', dict(rate=8000, ch=1, n=3000, q=0.3, sig='mix'), dict(sig='noise')),                       # 512/512, 13 packets
    'b16k': ('mkzoo', dict(rate=16000, ch=2, n=6000, q=0.4, sig='mix'), dict(sig='noise')),                     # 512/1024 stereo (coupled)
    'c44k': ('c11_mkstream', dict(rate=44100, ch=2, n=30000, q=0.1, sig='clicks', period=9000), dict(sig='clicks', period=6100)),  # 256/2048, S/L alternate
    'd8k_imp': ('mkzoo', dict(rate=8000, ch=2, n=3000, q=0.3, sig='impulse'), dict(sig='mix')),                  # digitally silent packets (all floors unused) between coded ones
    'e8k_alt': ('c11_mkstream', dict(rate=8000, ch=2, n=6000, q=0.3, sig='alt', period=1200), dict(sig='mix')),   # channels alternately silent inside the coupled pair
    # tone - exact digital silence (>= 40 packets) - tone, ODD channel counts: what a silent block decodes to must not depend on the decoder's past
    'g8k_tsil1': ('c11_mkstream', dict(rate=8000, ch=1, n=16000, q=0.3, sig='tsil', period=2500), dict(sig='mix')),
    'g8k_tsil3': ('c11_mkstream', dict(rate=8000, ch=3, n=16000, q=0.3, sig='tsil', period=2500), dict(sig='mix')),
    # written bit by bit by the specification-level synthesiser (streams the encoder never produces)
    'f0r0': ('synth', dict(serial=1101, bs0=128, bs1=512, npk=30, ch=2, floortype=0, restype=0, ppp=3), dict(fill=[5, 1])),   # floor 0 + residue 0, coupled; one floor shared by both modes (lazy bark map)
    'm3': ('synth', dict(serial=1103, bs0=64, bs1=256, npk=30, ch=1, modes3=True, ppp=4), dict(fill=[5, 1])),                  # three modes, mode number != block flag
    'r2': ('synth', dict(serial=1104, bs0=64, bs1=128, npk=30, ch=2, restype=2, ppp=4), dict(fill=[5, 1])),                   # residue 2
    # thorough only
    'g44k_tsil1': ('c11_mkstream', dict(rate=44100, ch=1, n=70000, q=0.1, sig='tsil', period=9000), dict(sig='clicks', period=9000)),
    'g44k_tsil3': ('c11_mkstream', dict(rate=44100, ch=3, n=70000, q=0.1, sig='tsil', period=9000), dict(sig='clicks', period=9000)),
    'a8k_long': ('mkzoo', dict(rate=8000, ch=1, n=12000, q=0.3, sig='mix'), dict(sig='noise')),
    'b16k_clicks': ('c11_mkstream', dict(rate=16000, ch=2, n=20000, q=0.3, sig='clicks', period=4000), dict(sig='mix')),
    'c44k_long': ('c11_mkstream', dict(rate=44100, ch=2, n=110000, q=0.2, sig='clicks', period=13000), dict(sig='clicks', period=8100)),
}


def recipes(fams):
    """-> list of stream recipes; three streams per family: granule on every packet, page style, twin (page style)."""
    out = []
    for f in fams:
        maker, kw, tw = FAMILIES[f]
        if maker == 'synth':
            out.append(dict(name=f'c11_{f}_every', family=f, style='every', maker=maker, kw=dict(kw, ppp=1)))
            out.append(dict(name=f'c11_{f}_page', family=f, style='page', maker=maker, kw=dict(kw)))
            out.append(dict(name=f'c11_{f}_twin', family=f, style='twin', maker=maker, kw=dict(kw, **tw)))
            continue
        out.append(dict(name=f'c11_{f}_every', family=f, style='every', maker=maker, kw=dict(kw, serial=1, pages='flush', tag='c11')))
        out.append(dict(name=f'c11_{f}_page', family=f, style='page', maker=maker, kw=dict(kw, serial=1, pages=4, tag='c11')))
        k2 = dict(kw, serial=2, pages=3, tag='c11')
        k2.update(tw)
        out.append(dict(name=f'c11_{f}_twin', family=f, style='twin', maker=maker, kw=k2))
    return out


def make_streams(recs):
    """-> executor stream arguments; a half-rate recipe is the same file passed as hr:<path>"""
    return [('lap:' if r.get('lap') else '') + ('hr:' if r.get('hr') else '') + mk(r['name'], r['maker'], **r['kw'])[0] for r in recs]


def lap_recipes(recs, wanted):
    """Same files, every block read through vorbis_synthesis_lapout (pcmout(v,NULL) count, lapout data, read); wanted = [(family, style, halfrate)]."""
    out = []
    for f, st, hr in wanted:
        r = [x for x in recs if x['family'] == f and x['style'] == st and not x.get('hr') and not x.get('lap')][0]
        out.append(dict(r, lap=True, hr=bool(hr)))
    return out


def tag(cases, prefix):
    return [(line, (sig[0], prefix + sig[1], sig[2])) for line, sig in cases]


def base_kind(k):
    for p in ('lap_', 'hr_'):
        if k.startswith(p):
            k = k[len(p):]
    return k


def hr_recipes(recs, wanted):
    """Half-rate twins of existing recipes: wanted = [(family, style)]; same file, decoded with vorbis_synthesis_halfrate(vi,1)."""
    out = []
    for f, st in wanted:
        r = [x for x in recs if x['family'] == f and x['style'] == st][0]
        out.append(dict(r, hr=True))
    return out


def hr_tag(cases):
    return [(line, (sig[0], 'hr_' + sig[1], sig[2])) for line, sig in cases]


def byte_facts(path, family):
    """Facts about a stream taken from its BYTES only (own Ogg page reader, own bit reading) - never from what the library under test decodes:
    packet lengths, block size letter per packet (ident header byte 28 + the packet's mode bits), the first channel's floor-1 'used' flag."""
    path = path.split(':')[-1]
    pk = [p[0] for p in vlib.packets_of(vlib.parse_pages(open(path, 'rb').read()))]
    ident, aud = pk[0], pk[3:]
    bs0, bs1 = 1 << (ident[28] & 15), 1 << (ident[28] >> 4)
    modebits = 2 if family == 'm3' else 1           # encoder streams and the 2-mode synthesised ones: 1 bit; c11_m3: 3 modes
    blocks, f0 = '', ''
    for a in aud:
        bits = int.from_bytes(a[:4].ljust(4, b'\0'), 'little')
        mode = (bits >> 1) & ((1 << modebits) - 1)
        long_ = mode >= 1                            # mode 0 is the short mode everywhere; modes 1 (and 2 in c11_m3) are long
        blocks += 'L' if (long_ and bs1 != bs0) else 'S'
        f0 += str((bits >> (1 + modebits + (2 if long_ else 0))) & 1) if len(a) else '-'
    return {'lens': [len(a) for a in aud], 'blocks': blocks, 'bs0': bs0, 'bs1': bs1, 'first_floor_used': f0,
            'transitions': sum(1 for i in range(1, len(blocks)) if blocks[i] != blocks[i - 1])}


def stream_info(exe, paths):
    out = subprocess.run([exe, '--info'] + paths, stdout=subprocess.PIPE, stderr=subprocess.PIPE, text=True, timeout=300)
    if out.returncode != 0:
        sys.stderr.write(out.stderr)
        raise SystemExit(2)
    return [json.loads(l) for l in out.stdout.splitlines() if l.startswith('{')]


# ------------------------------------------------------------------ case generation
def single_cases(si, inf, twins, own):
    """All single-disturbance cases of stream si. -> list of (line, (si, kind, k))"""
    n = inf['packets']
    cs = []
    for k in range(n):
        for kind, a, b in SIMPLE:
            cs.append((f'{si} {kind} {k} {a} {b}', (si, kind if not a else kind + 'r', k)))
        for h in range(3):
            for r in (0, 1):
                cs.append((f'{si} hdr {k} {h} {r}', (si, 'hdr', k)))
        for j in range(n):
            if j != k:
                for m in (0, 1):
                    cs.append((f'{si} repl {k} {j} {m}', (si, 'repl' if not m else 'replm', k)))
        cs.append((f'{si} trunc {k} 0 -1', (si, 'trunc', k)))
        L = inf['lens'][k]
        for lo in range(0, max(L, 1), FLIP_CHUNK):
            cs.append((f'{si} flip {k} {lo} {min(L, lo + FLIP_CHUNK)}', (si, 'flip', k)))
        for s2 in [own] + twins:
            cs.append((f'{si} restart {k} {s2} -1', (si, 'restart_own' if s2 == own else 'restart_twin', k)))
    return cs


def page_cases(si, path):
    """Page-level damage through vorbisfile: every audio page x {dropped, CRC broken, delivered twice} x {streaming, seekable}."""
    pages = vlib.parse_pages(open(path, 'rb').read())
    done = 0
    cs = []
    for pi, pg in enumerate(pages):
        if done >= 3:
            for kind in ('pgdrop', 'pgcrc', 'pgdup'):
                for m in (0, 1):
                    cs.append((f'{si} {kind} {pi} {m} 0', (si, kind + ('_seekable' if m else '_streaming'), pi)))
        done += sum(1 for l in pg.lacing if l < 255)
    return cs


def pair_cases_simple(si, inf):
    n = inf['packets']
    ops = SIMPLE + [('hdr', 1, 0), ('repl', -1, 1)]
    cs = []
    for k1 in range(n):
        for k2 in range(k1 + 1, n):
            for o1 in ops:
                for o2 in ops:
                    a1 = (k1 + 5) % n if o1[0] == 'repl' else o1[1]
                    a2 = (k2 + 3) % n if o2[0] == 'repl' else o2[1]
                    if (o1[0] == 'repl' and a1 == k1) or (o2[0] == 'repl' and a2 == k2):
                        continue
                    cs.append((f'{si} {o1[0]} {k1} {a1} {o1[2]} {o2[0]} {k2} {a2} {o2[2]}', (si, 'pair_' + o1[0] + '_' + o2[0], k2)))
    return cs


def pair_cases_flip(si, inf, dists=(1, 2, 3)):
    n = inf['packets']
    cs = []
    for k2 in range(n):
        L = inf['lens'][k2]
        for d in dists:
            k1 = k2 - d
            if k1 < 0:
                continue
            for o1 in (('dropgap', 0, 0), ('drop', 0, 0), ('dup', 0, 0), ('zero', 0, 0)):
                for lo in range(0, max(L, 1), FLIP_CHUNK * 2):
                    cs.append((f'{si} {o1[0]} {k1} {o1[1]} {o1[2]} flip {k2} {lo} {min(L, lo + FLIP_CHUNK * 2)}', (si, 'pair_' + o1[0] + '_flip', k2)))
                cs.append((f'{si} {o1[0]} {k1} {o1[1]} {o1[2]} trunc {k2} 0 -1', (si, 'pair_' + o1[0] + '_trunc', k2)))
    return cs


# ------------------------------------------------------------------ result handling
def parse(r):
    d = {}
    for t in (r or '').split()[1:]:
        if '=' in t:
            k, v = t.split('=', 1)
            try:
                d[k] = int(v)
            except ValueError:
                d[k] = v
    return d


def vkey(kind, style, d, status):
    if status != 'FAIL':
        return f'{status.lower()}:{kind}:{style}'
    what = str(d.get('what', '?')).split(':')[0]
    rel = d.get('rel', 0)
    relc = 'before' if rel < 0 else ('second_after' if rel == 2 else ('first_after' if rel == 1 else ('later' if rel > 2 else 'same')))
    return f'{what}:{kind}:{style}:{relc}'


class Acc:
    def __init__(self):
        self.tot = collections.Counter()
        self.by = collections.defaultdict(collections.Counter)     # (si, kind, k) -> counters
        self.kinds = collections.defaultdict(collections.Counter)  # kind -> counters


def absorb(chk, acc, cases, res, recs, infos, flavour, fixed):
    for (line, sig), r in zip(cases, res):
        chk.cov['evaluations'] += 1
        r = r or 'NOOUTPUT'
        status = r.split()[0]
        d = parse(r)
        si, kind, k = sig
        style = recs[si]['style']
        if status == 'ok' or status == 'FAIL':
            for f in ('n', 'acc', 'rej', 'obs', 'bsz', 'ex', 'exdiff', 'sx', 'cmp'):
                v = d.get(f, 0)
                acc.tot[f] += v
                acc.by[sig][f] += v
                acc.kinds[kind][f] += v
            acc.kinds[kind]['cases'] += 1
        if status == 'ok':
            continue
        if status == 'SKIP':
            acc.tot['skipped'] += 1
            acc.kinds[kind]['skipped'] += 1
            continue
        desc = f"stream {recs[si]['name']}{' at HALF RATE' if recs[si].get('hr') else ''}{' read through LAPOUT' if recs[si].get('lap') else ''} ({infos[si]['blocks']}) case '{line}' [{flavour}]: {r[:300]}"
        chk.violation(vkey(kind, style, d, status), desc,
                      {'case': line, 'flavour': flavour, 'recipes': recs, 'fixed': fixed, 'result': r[:400], 'first_failing_inner': d.get('inner')})


def run_phase(chk, acc, exe, cases, paths, recs, infos, flavour, tag, extra=()):
    order = list(range(len(cases)))
    if vlib.SEED:
        random.Random(vlib.SEED).shuffle(order)   # permutes enumeration order only
    lines = [cases[i][0] for i in order]
    res = vlib.run_cases(exe, lines, list(extra) + paths, tag=tag)
    absorb(chk, acc, [cases[i] for i in order], res, recs, infos, flavour, list(extra))


# ------------------------------------------------------------------ main
def run(tier):
    chk = vlib.Check(PID, tier, 'fault_enumeration')
    vlib.build('plain', 'asan')
    exe = vlib.harness('plain', 'c11_damage')
    exe_asan = vlib.harness('asan', 'c11_damage')
    fams = ['a8k', 'b16k', 'c44k', 'd8k_imp', 'e8k_alt', 'f0r0', 'm3', 'r2', 'g8k_tsil1', 'g8k_tsil3'] + (['a8k_long', 'b16k_clicks', 'c44k_long', 'g44k_tsil1', 'g44k_tsil3'] if tier == 'thorough' else [])
    recs = recipes(fams)
    # half-rate pass: streams whose short block is > 64 samples and that really switch between short and long blocks
    hr_wanted = [('c44k', 'page')] + ([('c44k', 'every'), ('b16k_clicks', 'page'), ('b16k_clicks', 'every'), ('b16k', 'page'), ('c44k_long', 'page')] if tier == 'thorough' else [])
    recs += hr_recipes(recs, hr_wanted)
    # lapout read path: block-switching streams (long->short transitions put the ring into its wrapped, unequal-halves phase)
    lap_wanted = [('c44k', 'page', 0), ('f0r0', 'page', 0), ('m3', 'page', 0), ('r2', 'every', 0)] + \
                 ([('c44k', 'every', 0), ('b16k_clicks', 'page', 0), ('c44k', 'page', 1), ('c44k_long', 'page', 0)] if tier == 'thorough' else [])
    recs += lap_recipes(recs, lap_wanted)
    paths = make_streams(recs)
    infos = stream_info(exe, paths)
    # the quick tier is sized to fit its budget and is never cut; thorough stops starting new phases 21 min after the build
    deadline = time.time() + float(os.environ.get('C11_THOROUGH_DEADLINE_S', 21 * 60)) if tier == 'thorough' else None   # env override only for a completeness run on a loaded machine
    # --- facts the guards rely on come from the stream BYTES (or from the construction), never from what the library under test decodes;
    #     where the library reports the same fact, a disagreement is a finding, not a broken check
    for i, (r, pth) in enumerate(zip(recs, paths)):
        bf = byte_facts(pth, r['family'])
        chk.cov['evaluations'] += 1
        if bf['blocks'] != infos[i]['blocks'] or bf['lens'] != infos[i]['lens'] or (bf['bs0'], bf['bs1']) != (infos[i]['bs0'], infos[i]['bs1']):
            chk.violation(f"packet_blocksize_disagrees_with_packet_bytes:{r['family']}", f"stream {r['name']}: vorbis_packet_blocksize/vorbis_info_blocksize report {infos[i]['bs0']}/{infos[i]['bs1']} {infos[i]['blocks']}, the bytes say {bf['bs0']}/{bf['bs1']} {bf['blocks']}",
                          {'case': 'bytefacts', 'recipes': [r]})
        infos[i]['decoded_silent_mask'] = infos[i].pop('zeroch')      # informational only (depends on the decoder)
        infos[i].update(bf)
    # --- preconditions on the zoo (vacuity guards)
    okzoo = True
    for f in fams:
        e, p, t = [i for i, r in enumerate(recs) if r['family'] == f and not r.get('hr') and not r.get('lap')]
        okzoo &= infos[e]['packets_hash'] == infos[p]['packets_hash']
        chk.cov['evaluations'] += 1
        if infos[e]['pcm_hash'] != infos[p]['pcm_hash'] or infos[e]['counts'] != infos[p]['counts']:
            # same headers, same packets, both clean: the granule style (position bookkeeping only) must not change a sample
            chk.violation(f'clean_decode_differs_between_granule_styles:{f}', f'family {f}: byte-identical packets decode differently when only the last packet of a page carries a granulepos',
                          {'case': 'info', 'recipes': [recs[e], recs[p]], 'pcm_hash': [infos[e]['pcm_hash'], infos[p]['pcm_hash']], 'counts': [infos[e]['counts'], infos[p]['counts']]})
        okzoo &= infos[e]['granule_packets'] == infos[e]['packets'] and infos[p]['granule_packets'] < infos[p]['packets']
        okzoo &= infos[t]['setup_hash'] == infos[e]['setup_hash'] and infos[t]['packets_hash'] != infos[e]['packets_hash']
        okzoo &= infos[e]['last_eos'] == 1 and infos[p]['last_eos'] == 1
    chk.guard(okzoo, 'both granule styles carry byte-identical packets; every-style has a granulepos on every packet, page-style has -1 fill; twins share the setup header but not the audio')
    c44 = [i for i, r in enumerate(recs) if r['family'] == 'c44k'][0]
    chk.guard(infos[c44]['bs0'] == 256 and infos[c44]['bs1'] == 2048 and infos[c44]['transitions'] >= 4 and 'LS' in infos[c44]['blocks'] and 'SL' in infos[c44]['blocks'][1:],
              'the 44.1 kHz stream really alternates short and long blocks in mid-stream (vorbis_packet_blocksize)')
    dimp = [i for i, r in enumerate(recs) if r['family'] == 'd8k_imp'][0]
    ealt = [i for i, r in enumerate(recs) if r['family'] == 'e8k_alt'][0]
    def silent(i):
        # encoder-made packet of <= 2 bytes: type bit, mode/window bits and one 'floor unused' bit per channel, nothing else
        return ''.join('s' if l <= 2 else 'c' for l in infos[i]['lens'])
    chk.guard('csc' in silent(dimp).replace('ss', 's').replace('ss', 's') and recs[dimp]['kw']['sig'] == 'impulse',
              'a stereo stream (impulses on digital silence) has fully silent packets (<= 2 bytes: every floor flagged unused) between coded packets')
    fu = infos[ealt]['first_floor_used']
    chk.guard(recs[ealt]['kw']['sig'] == 'alt' and any(u == '0' and l > 8 for u, l in zip(fu, infos[ealt]['lens'])) and '1' in fu,
              'a stereo stream whose INPUT has the two channels alternately digitally silent (sig=alt): packets with the first floor flagged unused while the other channel is coded, and packets with it used (the opposite case follows from the input by construction)')
    for gf, nch in (('g8k_tsil1', 1), ('g8k_tsil3', 3)):
        gi = [i for i, r in enumerate(recs) if r['family'] == gf][0]
        sl = silent(gi)
        chk.guard(recs[gi]['kw']['ch'] == nch and recs[gi]['kw']['sig'] == 'tsil' and 's' * 40 in sl and sl.strip('s').startswith('c') and sl.rstrip('s').endswith('c') and sl.index('s') > 3,
                  f'{nch}-channel stream of tone, >= 40 packets of exact digital silence (input is 0.0; packets <= 2 bytes), tone')
    acc = Acc()
    exhaustive = True
    phases_done = []

    def est(line):
        """rough cost of a case line in packet decodes (only used to slice phases so that the deadline can cut between slices)"""
        f = line.split()
        si = int(f[0])
        n = infos[si]['packets']
        kind, k, a, b = (f[1], int(f[2]), int(f[3]), int(f[4])) if len(f) == 5 else (f[5], int(f[6]), int(f[7]), int(f[8]))
        if kind == 'flip':
            return ((b if b >= 0 else infos[si]['lens'][k]) - a) * 8 * n
        if kind == 'trunc':
            return infos[si]['lens'][k] * n
        if kind == 'restart':
            return (infos[a]['packets'] + 1) * (infos[a]['packets'] // 2 + n - k)
        return n

    SLICE = 4000000 if deadline is not None else 10 ** 18

    def phase(name, cases, flavour='plain'):
        nonlocal exhaustive
        ts = time.time()
        done = 0
        i = 0
        while i < len(cases):
            if deadline is not None and time.time() > deadline:
                exhaustive = False
                phases_done.append(f'{name}:CUT by deadline after {done} of {len(cases)} case lines')
                return
            j, c = i, 0
            while j < len(cases) and (c < SLICE or j == i):
                c += est(cases[j][0])
                j += 1
            run_phase(chk, acc, exe if flavour == 'plain' else exe_asan, cases[i:j], paths, recs, infos, flavour, 'c11' + name)
            done += j - i
            i = j
        phases_done.append(f'{name}:{len(cases)} case lines:{time.time() - ts:.1f}s')

    def fam_idx(f):
        return [i for i, r in enumerate(recs) if r['family'] == f and not r.get('hr') and not r.get('lap')]

    quick_fams = ['a8k', 'b16k', 'c44k', 'd8k_imp', 'e8k_alt', 'f0r0', 'm3', 'r2', 'g8k_tsil1', 'g8k_tsil3']
    # --- page-level damage through vorbisfile (all streams incl. twins)
    pgc = []
    for si in range(len(recs)):
        if not recs[si].get('hr') and not recs[si].get('lap'):
            pgc += page_cases(si, paths[si])
    phase('pages', pgc)
    # --- ASan pass: all bit flips + truncations of the smallest stream (both styles)
    small = [i for i, r in enumerate(recs) if r['family'] == 'a8k' and r['style'] != 'twin']
    asan_cases = []
    for si in small:
        for k in range(infos[si]['packets']):
            L = infos[si]['lens'][k]
            for lo in range(0, max(L, 1), FLIP_CHUNK):
                asan_cases.append((f'{si} flip {k} {lo} {min(L, lo + FLIP_CHUNK)}', (si, 'flip_asan', k)))
            asan_cases.append((f'{si} trunc {k} 0 -1', (si, 'trunc_asan', k)))
    phase('asan', asan_cases, 'asan')
    # --- single disturbances, quick families, both granule styles (one phase: better load balance)
    singles = []
    for f in quick_fams:
        e, p, t = fam_idx(f)
        singles += single_cases(e, infos[e], [t], e)
        singles += single_cases(p, infos[p], [t], p)
    def hr_idx(f, st):
        return [i for i, r in enumerate(recs) if r.get('hr') and not r.get('lap') and r['family'] == f and r['style'] == st][0]

    # half-rate pass (quick): every single disturbance incl. all bit flips, truncations, restarts on the 44.1 kHz page-style stream
    hq = hr_idx('c44k', 'page')
    singles += hr_tag(single_cases(hq, infos[hq], [fam_idx('c44k')[2]], hq))

    def lap_idx(f, st, hr):
        return [i for i, r in enumerate(recs) if r.get('lap') and bool(r.get('hr')) == bool(hr) and r['family'] == f and r['style'] == st][0]

    # lapout read path (quick): every single disturbance incl. all bit flips, truncations, restarts (own + twin history)
    for f, st, hr in lap_wanted[:4]:
        li = lap_idx(f, st, hr)
        singles += tag(single_cases(li, infos[li], [fam_idx(f)[2]], li), 'lap_')
    # the finished samples read through lapout must be exactly those of the pcmout path (clean streams)
    for li, r in enumerate(recs):
        if r.get('lap'):
            chk.cov['evaluations'] += 1
            if infos[li]['lap_equals_pcmout'] != 1:
                chk.violation(f"clean_lapout_differs_from_pcmout:{r['family']}:{r['style']}{':halfrate' if r.get('hr') else ''}",
                              f"stream {r['name']}: clean decode read through vorbis_synthesis_lapout differs from the pcmout path, first at packet {infos[li]['lap_first_diff']}",
                              {'case': 'lapinfo', 'recipes': [r]})
    phase('single', singles)
    if tier == 'thorough':
        # pairs of disturbances: every k1<k2 x 7x7 simple operations
        for f in ['a8k', 'd8k_imp', 'b16k', 'e8k_alt', 'f0r0', 'm3', 'r2', 'g8k_tsil1', 'c44k']:
            for st in (1, 0):
                si = fam_idx(f)[st]
                phase(f'pairs_simple_{f}_{recs[si]["style"]}', pair_cases_simple(si, infos[si]))
        # every bit flip / truncation of packet k2 after a structural disturbance 1..3 packets earlier
        for f in ['a8k', 'd8k_imp', 'f0r0', 'm3', 'r2', 'g8k_tsil1', 'c44k', 'e8k_alt', 'b16k']:
            for st in (1, 0):
                si = fam_idx(f)[st]
                phase(f'pairs_flip_{f}_{recs[si]["style"]}', pair_cases_flip(si, infos[si]))
        # half-rate: the remaining switching streams (all single disturbances), pairs on the 44.1 kHz stream
        for f, st in hr_wanted[1:]:
            si = hr_idx(f, st)
            cs = hr_tag(single_cases(si, infos[si], [fam_idx(f)[2]], si))
            phase(f'halfrate_single_{f}_{st}_structural', [c for c in cs if c[1][1] not in ('hr_flip', 'hr_trunc')])
            phase(f'halfrate_single_{f}_{st}_flip_trunc', [c for c in cs if c[1][1] in ('hr_flip', 'hr_trunc')])
        for f, st, hr in lap_wanted[4:]:
            li = lap_idx(f, st, hr)
            cs = tag(single_cases(li, infos[li], [fam_idx(f)[2]], li), 'lap_hr_' if hr else 'lap_')
            phase(f'lapout_single_{f}_{st}{"_halfrate" if hr else ""}_structural', [c for c in cs if base_kind(c[1][1]) not in ('flip', 'trunc')])
            phase(f'lapout_single_{f}_{st}{"_halfrate" if hr else ""}_flip_trunc', [c for c in cs if base_kind(c[1][1]) in ('flip', 'trunc')])
        lq = lap_idx('c44k', 'page', 0)
        phase('lapout_pairs_simple_c44k_page', tag(pair_cases_simple(lq, infos[lq]), 'lap_'))
        phase('lapout_pairs_flip_c44k_page', tag(pair_cases_flip(lq, infos[lq]), 'lap_'))
        lm = lap_idx('m3', 'page', 0)
        phase('lapout_pairs_simple_m3_page', tag(pair_cases_simple(lm, infos[lm]), 'lap_'))
        phase('lapout_pairs_flip_m3_page', tag(pair_cases_flip(lm, infos[lm]), 'lap_'))
        phase('halfrate_pairs_simple_c44k_page', hr_tag(pair_cases_simple(hq, infos[hq])))
        phase('halfrate_pairs_flip_c44k_page', hr_tag(pair_cases_flip(hq, infos[hq])))
        # longer streams: all single disturbances (split so that the deadline cuts at a phase boundary)
        for f in ['a8k_long', 'b16k_clicks', 'g44k_tsil1', 'g44k_tsil3', 'c44k_long']:
            e, p, t = fam_idx(f)
            for si in (p, e):
                cs = single_cases(si, infos[si], [t], si)
                phase(f'single_{f}_{recs[si]["style"]}_structural', [c for c in cs if c[1][1] not in ('flip', 'trunc')])
                phase(f'single_{f}_{recs[si]["style"]}_flip_trunc', [c for c in cs if c[1][1] in ('flip', 'trunc')])

    # --- coverage
    nontrivial = sorted(s for s, c in acc.by.items() if c['obs'] > 0 and (c['acc'] > 0 or base_kind(s[1]) in ('dropgap', 'drop') or base_kind(s[1]).startswith(('pair_', 'pg'))))
    T = acc.tot
    flips = acc.kinds['flip']
    samples = []
    for s in nontrivial[::max(1, len(nontrivial) // 10)][:10]:
        c = acc.by[s]
        samples.append({'stream': recs[s[0]]['name'], 'kind': s[1], 'k': s[2], 'block': (infos[s[0]]['blocks'][s[2]] if not s[1].startswith('pg') else 'page'), 'damaged_histories': c['n'], 'accepted': c['acc'], 'rejected': c['rej'], 'observable': c['obs'], 'blocksize_changed': c['bsz']})
    # transitions covered at damaged indices with an accepted, observable flip
    trans_hit = set()
    for s, c in acc.by.items():
        if s[1] == 'flip' and c['obs'] > 0:
            b = infos[s[0]]['blocks']
            k = s[2]
            if k > 0 and b[k - 1] != b[k]:
                trans_hit.add(b[k - 1] + b[k])
            if k + 1 < len(b) and b[k + 1] != b[k]:
                trans_hit.add(b[k] + b[k + 1] + "'")
    chk.cov.update({
        'distinct_nontrivial': len(nontrivial),
        'rule': 'distinct (stream, kind, k) cases in which the damaged/extra packet was accepted by vorbis_synthesis (for drops: the packet was withheld) AND the output chunk of packet k or k+1 '
                'differed from the clean decode, i.e. the damage was observable (page-level cases: total output changed); every such case still had all other chunks bit-identical',
        'samples': samples,
        'exhaustive': exhaustive,
        'damaged_histories_decoded': T['n'],
        'chunks_compared': T['cmp'],
        'damaged_packet_accepted': T['acc'], 'damaged_packet_rejected': T['rej'], 'observable': T['obs'], 'accepted_with_other_blocksize': T['bsz'],
        'bit_flips': {'histories': flips['n'], 'accepted': flips['acc'], 'rejected': flips['rej'], 'observable': flips['obs'], 'blocksize_changed': flips['bsz']},
        'per_kind': {k: dict(v) for k, v in sorted(acc.kinds.items())},
        'final_count_exemption': {'applied': T['ex'], 'count_really_differed': T['exdiff']},
        'start_trim_exemption_applied': T['sx'],
        'vorbisfile_page_cases': {k: dict(v) for k, v in sorted(acc.kinds.items()) if k.startswith('pg')},
        'skipped_case_lines': T['skipped'],
        'streams': [{'name': r['name'], 'packets': i['packets'], 'bytes': i['bytes'], 'blocks': i['blocks'], 'granule_packets': i['granule_packets'], 'ch': i['ch'], 'decoded_silent_mask': i['decoded_silent_mask'], 'first_floor_used': i['first_floor_used'], 'halfrate': bool(r.get('hr')), 'lapout_read_path': bool(r.get('lap')), 'clean_samples': i['samples']} for r, i in zip(recs, infos)],
        'phases': phases_done,
        'transition_kinds_hit_by_observable_flips': sorted(trans_hit),
    })
    chk.assumptions += [
        'a packet rejected by vorbis_synthesis is skipped without vorbis_synthesis_blockin (what vorbisfile and the examples do)',
        'the COUNT of the final e_o_s packet is demanded only when a granule-bearing packet is delivered between the last disturbance and it (block.c:837-846 documents that end trimming needs an in-sequence position reference); its common prefix is always compared',
        'streams start at granule 0 without initial trimming (a lost packet in a first page with start trimming makes the trim amount unknowable; not judged)',
        'restart histories come from streams with a byte-identical identification+setup header',
        'outputs are taken by one pcmout/read drain after every packet',
        'lapout read path: lapout is called once per accepted block (pcmout(v,NULL) for the count, lapout for the data, read of the finished samples); only the finished samples are judged, the look-ahead part is not',
        'half-rate pass: packet level only (vorbis_synthesis_halfrate before vorbis_synthesis_init); page-level half-rate through vorbisfile is C20 territory',
        'page level: OV_HOLE is demanded except for a missing first audio page of a seekable open (vorbisfile restarts the stream state there, the gap is not detectable); tail judged only when a complete page follows the page after the gap',
    ]
    chk.guard(flips['acc'] > 0 and flips['obs'] > 0, 'some bit flips were accepted and changed the audio of packet k/k+1')
    chk.guard(flips['rej'] > 0, 'some bit flips were rejected by vorbis_synthesis')
    chk.guard(flips['bsz'] > 0, 'some accepted bit flips changed the block size of the damaged packet (window shape of the neighbours changes)')
    chk.guard(acc.kinds['trunc']['acc'] > 0 and acc.kinds['trunc']['rej'] > 0, 'truncations both accepted and rejected')
    chk.guard(len([t for t in trans_hit]) >= 4, 'observable accepted flips at packets before and after short->long and long->short transitions')
    chk.guard(acc.kinds['restart_twin']['n'] > 0 and acc.kinds['restart_twin']['skipped'] == 0 and acc.kinds['restart_twin']['obs'] > 0, "restart after a prefix of a DIFFERENT stream's packets covered")
    chk.guard(acc.kinds['flip_asan']['n'] > 0, 'ASan pass over all bit flips of the smallest stream ran')
    f0 = fam_idx('f0r0')[1]
    chk.guard(all(any(acc.by[(f0, kind, k)]['n'] > 0 for k in range(infos[f0]['packets']) if infos[f0]['blocks'][k] == b) for b in 'SL' for kind in ('restart_own', 'restart_twin', 'dropgap', 'flip'))
              and infos[f0]['blocks'][0] == 'S' and acc.by[(f0, 'restart_own', infos[f0]['blocks'].index('L'))]['obs'] > 0,
              'floor-0 stream (one floor shared by both modes): restarts with an empty history at packets of the OTHER block size than the first audio packet (lazily built bark map) were executed')
    for gf in ('g8k_tsil1', 'g8k_tsil3'):
        for gi in fam_idx(gf)[:2]:
            npk = infos[gi]['packets']
            chk.guard(all(acc.by[(gi, kind, k)]['n'] > 0 for k in range(npk) for kind in ('dropgap', 'drop', 'restart_own', 'restart_twin')) and acc.by[(gi, 'restart_own', 5)]['n'] == npk + 1,
                      f'{recs[gi]["name"]}: every drop point and every (history length, restart point) pair executed; all later packets compared bit-exactly (memcmp)')
    lq0 = lap_idx('c44k', 'page', 0)
    lpf = acc.kinds['lap_flip']
    chk.guard(infos[lq0]['lap'] == 1 and 'LS' in infos[lq0]['blocks'] and lpf['n'] > 0 and lpf['obs'] > 0
              and all(acc.kinds['lap_' + k]['n'] > 0 and acc.kinds['lap_' + k]['skipped'] == 0 for k in ('dropgap', 'drop', 'dup', 'dupr', 'zero', 'restart_own', 'restart_twin', 'trunc', 'repl', 'hdr'))
              and any(acc.by[(lq0, 'lap_restart_own', k)]['n'] > 0 and acc.by[(lq0, 'lap_dropgap', k - 1)]['n'] > 0 for k in range(2, infos[lq0]['packets']) if infos[lq0]['blocks'][k:k + 2] == 'LS'),
              'lapout read path ran on streams with long->short transitions: every kind incl. restart at the long packet before a short one and loss of the packet before that')
    hrf = acc.kinds['hr_flip']
    chk.guard(infos[hq]['halfrate'] == 1 and hrf['n'] > 0 and hrf['obs'] > 0 and hrf['bsz'] > 0
              and all(acc.kinds['hr_' + k]['n'] > 0 and acc.kinds['hr_' + k]['skipped'] == 0 for k in ('dropgap', 'drop', 'dup', 'dupr', 'zero', 'restart_own', 'restart_twin', 'trunc', 'repl')),
              'half-rate pass ran on a stream that switches short/long: all kinds incl. every bit flip executed, some flips observable and some changing the block size')
    chk.guard(T['skipped'] == 0 or tier == 'thorough', 'no case line skipped')
    chk.guard(all(acc.kinds[k + m]['obs'] > 0 for k in ('pgdrop', 'pgcrc', 'pgdup') for m in ('_seekable', '_streaming')), 'page-level damage through vorbisfile (seekable and streaming) changed the output and was judged')
    chk.guard(T['ex'] > 0 and T['ex'] * 20 < T['n'], 'final-count exemption is exercised but narrow (<5% of damaged histories)')
    return chk.finish()


def replay(path):
    r = json.load(open(path))['replay']
    flav = r.get('flavour', 'plain')
    vlib.build(flav, 'plain')
    exe = vlib.harness(flav, 'c11_damage')
    paths = make_streams(r['recipes'])
    if r['case'] == 'bytefacts':
        inf = stream_info(exe, paths)
        bf = byte_facts(paths[0], r['recipes'][0]['family'])
        same = bf['blocks'] == inf[0]['blocks'] and bf['lens'] == inf[0]['lens'] and (bf['bs0'], bf['bs1']) == (inf[0]['bs0'], inf[0]['bs1'])
        print('library block sizes agree with the packet bytes:', same)
        return 0 if same else 1
    if r['case'] == 'lapinfo':
        inf = stream_info(exe, paths)
        print('clean lapout output equals pcmout output:', inf[0]['lap_equals_pcmout'] == 1)
        return 0 if inf[0]['lap_equals_pcmout'] == 1 else 1
    if r['case'] == 'info':
        inf = stream_info(exe, paths)
        same = inf[0]['pcm_hash'] == inf[1]['pcm_hash'] and inf[0]['counts'] == inf[1]['counts']
        print('clean decode of both granule styles identical:', same)
        return 0 if same else 1
    out = vlib.run_cases(exe, [r['case']], list(r.get('fixed', [])) + paths, jobs=1, tag='c11replay')
    print(r['case'], '->', out[0])
    return 0 if (out[0] or '').startswith(('ok', 'SKIP')) else 1
