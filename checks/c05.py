"""C05: encoder output is a valid stream that the decoder consumes bit-for-bit.
Bounded-exhaustive enumeration of encoder configurations x signals; every header and packet the real encoder emits is parsed by the
strict specification-level parser (pylib/vspec.py) and by the real decoder; fields, window flags and bit consumption are compared."""
import sys, os, time, json, struct, subprocess, itertools, multiprocessing as mp
import vlib

PID = 'C05'


def _imp():
    global np, vspec, vsynth
    import numpy as np
    import vspec, vsynth


def configs(tier):
    """yields dict(rate, ch, mode, q, max, nom, min, ctl)"""
    rates = [8000, 11025, 16000, 22050, 32000, 44100, 48000, 96000] if tier == 'thorough' else [8000, 16000, 22050, 44100, 48000]
    quals = [-0.1, 0.0, 0.1, 0.2, 0.3, 0.4, 0.5, 0.6, 0.7, 0.8, 0.9, 1.0] if tier == 'thorough' else [-0.1, 0.3, 0.7, 1.0]
    chans = [1, 2, 3, 6] if tier == 'thorough' else [1, 2, 6]
    for rate in rates:
        for ch in chans:
            for q in quals:
                yield dict(rate=rate, ch=ch, mode='q', q=q, max=-1, nom=-1, min=-1, ctl='-')
            # control settings on one quality
            for ctl in ('lp=%d' % max(2, rate // 4000), 'imp=-10', 'nocouple', 'lp=%d,imp=-5' % max(2, rate // 5000)):
                if ctl == 'nocouple' and ch != 2:
                    continue
                yield dict(rate=rate, ch=ch, mode='q', q=0.4, max=-1, nom=-1, min=-1, ctl=ctl)
            # application-side variations the examples never use: no comments / many comments, several vorbis_block objects in rotation, block re-created mid-stream
            if ch <= 2:
                for ctl in ('nocomment', 'comments=40', 'blocks=3', 'reinit=5', 'blocks=2,reinit=3'):
                    yield dict(rate=rate, ch=ch, mode='q', q=0.3, max=-1, nom=-1, min=-1, ctl=ctl)
            # comment-list shapes the encoder must be able to hand to its own decoder: every list of <= 2 entries (thorough <= 3) over
            # {empty string, "A=b", "=", 300-byte value, embedded NUL, NULL pointer entry, tag without '='} (round-7 seed C05r7-2: zero-length entry refused)
            if ch == 1 and rate == rates[0]:
                import itertools
                for L in range(1, 4 if tier == 'thorough' else 3):
                    for combo in itertools.product('0123456', repeat=L):
                        yield dict(rate=rate, ch=ch, mode='q', q=0.3, max=-1, nom=-1, min=-1, ctl='cl=' + ''.join(combo))
            # managed: ABR, max-only, min-only, CBR-like, all three
            per = {8000: 16000, 11025: 20000, 16000: 28000, 22050: 36000, 32000: 48000, 44100: 64000, 48000: 64000, 96000: 96000}[rate] * (ch if ch < 3 else 3)
            for (mx, nom, mn) in ((-1, per, -1), (per, -1, -1), (-1, -1, per // 2), (per, per, per), (per * 3 // 2, per, per // 2)):
                yield dict(rate=rate, ch=ch, mode='m', q=0, max=mx, nom=nom, min=mn, ctl='-')


def signals(tier):
    return ['silence', 'noise', 'impulse', 'sine', 'dc', 'denormal', 'over', 'mix'] if tier == 'thorough' else ['silence', 'noise', 'impulse', 'over']


def read_batch_file(path):
    data = open(path, 'rb').read()
    o = 4
    ns = struct.unpack_from('<i', data, 0)[0]
    out = []
    for _ in range(ns):
        npk = struct.unpack_from('<i', data, o)[0]
        o += 4
        pk = []
        for _ in range(npk):
            ln, gp, fl = struct.unpack_from('<iqi', data, o)
            o += 16
            pk.append((data[o:o + ln], gp, fl))
            o += ln
        out.append(pk)
    return out


def worker(args):
    wid, cases, deadline = args
    _imp()
    enc = vlib.harness('plain', 'c05_enc')
    tmp = os.path.join(vlib.BUILD, 'tmp')
    os.makedirs(tmp, exist_ok=True)
    res = {'n': 0, 'viol': [], 'sigs': set(), 'packets': 0, 'refused': 0, 'cut': False, 'eop_with_max': 0, 'samples': [], 'long_flags_checked': 0, 'managed': 0}
    for ci in range(0, len(cases), 8):
        if time.time() > deadline:
            res['cut'] = True
            break
        chunk = cases[ci:ci + 8]
        base = os.path.join(tmp, f'c05.{os.getpid()}.{ci}')
        with open(base + '.cases', 'w') as f:
            for k, c in enumerate(chunk):
                f.write(f"{k} {c['rate']} {c['ch']} {c['mode']} {c['q']} {c['max']} {c['nom']} {c['min']} {c['sig']} {c['n']} {c['ctl']}\n")
        p = subprocess.run([enc, base + '.cases', base + '.bin', base + '.info'], stdout=subprocess.PIPE, stderr=subprocess.PIPE, env=vlib.run_env())
        if p.returncode != 0:
            res['viol'].append(('encoder_died', f'encoder executor rc={p.returncode} {p.stderr.decode("latin-1")[-300:]}', {'cases': chunk}))
            continue
        infos = [l.split() for l in open(base + '.info')]
        streams = read_batch_file(base + '.bin')
        # library decode of the very same bytes
        lib_streams = []
        objs = []
        for c, inf, pk in zip(chunk, infos, streams):
            res['n'] += 1
            if int(inf[1]) != 0:
                res['refused'] += 1
                objs.append(None)
                continue
            hs = [x[0] for x in pk[:3]]
            st = vsynth.Stream(None, [x[0] for x in pk[3:]], [x[1] for x in pk[3:]], [1 if x[2] & 2 else 0 for x in pk[3:]], headers=hs)
            lib_streams.append(st)
            objs.append(st)
        libres, rc, err = vsynth.run_lib(lib_streams, tag='c05d') if lib_streams else ([], 0, '')
        li = 0
        for c, inf, pk, st in zip(chunk, infos, streams, objs):
            if st is None:
                continue
            lr = libres[li]
            li += 1
            rep = {'config': c}
            tag = f"{c['mode']}:{c['rate']}:{c['ch']}"
            def bad(key, msg):
                res['viol'].append((f'{key}:{tag}', f'{c}: {msg}', rep))
            try:
                idh = vspec.parse_id(st.headers[0])
                vendor, comments = vspec.parse_comment(st.headers[1])
                s = vspec.parse_setup(st.headers[2], idh['channels'], idh['bs0'], idh['bs1'])
            except vspec.SpecError as e:
                bad('header_not_spec_valid', f'strict parser rejects an encoder header: {e}')
                continue
            want = (int(inf[2]), int(inf[3]), int(inf[4]), int(inf[5]), (int(inf[6]), int(inf[7]), int(inf[8])))
            got = (idh['channels'], idh['rate'], idh['bs0'], idh['bs1'], idh['bitrates'])
            if want != got:
                bad('header_fields', f'id header says {got}, vorbis_info says {want}')
            if (idh['channels'], idh['rate']) != (c['ch'], c['rate']):
                bad('header_fields', f'id header channels/rate {idh["channels"]}/{idh["rate"]} differ from the request')
            # trailing bits of the headers: after the framing bit only padding to the byte
            if s.nbytes * 8 - s.bits >= 8 or idh['bytes'] * 8 - idh['bits'] >= 8:
                bad('header_trailing_bytes', 'header packet longer than its content')
            if lr is None or lr['hrc'] != (0, 0, 0) or lr['initrc'] != 0:
                bad('decoder_rejects_headers', f'vorbis_synthesis_headerin/init on encoder output: {None if lr is None else (lr["hrc"], lr["initrc"])}')
                continue
            codec = vspec.PacketCodec(s)
            hardmax, managed = effective_management(c)
            if managed:
                res['managed'] += 1
            flags = []
            ok_stream = True
            for i, data in enumerate(st.packets):
                res['packets'] += 1
                io = vspec.ReadIO(data)
                try:
                    d = codec.run(io)
                except vspec.EndOfPacket:
                    bad('packet_truncated_before_floor', f'packet {i} ({len(data)} bytes) ends inside the mode/window header')
                    ok_stream = False
                    break
                except vspec.SpecError as e:
                    bad('packet_not_spec_valid', f'packet {i}: {e}')
                    ok_stream = False
                    break
                used = min(io.r.pos, io.r.nbits)
                flags.append((d.W, d.prev, d.next))
                src, brc, lbits, n, _ = lr['packets'][i]
                if src != 0 or brc != 0:
                    bad('decoder_rejects_packet', f'packet {i}: vorbis_synthesis={src} blockin={brc}')
                    ok_stream = False
                    break
                if d.eop is not None:
                    if not hardmax:
                        bad('packet_runs_out_of_bits', f'packet {i} ({len(data)} bytes): end of packet during {d.eop} decode without a hard maximum configured')
                        ok_stream = False
                        break
                    res['eop_with_max'] += 1
                    continue
                if not managed:
                    if not (8 * (len(data) - 1) < used <= 8 * len(data)):
                        bad('packet_not_consumed_to_last_byte', f'packet {i}: {len(data)} bytes, specification decode uses {used} bits')
                    if lbits != used:
                        bad('decoder_bit_consumption', f'packet {i}: library consumed {lbits} bits, specification decode {used}')
            if not ok_stream:
                continue
            for i, (W, pv, nx) in enumerate(flags):
                if not W:
                    continue
                if i > 0:
                    res['long_flags_checked'] += 1
                    if pv != flags[i - 1][0]:
                        bad('window_flag_prev', f'packet {i}: previous-window flag {pv}, previous packet is {"long" if flags[i-1][0] else "short"}')
                if i + 1 < len(flags):
                    if nx != flags[i + 1][0]:
                        bad('window_flag_next', f'packet {i}: next-window flag {nx}, next packet is {"long" if flags[i+1][0] else "short"}')
            res['sigs'].add((c['mode'], c['rate'], c['ch'], c['q'], c['max'], c['nom'], c['min'], c['ctl'], c['sig']))
            if len(res['samples']) < 2:
                res['samples'].append({k: c[k] for k in ('rate', 'ch', 'mode', 'q', 'max', 'nom', 'min', 'ctl', 'sig')})
        for ext in ('.cases', '.bin', '.info'):
            try:
                os.unlink(base + ext)
            except OSError:
                pass
    res['sigs'] = list(res['sigs'])
    return res


def effective_management(c):
    """(hard maximum configured, bitrate management active) after the control requests of the case"""
    managed = c['mode'] == 'm'
    hardmax = managed and c['max'] > 0
    for t in c['ctl'].split(','):
        if t == 'rm2null':
            managed, hardmax = False, False
        elif t.startswith('rm2='):
            f = t[4:].split(':')
            managed = True
            if f[0] != 'x':
                hardmax = int(f[0]) > 0
    return hardmax, managed


def long_cases(tier):
    """several seconds of alternating loud noise / quiet tone through every managed limit combination: the reservoirs fill and drain,
    so the limit logic (truncation only under a hard maximum, padding under a minimum) is really exercised"""
    out = []
    for rate, ch, per in ((8000, 1, 16000), (44100, 2, 128000)) + (((22050, 2, 64000), (16000, 1, 28000)) if tier == 'thorough' else ()):
        n = rate * (6 if rate > 20000 or tier == 'thorough' else 8)
        for (mx, nom, mn) in ((-1, per, -1), (-1, per, per // 2), (-1, -1, per // 2), (per, -1, -1), (per * 3 // 2, per, per // 2), (per, per, per)):
            out.append(dict(rate=rate, ch=ch, mode='m', q=0, max=mx, nom=nom, min=mn, ctl='-', sig='alt', n=n))
        # control-interface routes to the same machinery: average only / minimum only with a SMALL reservoir (no hard maximum: nothing may be truncated),
        # quality mode plus a hard maximum (oggenc -q N -M max), limits with a zero reservoir, management switched off again (oggenc -b)
        k = per // 1000
        for sig in ('alt', 'noise'):
            for ctl in ('rm2=0:%d:0:4096:x' % k, 'rm2=0:%d:0:4096:100' % k, 'rm2=0:%d:0:512:0' % (k * 2), 'rm2=0:%d:%d:2048:50' % (k, k // 2), 'rm2=0:0:%d:1024:x' % (k // 2)):
                out.append(dict(rate=rate, ch=ch, mode='m', q=0, max=-1, nom=per, min=-1, ctl=ctl, sig=sig, n=n // 2))
        # the same small reservoirs under other set-up templates (the nominal rate selects the mode and thereby the packet sizes of the candidate blobs)
        for nom in (per // 2, per * 25 // 16, per * 2):
            for ctl in ('rm2=0:x:0:4096:10', 'rm2=0:x:0:4096:100', 'rm2=0:x:0:1024:x'):
                out.append(dict(rate=rate, ch=ch, mode='m', q=0, max=-1, nom=nom, min=-1, ctl=ctl, sig='noise', n=n // 2))
        for ctl in ('rm2=%d:0:0:x:x' % k, 'rm2=%d:0:0:4096:0' % (k // 2), 'rm2=%d:0:%d:x:x' % (k * 2, k // 2)):
            out.append(dict(rate=rate, ch=ch, mode='q', q=0.3, max=-1, nom=-1, min=-1, ctl=ctl, sig='alt', n=n // 2))
        for (mx, nom, mn) in ((per * 3 // 2, per, per // 2), (-1, per, -1), (per, -1, -1)):
            out.append(dict(rate=rate, ch=ch, mode='m', q=0, max=mx, nom=nom, min=mn, ctl='rm2null', sig='alt', n=n // 3))
        out.append(dict(rate=rate, ch=ch, mode='m', q=0, max=per * 3 // 2, nom=per, min=per // 2, ctl='rm2=%d:%d:%d:0:x' % (k * 3 // 2, k, k // 2), sig='alt', n=n // 3))
    return out


def all_cases(tier):
    cases = long_cases(tier)
    for c in configs(tier):
        for sg in signals(tier):
            d = dict(c)
            d['sig'] = sg
            d['n'] = int(c['rate'] * (0.35 if tier == 'quick' else 0.6))
            cases.append(d)
    return cases


def run(tier):
    os.environ.setdefault('OMP_NUM_THREADS', '1')
    chk = vlib.Check(PID, tier, 'exploration')
    vlib.build('plain')
    vlib.harness('plain', 'c05_enc')
    vlib.harness('plain', 'c01_dec')
    _imp()
    cases = all_cases(tier)
    nw = vlib.NPROC
    deadline = time.time() + (150 if tier == 'quick' else 1380)
    shards = [cases[w::nw] for w in range(nw)]
    with mp.Pool(nw) as pool:
        rs = pool.map(worker, [(w, shards[w], deadline) for w in range(nw)])
    sigs = set()
    tot = {'n': 0, 'packets': 0, 'refused': 0, 'eop_with_max': 0, 'long_flags_checked': 0, 'managed': 0}
    cut = False
    for r in rs:
        for k in tot:
            tot[k] += r[k]
        cut = cut or r['cut']
        sigs.update(tuple(x) for x in r['sigs'])
        for key, msg, rep in r['viol']:
            chk.violation(key, msg, rep)
        chk.cov['samples'] += r['samples'][:1]
    chk.cov.update({'evaluations': tot['n'], 'distinct_nontrivial': len(sigs), 'exhaustive': not cut, 'cases_enumerated': len(cases), 'audio_packets_parsed': tot['packets'],
                    'setups_refused_by_encoder': tot['refused'], 'truncated_packets_under_hard_max': tot['eop_with_max'], 'long_window_flags_checked': tot['long_flags_checked'], 'managed_streams': tot['managed'],
                    'rule': 'every (rate, channels, quality | managed triple, ctl setting) x signal of the tier grid is encoded with the real encoder; the three headers go through the strict specification parser and through vorbis_synthesis_headerin; '
                            'every audio packet is walked symbol by symbol by the specification-level packet decoder (all codewords valid, mode in range) and by vorbis_synthesis; VBR: bits used in (8(bytes-1), 8 bytes] and equal to the library\'s consumption; '
                            'managed: no rejection, no end-of-packet unless a hard maximum is set; long-block window flags equal the neighbours\' block types; distinct_nontrivial = distinct (config, signal) streams that passed every test'})
    chk.assumptions += ['the first packet\'s previous-window flag and the last packet\'s next-window flag are not judged (no neighbour)', 'strict parser = pylib/vspec.py, written from doc/*.tex']
    chk.guard(tot['long_flags_checked'] > 50, 'long-block window flags were checked against neighbours')
    chk.guard(tot['managed'] > 10, 'managed streams covered')
    chk.guard(tot['refused'] < 0.3 * max(1, tot['n']), 'most configurations set up')
    return chk.finish()


def replay(path):
    r = json.load(open(path))
    vlib.build('plain')
    c = r['replay']['config']
    out = worker((0, [c], time.time() + 600))
    for v in out['viol']:
        print(v[0], v[1])
    return 1 if out['viol'] else 0
