"""C03: vorbisfile is memory-safe and terminates on arbitrary physical streams; every call returns data or a documented code;
a failed open leaves the handle cleared and the data source unclosed.

Bounded-exhaustive enumeration: (mutated physical streams: every page x every mutation operator, 1 deviation from an intact base
file; every truncation length; every CRC-fixed single-byte substitution in the header packets and the first two audio packets;
chains of 1..8 links incl. zero-sample links and repeated serial numbers; crafted set-up headers; valid multiplexed streams whose
links open with 2..65 (thorough: ..258) BOS pages, pylib/c03_mux.py; encoder-made links re-paged into one-packet / split-packet / three-page-packet /
natural pages with one junk run of a 10-kind alphabet in every page gap and a sweep of every seek kind over the page-boundary positions on fresh
and reused handles, pylib/c03_junk.py) x (open mode) x (ALL call
sequences up to depth 2 (3 thorough) over a public-API alphabet), each executed on the REAL library under ASan + UBSan-subset with a
per-case CPU watchdog (harness/c03_extra.c).  Streams are mutated in Python with the framework's independent Ogg page writer."""
import os, sys, json, time, itertools, hashlib, collections
import vlib, zoo
import c03_lib as L
import c03_mux as MUX
import c03_junk as JUNKP
from vlib import Page

PID = 'C03'

# ------------------------------------------------------------------ documented return values (doc/vorbisfile/*.html + vorbisfile.h)
OV = dict(FALSE=-1, EOF=-2, HOLE=-3, EREAD=-128, EFAULT=-129, EIMPL=-130, EINVAL=-131, ENOTVORBIS=-132, EBADHEADER=-133,
          EVERSION=-134, ENOTAUDIO=-135, EBADPACKET=-136, EBADLINK=-137, ENOSEEK=-138)
NAME = {v: k for k, v in OV.items()}
LONG_MIN = -(1 << 63)
DOC_OPEN = {0, OV['EREAD'], OV['ENOTVORBIS'], OV['EVERSION'], OV['EBADHEADER'], OV['EFAULT']}       # ov_open_callbacks.html, ov_test_callbacks.html, ov_test_open.html
DOC_READ = {OV['HOLE'], OV['EBADLINK'], OV['EINVAL']}                                                # ov_read.html / ov_read_float.html (+0 EOF, +n)
DOC_SEEK = {0, OV['ENOSEEK'], OV['EINVAL'], OV['EREAD'], OV['EFAULT'], OV['EBADLINK']}               # ov_*_seek*.html
DOC_LAP = DOC_SEEK | {OV['EOF']}                                                                     # ov_*_seek*_lap.html
DOC_XLAP = {0, OV['EINVAL'], OV['EFAULT'], OV['EREAD'], OV['EOF']}                                   # ov_crosslap.html
# Generous additions where the documentation is silent (each one is listed in chk.assumptions):
GEN_READ_STREAM = {OV['ENOTVORBIS'], OV['EBADHEADER'], OV['EVERSION'], OV['EREAD']}   # streaming read that runs into the next link's headers
GEN_LAP = {OV['EBADLINK'], OV['HOLE']} | GEN_READ_STREAM
# "nonzero indicates failure, described by several error codes": seek_error hands the internal page-search codes through
GEN_SEEK = {OV['FALSE'], OV['EOF'], OV['EBADPACKET']}                             # _lap/_crosslap prime the decoder by reading


def judge_op(op, tok, mode, opened):
    """Returns None if the result token is in the accepted set of that function, else a short reason."""
    k = op[:2]
    if k in ('rf', 'ri', 'rb', 'rB', 'RB', 'RE', 'RN'):
        v = int(tok)
        if v >= 0 or v in DOC_READ:
            return None
        if mode in ('n', 'u') and v in GEN_READ_STREAM:
            return None
        return f'read returned {NAME.get(v, v)}'
    if k in ('ps', 'pp', 'rs', 'ts', 'tp'):
        v = int(tok)
        return None if v in DOC_SEEK or v in GEN_SEEK else f'seek returned {NAME.get(v, v)}'
    if k in ('PS', 'PP', 'RS', 'TS', 'TP'):
        v = int(tok)
        return None if v in DOC_LAP or v in GEN_LAP or v in GEN_SEEK else f'seek_lap returned {NAME.get(v, v)}'
    if k in ('XL', 'XR', 'XE', 'XF'):
        v = int(tok)
        return None if v in DOC_XLAP or v in GEN_LAP else f'crosslap returned {NAME.get(v, v)}'
    if op in ('h0', 'h1'):
        v = int(tok)
        return None if v in (0, OV['EINVAL']) else f'halfrate returned {v}'      # no HTML page exists for ov_halfrate
    if op == 'bi':
        v = int(tok)
        return None if v >= 0 or v in (OV['FALSE'], OV['EINVAL']) else f'bitrate_instant returned {v}'
    if op == 'cl':
        return None if int(tok) == 0 else f'clear returned {tok}'
    if op[0] == 'x':
        f = tok.split('/')
        if len(f) != 13:
            return 'query output malformed'
        streams, seekable, bitrate, serial, rawt, pcmt, timet, rawtell, pcmtell, timetell, hp, info, comm = f
        bitrate, rawt, pcmt, rawtell, pcmtell, hp = int(bitrate), int(rawt), int(pcmt), int(rawtell), int(pcmtell), int(hp)
        # ov_bitrate / ov_*_total are arithmetic over the file's own (possibly lying) granule positions and page offsets:
        # any number is 'data' under the weakest reading; the same holds for ov_pcm_tell/ov_time_tell (negative positions were observed after duplicated pages in streaming mode); only ov_raw_tell and ov_halfrate_p are judged
        if not (rawtell >= 0 or rawtell == OV['EINVAL']):
            return f'ov_raw_tell returned {rawtell}'
        if hp not in (0, 1, OV['EINVAL']):
            return f'ov_halfrate_p returned {hp}'
        return None
    return 'unknown op'


def sig_tok(op, tok):
    """Outcome class of one call for the distinct_nontrivial signature: error code names, '+' for data."""
    if op[0] == 'x':
        f = tok.split('/')
        return 'q' + ''.join('E' if x.startswith('-131') else ('N' if x == 'N' else ('-' if x.startswith('-') else '+')) for x in (f[2], f[5], f[8], f[11]))
    v = int(tok)
    return NAME.get(v, '+' if v > 0 else '0')


# ------------------------------------------------------------------ base files
def base_files():
    """name -> (bytes, list of Pages). All built from the current tree (encoder links) or from the spec-level packer (tiny links)."""
    out = {}
    p, _ = zoo.link('A', 1, '3')
    out['B1'] = open(p, 'rb').read()
    ch = [zoo.link('A', 11, '2', n=800), zoo.link('B', 12, '2', n=700), zoo.link('C', 13, '2', n=1200)]
    out['B3'] = b''.join(open(p, 'rb').read() for p, _ in ch)
    pm, _ = zoo.multiplexed('A', 601, '3')
    pb, _ = zoo.link('B', 602, '2', n=700)
    out['BM'] = open(pm, 'rb').read() + open(pb, 'rb').read()
    # 128-sample blocks: 64-sample blocks make every _lap call crash (finding lap_blocksize64_null_window, exercised in phase G only)
    out['BT'] = L.blob(L.tiny_spanning_link(41, npk=6, bs=7) + L.tiny_link(42, npk=3, ch=2, rate=44100, ppp=2, bs=7))
    big = [zoo.link('M', 22, 'natural'), zoo.link('N', 21, 'natural'), zoo.link('A', 23, '2', n=800)]
    out['BL'] = b''.join(open(p, 'rb').read() for p, _ in big)
    return {k: (v, vlib.parse_pages(v)) for k, v in out.items()}


class Files:
    """Collects generated files (deduplicated by content), writes them under zoo_dir()/c03_<tier>/, keeps recipes."""

    def __init__(self, tier):
        self.dir = os.path.join(vlib.zoo_dir(), 'c03_' + tier)
        os.makedirs(self.dir, exist_ok=True)
        self.paths, self.recipe, self.byhash, self.size = [], [], {}, []

    def add(self, data, recipe):
        h = hashlib.sha1(data).hexdigest()[:16]
        if h in self.byhash:
            return self.byhash[h], False
        i = len(self.paths)
        p = os.path.join(self.dir, f'{i:06d}.ogg')
        with open(p, 'wb') as f:
            f.write(data)
        self.paths.append(p)
        self.recipe.append(recipe)
        self.size.append(len(data))
        self.byhash[h] = i
        return i, True

    def listfile(self):
        lf = os.path.join(self.dir, 'list.txt')
        with open(lf, 'w') as f:
            f.write('\n'.join(self.paths) + '\n')
        return lf


# depth-1 alphabets (every file x all five open modes) and depth-2 alphabets (every opened handle, modes s and n)
# RB/RE/RN<n>: macro reads (across a link boundary / to EOF / n packets) so that depth-2 sequences start from handles that have
# streamed into the next link or sit at EOF
ALPHA_Q = ['rf4096', 'RB', 'RE', 'RN3', 'bi', 'ri64', 'ps%500', 'ps%1000', 'pp%0', 'rs%500', 'rs%1000-1', 'ts%500', 'PS%300', 'TP%800', 'h1', 'x-1', 'x0', 'XL0', 'XR0', 'cl']
ALPHA_Q2 = [o for o in ALPHA_Q if o not in ('ri64', 'x-1')]
ALPHA_T = ALPHA_Q + ['rf1', 'rb7', 'rB4096', 'ps-1', 'ps%1000+1', 'pp%500', 'rs0', 'tp%500', 'RS%500', 'PP%900', 'TS%500', 'h0', 'x1', 'x9', 'XE0', 'XF0']
ALPHA_T2 = ALPHA_Q2 + ['rf1', 'ps%1000+1', 'pp%500', 'rs0', 'RS%500', 'PP%900', 'TS%500', 'h0', 'x1', 'XE0']


class Meta(tuple):
    """compact per-case record (millions of them in thorough): m['phase'|'file'|'mode'|'ops'|'mut'|'len'|'ib']"""
    _ix = {'phase': 0, 'file': 1, 'mode': 2, 'ops': 3, 'mut': 4, 'len': 5, 'ib': 6}

    def __new__(cls, *a):
        return tuple.__new__(cls, a)

    def __getitem__(self, k):
        return tuple.__getitem__(self, Meta._ix[k]) if isinstance(k, str) else tuple.__getitem__(self, k)


def seqs_upto(alpha, depth):
    out = [()]
    for d in range(1, depth + 1):
        out += list(itertools.product(alpha, repeat=d))
    return out


def case_line(fi, mode, ops, length='-', ib=0):
    return f"{fi} {mode} {length} {ib} {' '.join(ops)}".rstrip()


def run(tier):
    chk = vlib.Check(PID, tier, 'exploration')
    t0 = time.time()
    # time cap: chunks not started by then are reported as skipped (exhaustive:false).  The quick cap scales with the number of
    # worker processes actually allowed (VERIF_JOBS); C03_DEADLINE_S overrides.
    budget = 170 * 16 / max(1, vlib.NPROC) if tier == 'quick' else 23 * 60
    budget = float(os.environ.get('C03_DEADLINE_S', budget))
    chk.deadline = t0 + budget
    vlib.build('asan', 'plain')
    exe = vlib.harness('asan', 'c03_extra')
    bases = base_files()
    F = Files(tier)
    bl_cache = {id(p): p.encode() for p in bases['BL'][1]}
    alpha = ALPHA_Q if tier == 'quick' else ALPHA_T
    alpha2 = ALPHA_Q2 if tier == 'quick' else ALPHA_T2
    cases, meta = [], []      # meta: dict(phase, file, mode, ops, mut)
    stats = collections.Counter()
    incomplete = []

    DEV = os.environ.get('C03_DEV_PHASES')      # development only: restrict phases (evidence then says exhaustive=false)

    def add_case(phase, fi, mode, ops, mut, length='-', ib=0):
        if DEV and phase not in DEV.split(','):
            return
        cases.append(case_line(fi, mode, ops, length, ib))
        meta.append(Meta(phase, fi, mode, ops, mut, length, ib))

    # file 0 of the list is the intact 1-link file: it is the twin of every ov_crosslap
    i0, _ = F.add(bases['B1'][0], {'base': 'B1', 'op': 'intact'})
    assert i0 == 0
    base_idx = {'B1': 0}
    for b in ('B3', 'BM', 'BT', 'BL'):
        base_idx[b], _ = F.add(bases[b][0], {'base': b, 'op': 'intact'})

    # ---------------------------------------------------------------- A. page-level mutations, 1 deviation
    mutated = []     # (file index, base, mutname)
    for b in ('B1', 'BT', 'B3', 'BM', 'BL'):
        data, pages = bases[b]
        npg = len(pages)
        if b == 'BL' and tier == 'quick':
            # large chain: page subset in quick (first 3 / last 2 pages of each link and one middle page); all pages in thorough
            starts = [k for k, p in enumerate(pages) if p.flags & 2] + [npg]
            sel = set()
            for a, e in zip(starts, starts[1:]):
                sel |= {a, a + 1, a + 2, (a + e) // 2, e - 2, e - 1}
            page_set = sorted(k for k in sel if 0 <= k < npg)
            incomplete.append(f'BL (large chain): {len(page_set)} of {npg} pages mutated in quick (link starts/ends/middles); all pages in thorough')
        else:
            page_set = list(range(npg))
        cache = {id(p): p.encode() for p in pages}      # original pages only (kept alive by `bases`)
        for i in page_set:
            oth = L.other_serial_for(pages, i)
            for op in L.PAGE_OPS:
                items = L.mutate_items(pages, i, op, oth)
                if items is None:
                    stats['mut_not_applicable'] += 1
                    continue
                fi, new = F.add(L.encode_items(items, cache), {'base': b, 'op': op, 'page': i})
                if new:
                    mutated.append((fi, b, op))
                else:
                    stats['mut_duplicate_content'] += 1
    stats['mutated_files'] = len(mutated)

    # depth<=1 over all five open modes on every file; depth 2 on modes s,n (BL: depth<=1 only: open + few ops)
    d1 = seqs_upto(alpha, 1)
    d2 = list(itertools.product(alpha2, repeat=2))
    intact = [(base_idx[b], b, 'intact') for b in ('B1', 'BT', 'B3', 'BM', 'BL')]
    for fi, b, op in intact + mutated:
        for mode in 'sntup':
            for s in d1:
                add_case('A1', fi, mode, s, (b, op))
    nA1 = len(cases)

    # ---------------------------------------------------------------- B. every truncation length
    trunc_bases = ['B1', 'BT', 'B3', 'BM']
    for b in trunc_bases:
        n = len(bases[b][0])
        step = 1
        for ln in range(0, n, step):
            for mode in 'sn':
                add_case('B', base_idx[b], mode, ('rf4096', 'x0'), (b, 'trunc'), length=ln)
    # ---------------------------------------------------------------- C. CRC-fixed single-byte substitutions (reach the codec parsers)
    sub_bases = [('B1', 1), ('BT', 41)] + ([('B3', 12), ('B3', 13), ('BT', 42)] if tier == 'thorough' else [])
    for b, serial in sub_bases:
        data, pages = bases[b]
        for name, blob in L.byte_substitutions(data, pages, serial, 5):
            fi, new = F.add(blob, {'base': b, 'op': 'subst', 'where': name, 'serial': serial})
            if new:
                for mode in 'sn':
                    add_case('C', fi, mode, ('rf4096', 'rf4096', 'ps%500', 'rf4096', 'x0'), (b, 'subst'))
    # self-check of the linear CRC patching against the plain CRC routine
    crc_ok = True
    for b, serial in sub_bases[:2]:
        data, pages = bases[b]
        subs = list(L.byte_substitutions(data, pages, serial, 5))
        for name, blob in subs[::max(1, len(subs) // 25)]:
            for p in vlib.parse_pages(blob):
                raw = bytearray(blob[p.offset:p.offset + p.size()])
                stored = int.from_bytes(raw[22:26], 'little')
                raw[22:26] = b'\0\0\0\0'
                crc_ok &= (vlib.ogg_crc(bytes(raw)) == stored)
    chk.guard(crc_ok, 'CRC patching by linearity agrees with the plain Ogg CRC on sampled substituted files')

    # ---------------------------------------------------------------- D. chains of 1..8 links (zero-sample links, repeated serial numbers)
    kinds = {'t': dict(npk=5, bs=7), 'u': dict(npk=3, ch=2, rate=44100, bs=8), 'z': dict(npk=0, bs=7)}
    exh = 5 if tier == 'quick' else 7
    chains = []
    for k in range(1, 9):
        if k <= exh:
            chains += list(itertools.product('tuz', repeat=k))
        else:
            chains += [tuple(x * k) for x in 'tuz'] + [tuple('tz' * k)[:k], tuple('zu' * k)[:k], tuple('tuz' * k)[:k]]
    if exh < 8:
        incomplete.append(f'chains: all 3^k kind sequences for k<= {exh}; 6 patterned sequences per k above that')
    for seq in chains:
        for sp in ('distinct', 'same', 'repeat2'):
            if sp != 'distinct' and len(seq) < 2:
                continue
            pages = []
            for pos, kd in enumerate(seq):
                serial = {'distinct': 900 + pos, 'same': 900, 'repeat2': 900 + pos % 2}[sp]
                pages += L.tiny_link(serial, **kinds[kd])
            fi, new = F.add(L.blob(pages), {'base': 'chain', 'kinds': ''.join(seq), 'serials': sp})
            if new:
                for mode in 'sn':
                    add_case('D', fi, mode, ('x0', 'rf4096', 'ps%1000', f'x{len(seq) - 1}', 'rf4096', 'RS%500'), ('chain', sp + str(len(seq))))
                    add_case('D', fi, mode, ('RB', 'bi', 'x0', 'RB', 'bi', 'RE', 'bi', 'x0', 'h1'), ('chain', sp + str(len(seq))))

    # ---------------------------------------------------------------- E. pre-read initial/ibytes buffers
    for b in ('B1', 'B3', 'BM', 'BT'):
        for ib in (0, 1, 58, 4096):
            for mode in 'nusp':
                for s in d1:
                    add_case('E', base_idx[b], mode, s, (b, f'ibytes{ib}'), ib=ib)

    # ---------------------------------------------------------------- H. long runs of junk INSIDE a link of a large seekable file + seek sweep
    # a run of pages of the large chain BL (M 62 KB / N 126 KB / A 3 KB) is replaced by {zeros, 0xff, 'OggS'-sprinkled garbage} of
    # {64Ki-1, 64Ki, 128Ki, 128Ki+1, 200Ki} bytes at the start / middle / end of a link and straddling a link boundary; every seek
    # kind and lap variant is then called (fresh handle per call) on a grid of targets over the handle's own total (before / inside /
    # after the damage), followed by a read and the position queries; plus one handle per seek kind that walks the whole grid.
    step = 25 if tier == 'quick' else 10
    grid = list(range(0, 1001, step))
    for pos, (first, last) in hole_positions(bases['BL'][1]).items():
        for kind in ('zero', 'ff', 'oggs'):
            for n in (65535, 65536, 131072, 131073, 204800):
                blob = L.encode_items(L.hole_items(bases['BL'][1], first, last, kind, n), bl_cache)
                fi, new = F.add(blob, {'base': 'BL', 'op': 'hole', 'where': pos, 'first': first, 'last': last, 'fill': kind, 'bytes': n})
                if not new:
                    continue
                for sk in ('ps', 'pp', 'ts', 'tp', 'rs', 'PS', 'PP', 'TS', 'TP', 'RS'):
                    for g in grid:
                        add_case('H', fi, 's', (f'{sk}%{g}', 'rf4096', 'bi', 'x0'), ('BL', 'hole_' + pos))
                    walk = []
                    for g in grid[::4]:
                        walk += [f'{sk}%{g}', 'rf4096']
                    add_case('H', fi, 's', tuple(walk) + ('x0',), ('BL', 'hole_' + pos))
                for mode in 'nt':
                    add_case('H', fi, mode, ('x0', 'RE', 'bi', 'x0'), ('BL', 'hole_' + pos))

    # ---------------------------------------------------------------- G. crafted set-up headers / spec-valid extremes
    crafted = {
        'dim0_maptype1': L.blob(L.tiny_link(80, npk=4, books=[dict(dim=1, entries=2, lengths=[1, 1]), dict(dim=0, entries=2, lengths=[1, 1], maptype=1, qbits=1, quant=[])])),
        'ordered_2^22_entries': L.blob(L.tiny_link(81, npk=4, books=[dict(dim=1, entries=1 << 22, ordered=(22, [1 << 22]))])),
        'blocksize64': L.blob(L.tiny_link(82, npk=6)),
        'blocksize128': L.blob(L.tiny_link(83, npk=6, bs=7)),
    }
    for name, blob in crafted.items():
        fi, _ = F.add(blob, {'base': 'crafted', 'op': name})
        for mode in 'sn':
            hangs = name == 'dim0_maptype1'      # every decoding sequence of this file costs a watchdog period
            for s in ([('x0',), ('rf4096',), ('ps%500',)] if hangs else
                      [('x0',), ('rf4096',), ('ri64',), ('PS%500',), ('XL0',), ('XR0',), ('rf4096', 'RS%500'), ('rf4096', 'TS%500'), ('h1', 'rf4096')]):
                add_case('G', fi, mode, s, ('crafted', name))
    n_pass1 = len(cases)

    # ---------------------------------------------------------------- N. links that open with MANY BOS pages (valid multiplexed streams)
    # A Vorbis stream grouped with F foreign logical streams (own serial numbers, correct CRCs and page sequence numbers, non-Vorbis
    # payloads; optionally one of them a second Vorbis stream): F x position of the Vorbis BOS page in the group x position of the link
    # in a 1..3-link chain x {foreign streams end with their BOS page | BOS+EOS page | go on with data pages interleaved with the audio}.
    # Every file runs the sentinel sequence (all queries for every link + read through) on a seekable handle first; the other open modes
    # and sequences (every seek kind, every _lap kind, halfrate, crosslap, link-boundary reads, clear) run on every file whose sentinel
    # case came back (a crash/hang of the sentinel is reported; piling further crashes of the same file on top of it only costs time).
    WD = 2          # per-case CPU watchdog (s); ordinary cases take 0.2-20 ms
    t_mux = time.time()
    mux_recs = MUX.grid(tier)
    mux_files = []       # (file index, recipe)
    mux_selfcheck = None
    for rec in mux_recs:
        if DEV and 'N' not in DEV.split(','):
            break
        blob, _groups = MUX.build(rec, bases['B1'][1])
        if mux_selfcheck is None and (len(mux_files) % 17 == 0 or rec['F'] >= 64):
            mux_selfcheck = MUX.self_check(blob, rec)
        fi, new = F.add(blob, rec)
        if new:
            mux_files.append((fi, rec))
        else:
            stats['mux_duplicate_content'] += 1
    chk.guard(mux_selfcheck is None, f'generated multiplexed files re-parse as well-formed grouped Ogg streams (CRC, sequence numbers, BOS groups): {mux_selfcheck}')
    for fi, rec in mux_files:
        add_case('N', fi, 's', MUX.SENTINEL, ('mux', f"F{rec['F']}"))
    n_sent = len(cases)
    lf = F.listfile()
    stats['files'] = len(F.paths)
    # phase N runs first and without the deadline: it is small and its vacuity guard is binding
    resN = L.run_batches(exe, lf, cases[n_pass1:n_sent], timeout_s=WD, chunk=30, tag='c03n')
    sent_ok = {m['file'] for m, r in zip(meta[n_pass1:n_sent], resN) if r and r.startswith('O=')}
    for fi, rec in mux_files:
        if fi not in sent_ok:
            stats['mux_files_not_run_further_after_sentinel_crash'] += 1
            continue
        for mode in 'sntup':
            if mode != 's':
                add_case('N', fi, mode, MUX.SENTINEL if mode != 'p' else MUX.PART_SEQ, ('mux', f"F{rec['F']}"))
            if mode != 'p':
                for sq in (MUX.SEQS_QUICK if tier == 'quick' else MUX.SEQS_THOROUGH):
                    add_case('N', fi, mode, sq, ('mux', f"F{rec['F']}"))
    first_pass = len(cases)
    resN += L.run_batches(exe, lf, cases[n_sent:first_pass], timeout_s=WD, chunk=100, tag='c03n2')
    stats['mux_phase_wall_s'] = round(time.time() - t_mux, 1)
    stage_wall = {'build_and_generate_pass1': round(t_mux - t0, 1), 'phase_N_generate_and_run': stats['mux_phase_wall_s']}
    t_st = time.time()
    # ---------------------------------------------------------------- J. junk position x page structure product (pylib/c03_junk.py, executor
    # harness/c03_junk.c): generated, run and judged right here, like phase N before the deadline-cut passes; its guards are binding
    junk_on = not (DEV and 'J' not in DEV.split(','))
    junk_guard, junk_text = JUNKP.run(chk, tier, judge_op, DOC_OPEN, NAME, crash_key, hang_key) if junk_on else (True, '')
    stage_wall['phase_J_generate_run_judge'] = round(time.time() - t_st, 1)
    if tier == 'quick' and junk_on:
        # family J must not eat the older phases' share: their cap moves by what J took (at most 40 s of 16-core time)
        chk.deadline += min(stage_wall['phase_J_generate_run_judge'], 40 * 16 / max(1, vlib.NPROC))
    t_st = time.time()

    # ================================================================= run pass 1
    res = L.run_batches(exe, lf, cases[:n_pass1], timeout_s=WD, chunk=300, tag='c03a', deadline=chk.deadline) + resN

    # ---------------------------------------------------------------- A2. all depth-2 sequences on every handle of pass A1
    # A failed open leaves an all-zero handle (judged by the open_fail_not_zeroed flag on every case): sequences on it cannot depend
    # on the file, so depth 2 runs on one representative failed file per (base, mode, open code).
    stage_wall['run_pass1'] = round(time.time() - t_st, 1)
    t_st = time.time()
    open_rc = {}
    for m, r in zip(meta[:nA1], res[:nA1]):
        if not m['ops'] and r and r.startswith('O='):
            open_rc[(m['file'], m['mode'])] = int(r[2:r.index(' ')])
    seen_fail = set()
    a2_files = 0
    skipped_bl = 0
    for fi, b, op in intact + mutated:
        if b == 'BL':
            skipped_bl += 1
            continue
        for mode in 'sn':
            rc = open_rc.get((fi, mode))
            if rc is None:
                continue      # open itself crashed / hung: reported below
            if rc < 0:
                key = (b, mode, rc)
                if key in seen_fail:
                    stats['depth2_skipped_zero_handle'] += 1
                    continue
                seen_fail.add(key)
            a2_files += 1
            for s in d2:
                add_case('A2', fi, mode, s, (b, op))
    incomplete.append(f'depth-2 sequences: modes s,n on every mutated/intact file of B1,BT,B3,BM that opened (+1 failed-open representative per base,mode,code); modes t,u,p and the large chain BL: depth<=1')
    if tier == 'thorough':
        # depth 3 over the quick alphabet on 6 handles
        d3 = list(itertools.product(ALPHA_Q2, repeat=3))
        picks = [(base_idx['B1'], 'B1', 'intact'), (base_idx['BT'], 'BT', 'intact'), (base_idx['B3'], 'B3', 'intact')]
        for want in (('B1', 'gran-1'), ('B3', 'drop'), ('BM', 'serother')):
            for fi, b, op in mutated:
                if (b, op) == want and open_rc.get((fi, 's')) == 0:
                    picks.append((fi, b, op))
                    break
        for fi, b, op in picks:
            for mode in 'sn':
                for s in d3:
                    add_case('A3', fi, mode, s, (b, op))
        # all pairs of page-level mutations on the two smallest files
        for b in ('BT', 'B1'):
            data, pages = bases[b]
            for i in range(len(pages)):
                oth = L.other_serial_for(pages, i)
                for op in L.PAGE_OPS:
                    it1 = L.mutate_items(pages, i, op, oth)
                    if it1 is None:
                        continue
                    np1 = sum(1 for x in it1 if isinstance(x, Page))
                    for j in range(np1):
                        for op2 in L.PAGE_OPS:
                            if time.time() > chk.deadline - 600:
                                break
                            it2 = L.mutate_items(it1, j, op2, oth)
                            if it2 is None:
                                continue
                            fi, new = F.add(L.encode_items(it2), {'base': b, 'op': op, 'page': i, 'op2': op2, 'page2': j})
                            if new:
                                for mode in 'sn':
                                    add_case('P', fi, mode, ('rf4096', 'ps%500', 'rf4096', 'x0', 'RS%300'), (b, op + '+' + op2))
        if time.time() > chk.deadline - 600:
            incomplete.append('pair mutations cut by the generation deadline')
        lf = F.listfile()
    stage_wall['generate_pass2'] = round(time.time() - t_st, 1)
    t_st = time.time()
    res2 = L.run_batches(exe, lf, cases[first_pass:], timeout_s=WD, chunk=400, tag='c03b', deadline=chk.deadline)
    res += res2
    stage_wall['run_pass2'] = round(time.time() - t_st, 1)
    t_st = time.time()

    # ---------------------------------------------------------------- M. very many links (thorough): open recursion depth = number of links
    many = None
    if tier == 'thorough' and time.time() < chk.deadline - 300 and not (DEV and 'M' not in DEV.split(',')):
        many = many_links_case(60000)

    # ================================================================= TIMEOUT re-runs alone with a 10x limit (deduplicated by file content + mode + ops)
    # A first-pass TIMEOUT is classed by the library function that was spinning (watchdog stack); per class the first 2 distinct cases
    # are re-run alone with 10x the limit.  If both still expire the class is non-termination (all its cases are reported under that
    # key); if a re-run finishes, every case of that class is re-run alone.
    tmo = [k for k, r in enumerate(res) if r and r.startswith('TIMEOUT')]
    by_class = collections.OrderedDict()
    for k in tmo:
        by_class.setdefault(hang_key(F.recipe[meta[k]['file']], meta[k], res[k][8:]), []).append(k)
    rer_cases = []
    for key, ks in by_class.items():
        seen_c = []
        for k in ks:
            if cases[k] not in seen_c:
                seen_c.append(cases[k])
            if len(seen_c) == 2:
                break
        rer_cases += seen_c
    rres = L.run_batches(exe, lf, rer_cases, timeout_s=10 * WD, chunk=1, tag='c03r') if rer_cases else []
    rerun_result = dict(zip(rer_cases, rres))
    confirmed_class = set()
    for key, ks in by_class.items():
        mine = [cases[k] for k in ks if cases[k] in rerun_result]
        if mine and all((rerun_result[c] or '').startswith('TIMEOUT') for c in mine):
            confirmed_class.add(key)
        else:
            rest = sorted({cases[k] for k in ks} - set(rerun_result))
            rr = L.run_batches(exe, lf, rest, timeout_s=10 * WD, chunk=1, tag='c03r2') if rest else []
            rerun_result.update(zip(rest, rr))
    confirmed_hang = {cases[k] for key, ks in by_class.items() for k in ks
                      if (key in confirmed_class and cases[k] not in rerun_result) or (rerun_result.get(cases[k]) or '').startswith('TIMEOUT')}
    stats['timeout_classes'] = {k: len(v) for k, v in by_class.items()}

    # ================================================================= judge
    stage_wall['many_links_and_timeout_reruns'] = round(time.time() - t_st, 1)
    t_st = time.time()
    classes = set()
    open_codes = collections.Counter()
    op_codes = collections.Counter()
    guards = collections.Counter()
    maxhop = 0
    samples = []
    mux, mux_open, mux_ok5 = collections.Counter(), collections.Counter(), collections.Counter()
    mux_sizes, mux_sizes_ok, mux_classes = set(), set(), set()
    for k, m in enumerate(meta):
        d = L.parse_result(res[k])
        chk.cov['evaluations'] += 1
        rec = F.recipe[m['file']]
        replay = LazyReplay(cases[k], rec, m, F.paths[m['file']], F.size[m['file']])
        raw = d.get('raw')
        if raw == 'SKIPPED':
            chk.cov['evaluations'] -= 1
            stats['skipped_by_deadline_' + m['phase']] += 1
            continue
        if raw is not None:
            if raw == 'TIMEOUT':
                c = cases[k]
                if c in rerun_result and c not in confirmed_hang:
                    stats['timeout_not_confirmed'] += 1
                    d = L.parse_result(rerun_result[c])
                    raw = d.get('raw')
                    if raw is None:
                        pass     # finished under the 10x limit: judged normally below
                else:
                    key = hang_key(rec, m, d.get('stack', ''))
                    chk.violation(key, f'non-termination (CPU watchdog {WD} s; class re-run alone with {10 * WD} s): {describe(rec, m)} :: {d.get("stack", "")[:900]}', replay)
                    guards['hang'] += 1
                    continue
            if raw is not None:
                if raw.startswith(('DIED rc=2 ', 'BADCASE', 'BADOP', 'NOOUTPUT')):
                    print('BROKEN-CHECK: executor failure: ' + raw[:300] + ' on ' + cases[k], file=sys.stderr)
                    raise SystemExit(2)
                key, desc = crash_key(raw, rec, m)
                chk.violation(key, desc + ': ' + describe(rec, m) + ' :: ' + raw[:700], replay)
                guards['crash'] += 1
                continue
        o = d['O']
        # flags: failed open => zeroed handle and unclosed source; clear => close exactly once iff open succeeded
        for fl in d['F']:
            chk.violation('flag_' + fl, f'{fl}: {describe(rec, m)}', replay)
        seekable_doc = not (m['ib'] > 0 and m['mode'] in 'stp')     # initial/ibytes is documented for non-seekable sources only
        if seekable_doc and o not in DOC_OPEN:
            chk.violation(f'open_returns_{NAME.get(o, o)}', f'open returned undocumented {NAME.get(o, o)}: {describe(rec, m)}', replay)
        ops_run = effective_ops(m['ops'])
        sig = []
        for opi, (op, tok) in enumerate(zip(ops_run, d['R'])):
            why = judge_op(op, tok, m['mode'], o == 0) if seekable_doc else None
            s = sig_tok(op, tok)
            sig.append(s)
            if m['phase'] != 'N':
                op_codes[(op[:2] if op[0] != 'x' else 'x', s)] += 1
            if why:
                chk.violation('rc_' + why.replace(' ', '_'), f'{why} at op #{opi} ({op}): {describe(rec, m)} R={d["R"]}', replay)
            if o == 0 and s in ('HOLE', 'EBADLINK', 'EOF') and m['phase'] != 'N':
                guards['opened_then_' + s] += 1
        if m['phase'] == 'N':
            # valid multiplexed streams: same oracle as everywhere (judged above); counted apart so that none of the older
            # vacuity guards / distinct-class counts gets easier to meet
            nb = rec['F'] + 1
            mux['cases'] += 1
            mux_sizes.add(nb)
            mux_open[f"{m['mode']}:{NAME.get(o, o)}"] += 1
            if o == 0:
                mux['opens_ok'] += 1
                mux_sizes_ok.add(nb)
                if nb >= 5:
                    mux_ok5[m['mode']] += 1
                if any(x not in ('+', '0') and not x.startswith('q') for x in sig):
                    mux['opened_then_error_code'] += 1
            mux_classes.add((nb >= 5, rec['cont'], rec['sv'], m['mode'], o, tuple(sig)))
            continue
        maxhop = max(maxhop, d['B'])
        open_codes[(m['mode'], o)] += 1
        if o == 0 and rec.get('op') != 'intact':
            guards['mutated_opened_ok_' + ('stream' if m['mode'] in 'nu' else 'seek')] += 1
        cls = (rec.get('op', rec.get('base')), m['mode'], o, tuple(sig))
        if (o != 0 or any(x not in ('+', '0') and not x.startswith('q+') for x in sig)) and cls not in classes and len(samples) < 12 and len(classes) % 97 == 0:
            samples.append({'recipe': rec, 'mode': m['mode'], 'ops': ops_run, 'open': o, 'results': d['R'][:4]})
        classes.add(cls)

    stage_wall['judge'] = round(time.time() - t_st, 1)
    stats['wall_s_by_stage'] = stage_wall       # diagnostic only (budgeting); nothing is decided by it
    seen_keys = set()
    for key, desc, rp in chk.violations:
        if key not in seen_keys:
            seen_keys.add(key)
            if isinstance(rp, LazyReplay):
                rp.fill()
    if many is not None:
        chk.cov['evaluations'] += 1
        chk.cov['many_links_case'] = many['result'][:200]
        if not many['result'].startswith('O='):
            key = 'bisect_forward_serialno_recursion_stack_overflow' if 'rc=-11' in many['result'] else 'many_links_' + many['result'].split(' ')[0]
            chk.violation(key, f"seekable open of a {many['links']}-link chain ({many['bytes']} bytes, tiny spec-valid links with distinct serial numbers) on the "
                               f"plain gcc -O2 build with the default 8 MiB stack: {many['result'][:300]} (_bisect_forward_serialno recurses once per link)",
                          {'recipe': {'base': 'many_links', 'links': many['links'], 'generator': 'c03.many_links_case'}, 'mode': 's', 'ops': ['x0'], 'len': '-', 'ibytes': 0, 'file_hex': None})
    nontrivial = {c for c in classes if c[0] != 'intact' and (c[2] != 0 or any(x not in ('+', '0') for x in c[3]))}
    fail_codes = {o for (mo, o), n in open_codes.items() if o < 0}
    chk.cov.update({
        'distinct_nontrivial': len(nontrivial), 'distinct_classes': len(classes), 'exhaustive': True, 'samples': samples,
        'rule': 'distinct (mutation operator, open mode, open return code, per-call outcome-code sequence) classes over all executed cases whose file is '
                'mutated and whose outcome contains at least one error code (failed open, or HOLE/EOF/EBADLINK/EINVAL/... from a call)',
        'files': len(F.paths), 'mutated_files_1dev': stats['mutated_files'], 'cases_by_phase': dict(collections.Counter(m['phase'] for m in meta)),
        'open_codes': {f'{mo}:{NAME.get(o, o)}': n for (mo, o), n in sorted(open_codes.items())},
        'call_outcomes': {f'{a}:{b}': n for (a, b), n in sorted(op_codes.items())},
        'max_backward_hop_bytes': maxhop, 'alphabet_depth1': alpha, 'alphabet_depth2': alpha2, 'alphabet_depth3': ALPHA_Q2 if tier == 'thorough' else None,
        'page_operators': L.PAGE_OPS, 'timeouts_first_pass': len(tmo), 'timeout_cases_confirmed_nontermination': len(confirmed_hang),
        'not_exhaustive_in': incomplete, 'stats': dict(stats), 'guard_counts': dict(guards),
    })
    mux_modes = 'sntu'
    mux_on = not (DEV and 'N' not in DEV.split(','))
    chk.cov['bos_group_phase'] = {
        'files': len(mux_files), 'recipes_enumerated': len(mux_recs), 'cases_executed': mux['cases'], 'opens_succeeded': mux['opens_ok'],
        'opened_then_some_call_returned_an_error_code': mux['opened_then_error_code'],
        'bos_group_sizes_executed': sorted(mux_sizes), 'distinct_bos_group_sizes_executed': len(mux_sizes),
        'bos_group_sizes_opened_ok': sorted(mux_sizes_ok), 'distinct_bos_group_sizes_opened_ok': len(mux_sizes_ok),
        'opens_ok_with_5_or_more_bos_pages_by_mode': dict(mux_ok5), 'open_codes': dict(sorted(mux_open.items())),
        'distinct_outcome_classes': len(mux_classes), 'foreign_stream_counts': sorted({r['F'] for r in mux_recs}),
        'sequences': [list(MUX.SENTINEL), list(MUX.PART_SEQ)] + [list(x) for x in (MUX.SEQS_QUICK if tier == 'quick' else MUX.SEQS_THOROUGH)],
        'rule': 'phase N (valid multiplexed streams, links opening with F+1 BOS pages) is counted here only; it does not feed distinct_nontrivial, open_codes, '
                'call_outcomes or any of the older guards',
    }
    # binding (also in a run cut by its deadline: phase N runs first and is never cut): the family must really get past the BOS group
    mux_guard = all(mux_ok5[mo] > 0 for mo in mux_modes + 'p') and len(mux_sizes_ok) >= 8
    if mux_on:
        chk.guard(mux_guard, f'links opening with >= 5 BOS pages opened successfully in every open mode ({dict(mux_ok5)}) and >= 8 distinct BOS-group sizes opened ({sorted(mux_sizes_ok)})')
    skipped = {k: v for k, v in stats.items() if k.startswith('skipped_by_deadline_')}
    if skipped or DEV:
        chk.cov['exhaustive'] = False
        incomplete.append(f'time cap: cases not started per phase {skipped}; all other phases fully covered')
    chk.assumptions += [
        'return-code oracle: documented sets from doc/vorbisfile/*.html; generous additions where the docs are silent: streaming reads may return the header errors '
        'ENOTVORBIS/EBADHEADER/EVERSION/EREAD of the next link; the _lap seeks and ov_crosslap may also return EBADLINK/HOLE and those header errors (they prime the decoder by reading); '
        'seeks may also return the internal page-search codes OV_FALSE/OV_EOF/OV_EBADPACKET that seek_error hands through ("nonzero indicates failure"; observed, reported as a documentation gap, not a violation); '
        'ov_halfrate (no HTML page) may return 0/OV_EINVAL; '
        'ov_bitrate/ov_raw_total/ov_pcm_total/ov_time_total/ov_pcm_tell/ov_time_tell/ov_serialnumber/ov_streams/ov_seekable values are not judged: they are arithmetic over the file\'s own '
        '(possibly lying) granule positions and offsets (negative bitrates and totals wrapped past INT64_MAX were observed)',
        'initial/ibytes with a seekable source is outside the documented use: memory safety/termination judged, return codes not',
        'semantic correctness of returned audio is not judged (C07-C11)',
        'UBSan subset only (bounds, null, integer division by zero): signed overflow on lying granule positions and float->int casts of inf/nan are not trapped',
        'libogg is uninstrumented trusted base (its heap blocks are still red-zoned)',
    ]
    chk.guard(len(fail_codes) >= 3, f'opens failed with at least 3 different codes ({sorted(NAME.get(x, x) for x in fail_codes)})')
    chk.guard(guards['opened_then_HOLE'] > 0 and guards['opened_then_EBADLINK'] > 0 and guards['opened_then_EOF'] > 0,
              f"mutated files opened fine and later returned OV_HOLE/OV_EBADLINK/OV_EOF ({guards['opened_then_HOLE']}/{guards['opened_then_EBADLINK']}/{guards['opened_then_EOF']})")
    chk.guard(guards['mutated_opened_ok_stream'] > 0 and guards['mutated_opened_ok_seek'] > 0, 'mutated files opened in seekable and streaming mode')
    chk.guard(maxhop >= 65536, f'bisection paths reached (max backward hop {maxhop} >= 65536)')
    chk.guard(len(nontrivial) >= 50, 'at least 50 distinct non-trivial outcome classes')
    if os.environ.get('C03_VERBOSE'):
        kc = collections.Counter(k for k, _, _ in chk.violations)
        for k, n in kc.most_common():
            print(f'  [{n}] {k}: ' + next(d for kk, d, _ in chk.violations if kk == k)[:600], file=sys.stderr)
    rc = chk.finish()
    if rc == 0 and not junk_guard:
        print(f'BROKEN-CHECK property={PID} vacuity guard failed: {junk_text}', file=sys.stderr)
        rc = 2
    if rc == 0 and mux_on and not mux_guard:
        # finish() downgrades unmet guards of a run cut by its deadline; this one does not depend on the deadline
        print(f'BROKEN-CHECK property={PID} vacuity guard failed: no successful open of a link with >= 5 BOS pages in every open mode: {dict(mux_ok5)}', file=sys.stderr)
        rc = 2
    return rc


def many_links_case(n):
    """n tiny links (3 pages each) with distinct serial numbers; serial + CRC patched into a template by CRC linearity.  Opened
    seekable by the PLAIN (gcc -O2) executor: the question is the default 8 MiB stack of an ordinary build, not ASan's frames."""
    import struct
    tmpl = L.tiny_link(0, npk=1, bs=7)
    enc = [bytearray(p.encode()) for p in tmpl]
    contrib = [L.crc_contrib(len(e)) for e in enc]
    crc0 = [struct.unpack('<I', bytes(e[22:26]))[0] for e in enc]
    parts = []
    for i in range(n):
        serial = 0x100000 + i
        sb = struct.pack('<I', serial)
        for e, C, c0 in zip(enc, contrib, crc0):
            crc = c0
            for j in range(4):
                if sb[j]:
                    crc = L.patch_crc(crc, C, len(e) - 1 - (14 + j), sb[j])
            e[14:18] = sb
            e[22:26] = struct.pack('<I', crc)
            parts.append(bytes(e))
    data = b''.join(parts)
    # self-check of the patched CRCs on the last link
    ok = all(vlib.ogg_crc(bytes(e[:22]) + b'\0\0\0\0' + bytes(e[26:])) == struct.unpack('<I', bytes(e[22:26]))[0] for e in enc)
    if not ok:
        print('BROKEN-CHECK: CRC patching failed in many_links_case', file=sys.stderr)
        raise SystemExit(2)
    d = os.path.join(vlib.zoo_dir(), 'c03_many')
    os.makedirs(d, exist_ok=True)
    fp = os.path.join(d, f'many{n}.ogg')
    open(fp, 'wb').write(data)
    lf = os.path.join(d, 'list.txt')
    open(lf, 'w').write(fp + '\n')
    exep = vlib.harness('plain', 'c03_extra')
    r = L.run_batches(exep, lf, ['0 s - 0 x0'], timeout_s=600, chunk=1, jobs=1, tag='c03m')[0] or 'NOOUTPUT'
    return {'links': n, 'bytes': len(data), 'result': r}


def hole_positions(pages):
    """page index ranges (inclusive) of the large chain that get replaced by junk: >= 9 audio pages (> 1 s of audio) each"""
    starts = [k for k, p in enumerate(pages) if p.flags & 2] + [len(pages)]
    m0, n0, a0 = starts[0], starts[1], starts[2]
    return {
        'start_of_first_link': (m0 + 2, m0 + 12),
        'start_of_link': (n0 + 2, n0 + 12),
        'middle_of_link': (n0 + 10, n0 + 21),
        'end_of_link': (a0 - 12, a0 - 2),            # the EOS page survives
        'straddling_link_boundary': (n0 - 6, n0 + 6),  # tail of M, headers and first audio pages of N
        'straddling_after_headers': (n0 - 6, n0 - 1),  # tail of M incl. its EOS page; N intact
    }


class LazyReplay(dict):
    """Replay record; the file bytes (hex, files <= 12000 bytes) are read only if the case is actually reported."""

    def __init__(self, case, rec, m, path, size):
        super().__init__({'case': case, 'recipe': rec, 'mode': m['mode'], 'ops': m['ops'], 'len': m['len'], 'ibytes': m['ib'],
                          'twin': 'file 0 of every list = intact base B1 (zoo.link A serial 1 pages 3)', 'file_hex': None})
        self._path, self._size = path, size

    def fill(self):
        if self['file_hex'] is None and self._size <= 12000:
            self['file_hex'] = open(self._path, 'rb').read().hex()
        return self


def effective_ops(ops):
    """the executor skips every non-'cl' op after the first ov_clear (the handle is gone): align ops with the printed results"""
    ops = list(ops)
    if 'cl' in ops:
        k = ops.index('cl')
        ops = ops[:k + 1] + [o for o in ops[k + 1:] if o == 'cl']
    return ops


def describe(rec, m):
    return f"file={json.dumps(rec, sort_keys=True)} mode={m['mode']} len={m['len']} ibytes={m['ib']} ops={' '.join(m['ops']) or '-'}"


LEAF = {'_seek_helper', '_get_next_page', '_get_data', '_get_prev_page', '_get_prev_page_serial', 'on_alarm',
        'vorbis_synthesis_pcmout', 'vorbis_synthesis_read', 'vorbis_synthesis_halfrate_p'}


def lib_frames(text):
    import re
    return [(f, loc) for f, loc in re.findall(r'#\d+ 0x[0-9a-f]+ in (\w+) ([^\s\\"]+)', text) if '/lib/' in loc and 'sanitizer' not in loc]


def hang_key(rec, m, stack=''):
    """Key of a non-termination: the innermost library function (below the page-search helpers) that was spinning."""
    fr = [f for f, loc in lib_frames(stack)]
    if '_book_maptype1_quantvals' in fr or rec.get('op') == 'dim0_maptype1':
        return 'codebook_dim0_maptype1_hang'
    for f in fr:
        if f not in LEAF and not f.startswith(('ogg_', 'oggpack')):
            return 'hang_in_' + f
    return f"hang_{rec.get('base')}_{rec.get('op')}_{'_'.join(m['ops'][:3]) or 'open'}"


def crash_key(raw, rec, m):
    """Specific key from the sanitizer report: error kind + innermost library frame."""
    import re
    if rec.get('op') == 'ordered_2^22_entries' and ('stack-overflow' in raw or 'rc=-11' in raw) and ('vorbis_book_init_decode' in raw or 'rc=-11' in raw):
        return 'codebook_huge_alloca_stack_overflow', 'stack overflow: vorbis_book_init_decode alloca()s 48 MB for an ordered 2^22-entry codebook'
    kind = 'crash'
    mm = re.search(r'AddressSanitizer: ([a-zA-Z-]+)', raw)
    if mm:
        kind = mm.group(1)
    elif 'runtime error:' in raw:
        mu = re.search(r'runtime error: ([a-z ]+)', raw)
        kind = 'ubsan_' + (mu.group(1).strip().replace(' ', '_')[:40] if mu else 'report')
    else:
        mr = re.match(r'DIED rc=(-?\d+)', raw)
        kind = 'died_rc' + (mr.group(1) if mr else '')
    fr = lib_frames(raw.split('allocated by')[0].split('freed by')[0])
    func = fr[0][0] if fr else 'unknown'
    if func == '_ov_splice' and 'null' in raw:
        return 'lap_blocksize64_null_window', 'NULL window dereference in _ov_splice (vorbis_window() returns NULL for 64-sample blocks)'
    if func == '_ov_splice' and kind in ('heap-buffer-overflow', 'heap-use-after-free', 'SEGV'):
        return 'lap_splice_heap_oob_bogus_pcm_returned', ('_ov_splice reads/writes before the decoder PCM buffer: vorbis_synthesis_lapout handed out pcm_returned<0 after a '
                                                          'track-only block-in trimmed pcm_returned against a lying granule position')
    if func == 'ov_time_tell' and kind in ('heap-buffer-overflow', 'heap-use-after-free', 'SEGV'):
        return 'time_tell_negative_pcm_offset_oob_vi', 'ov_time_tell reads vf->vi[-1] when pcm_offset is -1 (after a failed seek)'
    if func == '_ov_getlap' and kind == 'negative-size-param':
        return 'getlap_negative_lapout_count', '_ov_getlap memcpy()s a negative sample count returned by vorbis_synthesis_lapout'
    if func in ('vorbis_synthesis_halfrate', 'vorbis_synthesis_halfrate_p') and 'null' in kind:
        return 'halfrate_null_codec_setup_after_stream_header_error', ('ov_halfrate/ov_halfrate_p dereference vf->vi->codec_setup==NULL on a streaming handle whose '
                                                                      'read ran into a link whose headers were rejected (vorbis_info cleared, handle still open)')
    return f'{kind}_in_{func}', f'{kind} in {func}'


def replay(path):
    r = json.load(open(path))['replay']
    vlib.build('asan')
    exe = vlib.harness('asan', 'c03_extra')
    d = os.path.join(vlib.zoo_dir(), 'c03_replay')
    os.makedirs(d, exist_ok=True)
    if r['recipe'].get('base') == 'junkpage':
        return JUNKP.replay(r, judge_op, DOC_OPEN)
    if r['recipe'].get('base') == 'many_links':
        vlib.build('plain')
        m = many_links_case(r['recipe']['links'])
        print('observed:', m['result'][:400])
        return 0 if m['result'].startswith('O=') else 1
    bases = base_files()
    twin = os.path.join(d, 'twin.ogg')
    open(twin, 'wb').write(bases['B1'][0])
    fp = os.path.join(d, 'file.ogg')
    if r.get('file_hex'):
        open(fp, 'wb').write(bytes.fromhex(r['file_hex']))
    else:
        rec = r['recipe']
        if rec.get('base') == 'mux':
            open(fp, 'wb').write(MUX.build(rec, bases['B1'][1])[0])
            data, pages, rec = None, None, None
        else:
            data, pages = bases[rec['base']]
        if rec is None:
            pass
        elif rec['op'] == 'intact':
            open(fp, 'wb').write(data)
            rec = None
        elif rec['op'] == 'hole':
            open(fp, 'wb').write(L.encode_items(L.hole_items(pages, rec['first'], rec['last'], rec['fill'], rec['bytes'])))
            rec = None
    if not r.get('file_hex') and rec is not None:
        items = L.mutate_items(pages, rec['page'], rec['op'], L.other_serial_for(pages, rec['page']))
        if 'op2' in rec:
            items = L.mutate_items(items, rec['page2'], rec['op2'], L.other_serial_for(pages, rec['page']))
        open(fp, 'wb').write(L.encode_items(items))
    lf = os.path.join(d, 'list.txt')
    open(lf, 'w').write(twin + '\n' + fp + '\n')
    case = case_line(1, r['mode'], r['ops'], r['len'], r['ibytes'])
    out = L.run_batches(exe, lf, [case], timeout_s=30, chunk=1, tag='c03replay')[0]
    print('case:', case)
    print('observed:', (out or 'NOOUTPUT')[:1500])
    d_ = L.parse_result(out)
    if d_.get('raw') is not None:
        return 1
    if d_['F']:
        return 1
    if d_['O'] not in DOC_OPEN and not (r['ibytes'] > 0 and r['mode'] in 'stp'):
        return 1
    for op, tok in zip(effective_ops(r['ops']), d_['R']):
        if judge_op(op, tok, r['mode'], d_['O'] == 0) and not (r['ibytes'] > 0 and r['mode'] in 'stp'):
            return 1
    return 0
