"""C14: hard bitrate limits hold to within the configured reservoir.

E1  explicit-state model checking of the REAL vorbis_bitrate_addblock/flushpacket (harness/c14_bitrate.c): BFS over
    (minmax_reservoir, avg_reservoir, avgfloat, E+, E-) with Kadane monitors E+/E- = worst excess over the hard max / worst
    deficit below the hard min over ALL contiguous packet runs ending at the current packet; one configuration per case line,
    run to a FIX-POINT when there is no average tracking, depth-bounded otherwise.
E2  real managed encodes (harness/c14_e2e.c), every contiguous packet run judged against max_rate*duration + reservoir.
"""
import sys, os, json, time, re, math
import vlib
import c14_seq

PID = 'C14'
RATE, BS0 = 32, 64           # rate == bs0/2: one short block lasts one "second", per-short-block target == rate parameter (bits)
MODES = ('max', 'min', 'both', 'cbr')


# ------------------------------------------------------------------------------------------------ E1 configurations
def e1_line(c):
    return (f"bfs {RATE} {BS0} {BS0 * c['spl']} {c['M']} {c['m']} {c['A']} {c['R']} {c['bias']} {c['damp']} {c['ragged']} "
            f"{c['level']} {c['maxdepth']} {c['maxstates']} {c['maxtrans']}")


def e1_trace_line(c, trace):
    return (f"trace {RATE} {BS0} {BS0 * c['spl']} {c['M']} {c['m']} {c['A']} {c['R']} {c['bias']} {c['damp']} {c['ragged']} " + trace.replace(';', ' '))


def targets(mode, hi, lo):
    return {'max': (hi, 0), 'min': (0, lo), 'both': (hi, lo), 'cbr': (hi, hi)}[mode]


def avg_target(mode, hi, lo):
    return {'max': (hi * 4) // 5, 'min': (lo * 4) // 3, 'both': (hi + lo) // 2, 'cbr': hi}[mode]


def e1_cost(c):
    """rough relative cost (only used to spread heavy configurations over the workers)"""
    g = math.gcd(math.gcd(c['M'] or 8, c['m'] or 8), 8)
    n = c['R'] / g + 1
    if c['A']:
        return min(c['maxtrans'], 1e9)
    alpha = {-2: 14, -1: 90, 0: 170, 1: 1100, 2: 2500}[c['level']]
    if c['mode'] in ('both', 'cbr'):
        return min(n ** 3 / 3 * alpha, c['maxtrans'])
    return n * n * alpha


def e1_configs(tier):
    out = []

    def add(fam, mode, hi, lo, R, bias, spl, level, avg=False, damp=1.5, ragged=0, maxdepth=0, maxstates=12000000, maxtrans=6 * 10 ** 9):
        M, m = targets(mode, hi, lo)
        A = avg_target(mode, hi, lo) if avg else 0
        out.append(dict(fam=fam, mode=mode, M=M, m=m, A=A, R=R, bias=bias, spl=spl, level=level, damp=damp, ragged=ragged,
                        maxdepth=maxdepth, maxstates=maxstates, maxtrans=maxtrans))

    BIAS = (0, 0.1, 0.5, 1)
    SPL = (1, 2, 8)
    q = (tier == 'quick')
    # A: R=64, rich alphabet (incl. non-monotone vectors), byte-aligned and ragged (mid-byte) blobs
    for mode in MODES:
        for bias in BIAS:
            for spl in SPL:
                for ragged in (0, 1):
                    add('R64', mode, 100, 60, 64, bias, spl, 1 if q else 2, ragged=ragged)
    # A2: odd targets (every residue mod 8 is reached)
    for mode in MODES:
        for bias in ((0.1, 1) if q else BIAS):
            for spl in ((2,) if q else SPL):
                add('R64odd', mode, 37, 23, 64, bias, spl, 0 if q else 1, ragged=1)
    # B: R=256
    for mode in MODES:
        for bias in BIAS:
            for spl in SPL:
                for ragged in ((0,) if q or spl != 2 else (0, 1)):
                    add('R256', mode, 100, 60, 256, bias, spl, 0 if q else 1, ragged=ragged)
    # C: R=1000.  quick: targets that are multiples of 8 (coarser lattice) and a reduced alphabet; thorough: 100/60 and the normal one
    for mode in MODES:
        for bias in BIAS:
            for spl in SPL:
                if q:
                    if mode in ('both', 'cbr') and spl != 2 and bias != 0.5:
                        continue
                    add('R1000', mode, 96, 64, 1000, bias, spl, -1)
                else:
                    if not (mode in ('both', 'cbr') and spl != 2):      # ~2*10^6 states, 3*10^8 transitions each
                        add('R1000', mode, 100, 60, 1000, bias, spl, 0)
                    add('R1000m8', mode, 96, 64, 1000, bias, spl, 0)
    # D: reservoirs smaller than / around one byte (accepted by the control interface)
    for R in ((1, 4, 8) if q else (1, 2, 3, 4, 5, 6, 7, 8, 9, 15)):
        for mode in MODES:
            for bias in (0, 0.5, 1):
                for hi, lo in (((100, 60),) if q else ((100, 60), (101, 59))):
                    add('tinyR', mode, hi, lo, R, bias, 2, 1, ragged=R % 2)
    if not q:
        for mode in ('both', 'cbr'):
            add('R256odd', mode, 37, 23, 256, 0.5, 2, 0, ragged=1)
    # D2: per-short-block budgets BELOW ONE BYTE (e.g. 1 kbps at 32 kHz = 4 bits per 128-sample hop): every non-empty packet overshoots
    #     the block's budget; the alphabet's smallest non-zero blobs are 1 and 2 bytes, the fix-point covers arbitrarily long short-block runs
    for hi, lo in ((1, 1), (4, 2), (7, 3)):
        for mode in MODES:
            for R in ((64, 256) if q else (8, 64, 256)):
                if R == 256 and mode in ('both', 'cbr') and (q or hi != 4):
                    continue                                   # dense lattice (gcd 1): ~10^6 states each; thorough keeps (4,2) only
                for bias in ((0, 1) if q else BIAS):
                    for spl in ((2, 8) if q else SPL):
                        add('subbyte', mode, hi, lo, R, bias, spl, -1 if (q and mode in ('both', 'cbr')) else 0, ragged=int(hi == 7))
    # E: average tracking on top (avg_reservoir unbounded => depth-bounded).  Two passes: wider alphabet / shallow, minimal alphabet / deep
    for mode in MODES:
        for R in (64, 256, 1000):
            for bias in BIAS:
                for damp in (1.5, 30):
                    for spl in ((2,) if q or not (damp == 30 and bias == 0.1) else SPL):
                        add('avg-deep', mode, 100, 60, R, bias, spl, -2, avg=True, damp=damp, maxdepth=12, maxtrans=3000000 if q else 10000000)
                    if q and not (bias in (0.1, 1) and damp == 30):
                        continue
                    add('avg-wide', mode, 100, 60, R, bias, 2, -1, avg=True, damp=damp, maxdepth=(3 if q else 5), maxtrans=2000000 if q else 8000000)
    if not q:
        for mode in MODES:
            for damp in (1.5, 7.5, 30, 120):
                add('avg-deep', mode, 37, 23, 64, 0.5, 2, -2, avg=True, damp=damp, ragged=1, maxdepth=14, maxtrans=20000000)
    return out


# ------------------------------------------------------------------------------------------------ E2 cases
E2_LIMITS = {
    # (rate, ch): (template kbps, nsamples, {set: {mode: (max,min)}})
    (8000, 1): (16, 25600, {'loose': {'max': (16, 0), 'min': (0, 12), 'both': (16, 12), 'cbr': (14, 14)},
                            'tight': {'max': (6, 0), 'min': (0, 24), 'both': (10, 8), 'cbr': (8, 8)}}),
    (8000, 2): (16, 25600, {'loose': {'max': (16, 0), 'min': (0, 12), 'both': (16, 12), 'cbr': (14, 14)},
                            'tight': {'max': (6, 0), 'min': (0, 24), 'both': (10, 8), 'cbr': (8, 8)}}),
    (44100, 1): (80, 102400, {'loose': {'max': (96, 0), 'min': (0, 64), 'both': (96, 64), 'cbr': (80, 80)},
                              'tight': {'max': (40, 0), 'min': (0, 128), 'both': (56, 48), 'cbr': (48, 48)}}),
    (44100, 2): (96, 102400, {'loose': {'max': (112, 0), 'min': (0, 80), 'both': (112, 80), 'cbr': (96, 96)},
                              'tight': {'max': (48, 0), 'min': (0, 160), 'both': (64, 56), 'cbr': (64, 64)}}),
}


E2_LIMITS_THOROUGH = {
    (22050, 2): (48, 51200, {'loose': {'max': (56, 0), 'min': (0, 40), 'both': (56, 40), 'cbr': (48, 48)},
                             'tight': {'max': (24, 0), 'min': (0, 80), 'both': (32, 28), 'cbr': (32, 32)}}),
    (32000, 1): (64, 76800, {'loose': {'max': (80, 0), 'min': (0, 48), 'both': (80, 48), 'cbr': (64, 64)},
                             'tight': {'max': (32, 0), 'min': (0, 112), 'both': (44, 40), 'cbr': (40, 40)}}),
    (48000, 2): (128, 110000, {'loose': {'max': (160, 0), 'min': (0, 96), 'both': (160, 96), 'cbr': (128, 128)},
                               'tight': {'max': (64, 0), 'min': (0, 224), 'both': (80, 72), 'cbr': (72, 72)}}),
}


def e2_cases(tier):
    out = []
    q = (tier == 'quick')
    limits = dict(E2_LIMITS)
    if not q:
        limits.update(E2_LIMITS_THOROUGH)
    sigs = ('sil', 'noise', 'alt', 'imp') if q else ('sil', 'noise', 'alt', 'imp', 'mix')
    for (rate, ch), (tmpl, n, sets) in sorted(limits.items()):
        for sname, modes in sorted(sets.items()):
            for mode in MODES:
                mx, mn = modes[mode]
                for res in ('d', '0.25', '4'):
                    for bias in ('0', '0.5', '1'):
                        for sig in sigs:
                            for avg in ((0,) if q else (0, 1)):
                                if avg:
                                    a = {'max': (mx * 3) // 4, 'min': (mn * 3) // 2, 'both': (mx + mn) // 2, 'cbr': mx}[mode]
                                else:
                                    a = 0
                                nn = n if q else n * 2
                                out.append((dict(rate=rate, ch=ch, set=sname, mode=mode, max=mx, min=mn, avg=a, res=res, bias=bias, sig=sig),
                                            f"e2e {rate} {ch} {tmpl} {mx} {mn} {a} {res} {bias} {sig} {nn}"))
    return out


def e2_lowmax(tier):
    """Hard maxima so low that a SHORT block's budget is below one byte, on click trains (sustained short-block runs)."""
    out = []
    q = (tier == 'quick')
    for (rate, ch, tmpl) in ((32000, 1, 64), (44100, 1, 64)):
        for mx in (1, 2):
            for res in ('b256', '0.25'):
                for bias in ('0', '0.5', '1'):
                    for sig in (('clk', 'imp', 'noise') if q else ('clk', 'imp', 'noise', 'alt', 'mix')):
                        out.append((dict(rate=rate, ch=ch, set='lowmax', mode='max', max=mx, min=0, avg=0, res=res, bias=bias, sig=sig),
                                    f"e2e {rate} {ch} {tmpl} {mx} 0 0 {res} {bias} {sig} {rate * (2 if q else 4)}"))
    return out


def e2_plain(tier):
    """PLAIN one-call set-ups without any ctl: vorbis_encode_init / vorbis_encode_setup_managed+setup_init with (max,-1|0,-1),
    (-1,-1|0,min), (max,-1|0,min); reservoir = whatever OV_ECTL_RATEMANAGE2_GET reports."""
    out = []
    q = (tier == 'quick')
    for (rate, ch), (tmpl, n, sets) in sorted(E2_LIMITS.items()):
        mx, mn = sets['loose']['both']
        for api in ('e2init', 'e2setup'):
            for nominal in (-1, 0):
                for mode, (a, b) in (('max', (mx, 0)), ('min', (0, mn)), ('both', (mx, mn))):
                    for sig in (('qts', 'sil', 'noise', 'alt') if q else ('qts', 'sil', 'noise', 'alt', 'imp', 'mix')):
                        out.append((dict(rate=rate, ch=ch, set='plain', plain=api, mode=mode, max=a, min=b, avg=0, res='d', bias='d', sig=sig),
                                    f"{api} {rate} {ch} {nominal} {a} {b} 0 d d {sig} {n if q else 2 * n}"))
    return out


def e2_requests(tier):
    """Out-of-range / degenerate values REQUESTED through the real OV_ECTL_RATEMANAGE2_SET (the property quantifies over whatever
    the control interface accepts).  Refused requests are counted; accepted ones are encoded and judged like any other case."""
    out = []
    q = (tier == 'quick')
    HUGE = 1 << 40
    base = [((8000, 1), 16, 25600, {'max': (6, 0), 'min': (0, 24), 'both': (10, 8), 'cbr': (8, 8)}),
            ((44100, 2), 96, 102400, {'max': (48, 0), 'min': (0, 160), 'both': (64, 56), 'cbr': (64, 64)})]
    for (rate, ch), tmpl, n, modes in base:
        for mode in MODES:
            mx, mn = modes[mode]
            avg = {'max': (mx * 3) // 4, 'min': (mn * 3) // 2, 'both': (mx + mn) // 2, 'cbr': mx}[mode]
            sigs = ('noise', 'sil') if q else ('noise', 'sil', 'alt')
            reqs = [('bias', b, '0.25', b, 'd', 0) for b in ('-1', '-0.01', '1.01', '2', 'nan', 'inf', '-inf')]
            reqs += [('reservoir', r, 'b' + r, '0.5', 'd', 0) for r in ('-1', '0', str(HUGE))]
            reqs += [('damping', d, '0.25', '0.5', d, avg) for d in ('-1', '0', 'nan')]
            if not q:
                reqs += [('bias', b, 'd', b, 'd', 0) for b in ('-0.5', '1.5', '-1e300', '1e300')]
                reqs += [('reservoir', r, 'b' + r, '0', 'd', 0) for r in ('1', '7', str(1 << 62))]
                reqs += [('damping', d, '0.25', '0.5', d, avg) for d in ('inf', '-inf', '1e-300')]
            for what, val, res, bias, damp, a in reqs:
                for sig in sigs:
                    out.append((dict(rate=rate, ch=ch, set='request', mode=mode, max=mx, min=mn, avg=a, res=res, bias=bias, sig=sig, req=what, val=val),
                                f"e2req {rate} {ch} {tmpl} {mx} {mn} {a} {res} {bias} {sig} {n} {damp}"))
    return out


def kv(line):
    d = {}
    for m in re.finditer(r'(\w+)=("[^"]*"|\S+)', line):
        d[m.group(1)] = m.group(2).strip('"')
    return d


def run(tier):
    chk = vlib.Check(PID, tier, 'model_checking')
    vlib.build('plain')
    exe1 = vlib.harness('plain', 'c14_bitrate')
    exe2 = vlib.harness('plain', 'c14_e2e')
    exe3 = vlib.harness('plain', 'c14_seq')
    t0 = time.time()
    # internal wall-clock deadline (coverage only, never a verdict); C14_DEADLINE_S overrides it, e.g. to measure a complete run on a loaded machine
    deadline = int(t0 + float(os.environ.get('C14_DEADLINE_S', 150 if tier == 'quick' else 21 * 60)))
    exhaustive = True

    # ------------------------------------------------------------------ E2 first (short), then E1
    parts = os.environ.get('C14_PARTS', 'e1,e2,e3').split(',')    # debugging aid only; a partial run is reported as non-exhaustive
    e2a = (e2_cases(tier) + e2_lowmax(tier) + e2_plain(tier)) if 'e2' in parts else []
    e2b = e2_requests(tier) if 'e2' in parts else []
    e2 = e2a + e2b
    # request cases get a short CPU watchdog: an accepted nonsense value (NaN / infinite fill level) may make the manager pad without end
    r2 = vlib.run_cases(exe2, [c for _, c in e2a], ['--timeout', '60'], tag='c14e2') + vlib.run_cases(exe2, [c for _, c in e2b], ['--timeout', '8'], tag='c14rq')
    reqstat = {}
    e2stat = dict(cases=0, packets=0, runs=0, trunc=0, pad=0, limited=0, hit0=0, hitfull=0, nonmono=0, short=0, long=0, worstp=-1e18, worstm=-1e18)
    e2samples = []
    broken = []
    quant = {}
    for (meta, line), r in zip(e2, r2):
        chk.cov['evaluations'] += 1
        r = r or 'NOOUTPUT'
        if 'req' in meta:
            rs = reqstat.setdefault(f"{meta['req']}={meta['val']}", dict(refused=0, accepted_ok=0, accepted_violating=0))
            if r.startswith('refused'):
                rs['refused'] += 1
                continue
            rs['accepted_ok' if r.startswith('ok') else 'accepted_violating'] += 1
            if not r.startswith('ok') and not r.startswith('cfgerr'):
                d = kv(r)
                kind = d.get('kind') or ('executor_' + r.split()[0].lower())
                # one key per named finding: a limit that is accepted but never installed is the same finding in every limit mode
                key = f"e2:accepted_{meta['req']}_{meta['val']}:limit_not_installed" if kind.startswith('limit_not_installed') else f"e2:accepted_{meta['req']}_{meta['val']}:{kind}:{meta['mode']}"
                chk.violation(key,
                              f"OV_ECTL_RATEMANAGE2_SET accepted {meta['req']}={meta['val']} ({meta['mode']} limits, R={d.get('R')}) and the managed encode [{line}] then breaks the limit: {d.get('detail', r[:300])}"
                              + (f"; run oracle against configured limits: {d.get('run_oracle')} {d.get('run_detail', '')}" if 'run_oracle' in d else ''),
                              {'part': 'e2', 'case': line})
                continue
        if r.startswith('ok'):
            d = kv(r)
            e2stat['cases'] += 1
            e2stat['packets'] += int(d['n'])
            for k in ('runs', 'trunc', 'pad', 'limited', 'hit0', 'hitfull', 'nonmono', 'short', 'long'):
                e2stat[k] += int(d[k])
            hs = int(d['bs'].split('/')[0]) // 2
            for lim, key in ((meta['max'], 'Mq'), (meta['min'], 'mq')):
                if lim:
                    quant[f"{lim * 1000} bps @ {meta['rate']} Hz, short block {2 * hs}"] = f"{d[key]} bits per {hs} samples = {int(d[key]) * meta['rate'] / hs:.1f} bps enforced"
            if meta['max']:
                e2stat['worstp'] = max(e2stat['worstp'], float(d['worstp'].split('@')[0]))
            if meta['min']:
                e2stat['worstm'] = max(e2stat['worstm'], float(d['worstm'].split('@')[0]))
            if len(e2samples) < 3 and (int(d['trunc']) or int(d['pad'])) and len(e2samples) == (0 if meta['mode'] == 'max' else 1 if meta['mode'] == 'min' else 2):
                e2samples.append({'e2e': line, 'result': r[:260]})
        elif r.startswith('VIOL'):
            d = kv(r)
            kind = d.get('kind', '')
            if kind.startswith('limit_not_installed_'):
                # a configured hard limit / reservoir never reached the rate manager
                chk.violation(f"e2:{'plain_setup:' if 'plain' in meta else ''}limit_not_installed:{kind[len('limit_not_installed_'):]}", f"real managed encode [{line}]: {d.get('detail')}; run oracle against the configured limits: {d.get('run_oracle')} {d.get('run_detail', '')}", {'part': 'e2', 'case': line})
                if d.get('run_oracle', 'none') != 'none':
                    chk.violation(f"e2:{d['run_oracle']}:{meta['mode']}:{meta['rate']}", f"real managed encode [{line}] judged against the CONFIGURED limits: {d.get('run_detail')}", {'part': 'e2', 'case': line})
            else:
                chk.violation(f"e2:{kind}:{meta['mode']}:{meta['rate']}", f"real managed encode [{line}]: {d.get('detail')}", {'part': 'e2', 'case': line})
        elif r.startswith('cfgerr'):
            broken.append(line + ' -> ' + r)
        else:
            chk.violation(f"e2:executor_{r.split()[0].lower()}:{meta['mode']}:{meta['rate']}", f"encode executor failed on [{line}]: {r[:300]}", {'part': 'e2', 'case': line})
    t_e2 = time.time() - t0

    # ------------------------------------------------------------------ E3: set-up request sequences (pylib/c14_seq.py, harness/c14_seq.c); before E1, whose heavy tail a deadline may cut
    e3add = c14_seq.run_family(chk, tier, exe3, broken) if 'e3' in parts else (0, 0, 0, 0)
    t_e3 = time.time() - t0 - t_e2

    # ------------------------------------------------------------------ E1
    cfgs = e1_configs(tier) if 'e1' in parts else []
    cfgs.sort(key=e1_cost)    # light configurations first: a deadline can only cut the heavy tail
    lines = [e1_line(c) for c in cfgs]
    r1 = vlib.run_cases(exe1, lines, ['--deadline', str(deadline), '--timeout', '3000'], tag='c14e1', timeout=7200)
    tot = dict(states=0, trans=0, validated=0, diverged=0, trunc=0, pad=0, hit0=0, hitfull=0, nontriv=0)
    fix_noavg = fix_total = n_noavg = n_avg = 0
    minch, maxch = 99, -1
    fams = {}
    cut = dict(deadline=0, cap_noavg=0, cap_avg=0)
    table = []
    samples = []
    seen_s = set()
    e1viol = []
    for c, line, r in zip(cfgs, lines, r1):
        chk.cov['evaluations'] += 1
        r = r or 'NOOUTPUT'
        name = f"{c['fam']}:{c['mode']}{'+avg' if c['A'] else ''}:M{c['M']}:m{c['m']}:A{c['A']}:R{c['R']}:bias{c['bias']}:spl{c['spl']}:damp{c['damp']}:rag{c['ragged']}:lvl{c['level']}"
        if r.startswith('ok') or r.startswith('VIOL'):
            d = kv(r)
            for k in tot:
                tot[k] += int(d[k])
            minch, maxch = min(minch, int(d['minch'])), max(maxch, int(d['maxch']))
            f = fams.setdefault(c['fam'], dict(configs=0, fixpoints=0, states=0, transitions=0, max_depth=0))
            f['configs'] += 1
            f['states'] += int(d['states'])
            f['transitions'] += int(d['trans'])
            f['fixpoints'] += int(d['fix'])
            f['max_depth'] = max(f['max_depth'], int(d['depth']))
            if c['A']:
                n_avg += 1
            elif r.startswith('ok'):      # a configuration stopped at a violation is not a fix-point candidate
                n_noavg += 1
                fix_noavg += int(d['fix'])
            fix_total += int(d['fix'])
            if d['why'] == 'deadline':
                cut['deadline'] += 1
                exhaustive = False
            elif d['why'] == 'cap':
                cut['cap_noavg' if not c['A'] else 'cap_avg'] += 1
                if not c['A']:
                    exhaustive = False
            table.append(f"{name} states={d['states']} trans={d['trans']} fix={d['fix']}({d['why']}) depth={d['depth']} alphabet={d['alpha']} maxE+={d['maxEp']} maxE-={d['maxEm']} res=[{d['minres']},{d['maxres']}]")
            if r.startswith('VIOL'):
                key = f"e1:{d['kind']}:{c['mode']}{'+avg' if c['A'] else ''}"
                e1viol.append((key, c['R'] < 64, d['trace'].count(';'), f"{name}: {d.get('detail', '')} after trace {d['trace'][:400]}", {'part': 'e1', 'config': c, 'case': e1_trace_line(c, d['trace'])}))
            elif 'sample' in d and (c['mode'], bool(c['A'])) not in seen_s and len(samples) < 6 and int(d['depth']) >= 3 and c['R'] >= 64:
                seen_s.add((c['mode'], bool(c['A'])))
                samples.append({'config': name, 'trace->state': d['sample']})
        elif r.startswith('cfgerr'):
            broken.append(line + ' -> ' + r)
        else:
            chk.violation(f"e1:executor_{r.split()[0].lower()}:{c['mode']}{'+avg' if c['A'] else ''}", f"the real vorbis_bitrate_addblock/flushpacket crashed or hung under {name}: {r[:300]}", {'part': 'e1', 'config': c, 'case': line})

    # per key the replay kept is the one on a realistic reservoir with the shortest trace
    for key, _, _, desc, rp in sorted(e1viol, key=lambda v: v[:3]):
        chk.violation(key, desc, rp)

    chk.cov.update({
        'states': tot['states'] + e3add[0], 'transitions': tot['trans'] + e3add[1], 'traces_validated_against_impl': tot['validated'] + e3add[2],
        'distinct_nontrivial': tot['nontriv'] + e3add[3],
        'exhaustive': exhaustive and parts == ['e1', 'e2', 'e3'], 'parts': parts, 'e3_wall_s': round(t_e3, 1),
        'e1_configurations': len(cfgs), 'e1_configurations_without_avg': n_noavg, 'e1_fixpoints_without_avg': fix_noavg, 'e1_configurations_with_avg_depth_bounded': n_avg,
        'e1_fixpoints_total': fix_total, 'e1_cut': cut,
        'e1_truncating_transitions': tot['trunc'], 'e1_padding_transitions': tot['pad'], 'e1_transitions_to_reservoir_0': tot['hit0'], 'e1_transitions_to_reservoir_full': tot['hitfull'],
        'e1_choice_range': [minch, maxch], 'e1_families': fams, 'e1_table': table,
        'e2': {k: (round(v, 1) if isinstance(v, float) else v) for k, v in e2stat.items()}, 'e2_wall_s': round(t_e2, 1), 'e2_enforced_rate_quantisation': quant, 'e2_requests_through_ctl': reqstat,
        'samples': samples + e2samples,
        'rule': 'E1: per configuration (hard max / hard min / both / CBR, optionally average tracking; reservoir_bits; reservoir_bias; short:long ratio; byte-aligned or mid-byte blobs) '
                'a BFS over the real bitrate_manager_state: state = (minmax_reservoir, avg_reservoir, avgfloat, E+, E-) deduplicated by hash, transition = real vorbis_bitrate_addblock + '
                'vorbis_bitrate_flushpacket on 15 real oggpack buffers whose byte counts come from a per-block-type alphabet (affine ramps a+b*i, constants, cliffs, in richer levels descending ramps); '
                'configurations without average tracking run to a fix-point (fix=1), with average tracking to the stated depth / transition cap (fix=0, why=depthcap|cap); '
                'distinct_nontrivial = number of distinct (configuration, state) pairs whose reservoir differs from its initial fill (the limiter has acted). '
                'E2: real managed encodes (4 limit modes x loose/tight limits x 3 reservoirs x 3 biases x 2 rates x 2 channel counts x signals; hard maxima of 1-2 kbps (sub-byte short-block budgets) on click trains; '
                'plain vorbis_encode_init / setup_managed+setup_init set-ups without ctl; out-of-range requests through RATEMANAGE2_SET), every contiguous packet run judged (e2.runs). '
                'E3: per set-up (base call x rate x channels) a BFS over the real set-up object under an alphabet of vorbis_encode_ctl requests (all request sequences up to e3.depth; states deduplicated by value, '
                'transition = one real request + read-backs checked against a reference model of the requested rate-management configuration); every reachable managed state with a hard limit is re-created on a fresh '
                'object and encoded, every contiguous packet run judged against the REQUESTED reservoir; its states / transitions / replayed histories are included in the totals, distinct_nontrivial counts its non-initial states.',
    })
    chk.assumptions += [
        'slack s = 14 bits on E+/E-: packets are whole bytes; truncation floors the allowance to a byte, padding ceils the demand to a byte (<=7 bits each), and a run can start after one and end after the other. '
        'Measured: the slack is only used by reservoirs smaller than one byte; for R >= 7 max E+ = max E- = R exactly.',
        'reservoir range oracle is [min(0,R-7), max(R,7)], i.e. exactly [0,R] for every R >= 7 (a whole-byte packet cannot hit a sub-byte window)',
        'E1 units: rate == blocksizes[0]/2 so per-block targets are exact integers; the rint() quantisation of the per-block budget in vorbis_bitrate_init is therefore not exercised in E1',
        'E2: the hard limit the manager enforces is rint(rate_limit*(bs0/2)/samplerate) bits per short block; the resulting quantisation (<= 0.5 bit per short block, e.g. 80000 bps at 44.1 kHz/256 -> 79931 bps) '
        'is credited to the code (units*|q-rint(q)| added to the slack). Under the most literal reading of the property this drift is unbounded over an arbitrarily long stream; reported to the lead, not judged.',
        'E2: one unmatched short/long transition per run is allowed (max_rate*(bs1-bs0)/(4*rate) bits): the manager budgets a block by its own size while a packet\'s granule advance depends on its neighbour (DESIGN C14)',
        'E2: the first packet (granule advance 0 by convention) is treated as if preceded by a block of its own size; the eos packet, whose granule is clipped to the input length, is credited its nominal advance',
        'E2 request cases: bias / damping / reservoir_bits values outside their documented range are offered to the real OV_ECTL_RATEMANAGE2_SET; a refusal is counted (e2_requests_through_ctl), an acceptance is encoded and judged against the configured reservoir like any in-range case',
        'configurations with min_rate > max_rate (accepted by vorbis_encode_setup_managed, rejected by OV_ECTL_RATEMANAGE2_SET) cannot satisfy both limits and are not judged',
        'over-padding / harsher-than-needed truncation is not judged unless it breaks a limit (the property bounds bits, not quality)',
    ]
    chk.guard(not broken, 'no executor configuration errors: ' + '; '.join(broken[:3]))
    if 'e1' in parts:
        chk.guard(tot['diverged'] == 0, f"replaying recorded histories on fresh objects reproduces the copied states ({tot['diverged']} divergences)")
        chk.guard(tot['validated'] >= 1000, 'at least 1000 state histories replayed on fresh objects')
        chk.guard(tot['trunc'] > 0, 'E1: truncation happened in some transition')
        chk.guard(tot['pad'] > 0, 'E1: padding happened in some transition')
        chk.guard(tot['hit0'] > 0 and tot['hitfull'] > 0, 'E1: reservoir hit both 0 and full')
        chk.guard(minch == 0 and maxch == 14, 'E1: both extreme blobs (0 and 14) were chosen')
        chk.guard(cut['deadline'] > 0 or cut['cap_noavg'] > 0 or fix_noavg == n_noavg, f'E1: every configuration without average tracking that was not cut reached a fix-point ({fix_noavg}/{n_noavg})')
        chk.guard(fix_noavg >= (100 if tier == 'quick' else 250), f'E1: at least N configurations reached a fix-point ({fix_noavg})')
    if 'e2' in parts:
        chk.guard(len(reqstat) >= 13 and sum(v['refused'] + v['accepted_ok'] + v['accepted_violating'] for v in reqstat.values()) >= 150, 'E2: out-of-range bias/damping/reservoir requests were offered to the control interface')
        chk.guard(e2stat['trunc'] > 0 and e2stat['pad'] > 0, 'E2: truncation and padding both happened in real encodes')
        chk.guard(e2stat['hit0'] > 0 and e2stat['hitfull'] > 0, 'E2: reservoir hit both 0 and full in real encodes')
        chk.guard(e2stat['short'] > 0 and e2stat['long'] > 0, 'E2: short and long blocks both occurred')
        chk.guard(e2stat['cases'] >= (1000 if tier == 'quick' else 2000), 'E2: encodes completed')
    return chk.finish()


def replay(path):
    r = json.load(open(path))['replay']
    vlib.build('plain')
    exe = vlib.harness('plain', {'e1': 'c14_bitrate', 'e3': 'c14_seq'}.get(r['part'], 'c14_e2e'))
    out = vlib.run_cases(exe, [r['case']], jobs=1, tag='c14rp')
    print(out[0])
    return 0 if (out[0] or '').startswith('ok') else 1
