"""C19: lapped seeks differ from plain seeks only inside the first half short block.

Bounded-exhaustive product (old position history) x (target) x (5 lapped variants) x files, plus
ov_crosslap(vf1, vf2) over (old position) x (old position) on pairs of handles.  Every case is executed on
the real library by harness/c19_lap.c as three replays of the same history on fresh handles:
A plain seek, B lapped seek, C lap source (what would have been read next at the old position).
The executor only measures; every verdict is taken here."""
import sys, time, json
import vlib, zoo, seekgraph
import c19_phys

PID = 'C19'
OV_EOF = -2
VARIANTS = ('PS', 'PP', 'RS', 'TS', 'TP')
FILES = ('F1', 'F2', 'F2z', 'F3', 'F8', 'F9')
# synthesised streams with 64-sample short blocks (lap length 32; ov_halfrate is refused on them): full-rate cases only
SYNTH = ('F3', 'F8', 'F9')
OV_EINVAL = -131
XPAIRS_QUICK = (('F1', 'F1'), ('F2', 'F2'), ('F1', 'F2'), ('F2', 'F2z'), ('F2z', 'F2'))
XPAIRS_THOROUGH = XPAIRS_QUICK + (('F2', 'F1'), ('F2z', 'F2z'), ('F2z', 'F1'), ('F1', 'F2z'))
XPAIRS_SYNTH_QUICK = (('F8', 'F8'), ('F3', 'F8'))
XPAIRS_SYNTH_THOROUGH = XPAIRS_SYNTH_QUICK + (('F3', 'F3'), ('F9', 'F9'), ('F8', 'F3'), ('F2', 'F8'), ('F8', 'F2'), ('F9', 'F2'), ('F2', 'F9'), ('F1', 'F3'))


def file_set():
    allf = dict(zoo.standard_files())
    allf.update(zoo.halfrate_refusal_files())
    return {k: allf[k] for k in FILES}


# ------------------------------------------------------------------ enumeration domains
def old_positions(fm, rich):
    """[(class, [ops])]: histories that put a fresh handle at the old position."""
    L = fm.L
    O = [('fresh', []), ('read1', ['rf4096']), ('midpacket', ['rf37']), ('midpacket', ['rf4096', 'rf37'])]
    for k in range(fm.nl):
        s, e = fm.start[k], fm.start[k + 1]
        n = e - s
        if n > 600:
            O.append(('midpacket', ['ps%d' % (s + 300), 'rf37']))
            O.append(('lastpacket', ['ps%d' % (e - 300), 'rx250']))       # 50 samples before the link end, reached by reading
            O.append(('lastpacket', ['ps%d' % (e - 50)]))                 # same place, reached by a seek
            O.append(('linkend', ['ps%d' % (e - 100), 'rx100']))          # exactly at the link end, decoder still in link k
            if rich:
                O.append(('read1', ['ps%d' % (s + 300), 'rf4096']))
                O.append(('lastpacket', ['ps%d' % (e - 1)]))
                O.append(('linkstart', ['ps%d' % s]))
                O.append(('linkstart', ['pp%d' % (s + 1)]))
                O.append(('midpacket', ['ts%r' % (fm.tstart[k] + 0.0301)]))
                O.append(('after_lap', ['PS%d' % (s + 411), 'rf37']))
                O.append(('after_lap', ['RS%d' % ((fm.lt[k]['offset'] + fm.lt[k]['end']) // 2)]))
                O.append(('rawseek', ['rs%d' % (fm.pages[fm.lt[k]['last']].offset + 1)]))
        elif n > 0:
            O.append(('lastpacket', ['ps%d' % (s + n // 2)]))
            O.append(('linkend', ['ps%d' % s, 'rx%d' % n]))
        else:
            # zero-sample link: the only way in is a raw seek into its pages
            O.append(('emptylink', ['rs%d' % fm.lt[k]['offset']]))
            if rich:
                O.append(('emptylink', ['rs%d' % (fm.pages[fm.lt[k]['last']].offset)]))
    if fm.name in SYNTH:
        # ov_halfrate(vf,1) must be refused here; the refusal must leave lapping as it was
        O.append(('halfrate_refused', ['h1', 'rf37']))
        O.append(('halfrate_refused', ['rf4096', 'rf37', 'h1']))
    O.append(('eof', ['ps%d' % (L - 100), 'rx100', 'rf1']))               # the zero return has been seen
    O.append(('eof', ['ps%d' % L]))
    O.append(('dumped', ['rs%d' % fm.size]))                               # decoder dumped at the end of the file
    if rich:
        O.append(('read2', ['rf4096', 'rf4096']))
        O.append(('midpacket', ['rf1']))
        O.append(('eof', ['rs%d' % (fm.size - 30), 'rf1']))
        O.append(('dumped', ['ps%d' % (L // 2), 'rs%d' % fm.size]))
        O.append(('rearmed', ['rs%d' % fm.size, 'ps%d' % (L // 3), 'rf37']))
    return O


def targets(fm, rich):
    """{variant: [target text]} incl. out-of-range arguments (failure equality)."""
    P = fm.sample_targets(rich)
    R = fm.raw_targets(rich)
    T = fm.time_targets(rich)
    t = {}
    t['PS'] = ['%d' % p for p in P] + ['-1', '%d' % (fm.L + 1)]
    t['PP'] = ['%d' % p for p in (P if rich else P[::2] + [fm.L])] + ['-1', '%d' % (fm.L + 1)]
    t['RS'] = ['%d' % o for o in R] + ['-1', '%d' % (fm.size + 1)]
    t['TS'] = list(T) + ['-0.001', repr(fm.duration + 0.01)]
    t['TP'] = list(T) + ['-0.001', repr(fm.duration + 0.01)]
    for k in t:
        t[k] = list(dict.fromkeys(t[k]))
    return t


def seek_cases(models, rich, half, thin=1):
    """full product O x T x variants on each file; thin>1 keeps every thin-th target (used for the reduced half-rate product of the quick tier)"""
    cases, meta = [], []
    for fm in models:
        O = old_positions(fm, rich)
        T = targets(fm, rich)
        for oc, hist in O:
            for v in VARIANTS:
                for tg in T[v][::thin]:
                    cases.append(f'S {fm.idx} {half} {v}{tg} | ' + ' '.join(hist))
                    meta.append({'kind': 'S', 'file': fm.name, 'half': half, 'op': v + tg, 'hist': hist, 'oclass': oc, 'variant': v})
    return cases, meta


def cross_cases(models, pairs, rich, half):
    cases, meta = [], []
    byname = {m.name: m for m in models}
    for a, b in pairs:
        fa, fb = byname[a], byname[b]
        Oa, Ob = old_positions(fa, rich), old_positions(fb, rich)
        for oc1, h1 in Oa:
            for oc2, h2 in Ob:
                cases.append(f'X {fa.idx} {fb.idx} {half} | ' + ' '.join(h1) + ' | ' + ' '.join(h2))
                meta.append({'kind': 'X', 'file': a, 'file2': b, 'half': half, 'op': 'crosslap', 'hist': h1, 'hist2': h2, 'oclass': oc1, 'oclass2': oc2, 'variant': 'XL'})
    return cases, meta


# ------------------------------------------------------------------------- observations
def parse(line):
    if line is None:
        return {'err': 'NOOUTPUT'}
    if not line or not line.startswith('A='):
        return {'err': line[:600]}
    d = {}
    for tok in line.split(' '):
        if '=' in tok:
            k, v = tok.split('=', 1)
            d[k] = v
    a = d['A'].split(':'); b = d['B'].split(':'); o = d['O'].split(':'); s = d['S'].split(':'); n = d['N'].split(':'); l = d['L'].split(':')
    return {'rcA': int(a[0]), 'tA': int(a[1]), 'rcB': int(b[0]), 'tB': int(b[1]),
            'rs': int(o[0]), 'k1': int(o[1]), 'ch1': int(o[2]), 'n1': int(o[3]), 't0': int(o[4]),
            'src': s[0], 'sdec': int(s[1]), 'slap': int(s[2]),
            'k2': int(n[0]), 'ch2': int(n[1]), 'n2': int(n[2]), 'n': int(n[3]), 'avail': int(n[4]), 'follow': int(n[5]),
            'tail': d['T'], 'judged': int(l[0]), 'nfail': int(l[1]), 'first': int(l[2]), 'fch': int(l[3]), 'got': l[4], 'exp': l[5], 'last': int(l[6]), 'ndiff': int(l[7]), 'xlap': int(l[8]),
            'V': d.get('V', '-'), 'H': d.get('H', 'ok'), 'Q': int(d.get('Q', '1')),
            'xf': int(d.get('F', '0:0:0:-1').split(':')[0]), 'npg': int(d.get('F', '0:0:0:-1').split(':')[1]), 'nrd': int(d.get('F', '0:0:0:-1').split(':')[2]), 'off0': int(d.get('F', '0:0:0:-1').split(':')[3]), 'D': d.get('D', '-')}


def exposed_by_own_lapped_seek(hist):
    """the last seek in the history is a lapped one (its vorbis_synthesis_lapout exposed the block the handle may still be in)"""
    seeks = [o[:2] for o in hist if o[:2].lower() in ('ps', 'pp', 'rs', 'ts', 'tp')]
    return bool(seeks) and seeks[-1] in VARIANTS


def judge(chk, m, r, st):
    """The oracle: exactly the statement of C19 under its weakest reading.  Returns the signature of a passed non-trivial case or None."""
    where = m['file'] + ('+' + m['file2'] if m['kind'] == 'X' else '')
    rep = dict(m)
    v, oc = m['variant'], m['oclass']
    if 'err' in r:
        e = r['err']
        what = 'timeout' if 'TIMEOUT' in e else ('sanitizer' if 'rc=77' in e or 'AddressSanitizer' in e else 'died')
        chk.violation(f'{v}:{oc}:{what}', f'{where} {m["op"]} after {m["hist"]}: executor {e[:400]}', rep)
        return None
    if r['H'] != 'ok':
        st['machinery'].append(('replays of one history diverged', m))
        return None
    if r['src'] == 'err':
        st['machinery'].append(('lap source extraction failed', m))
        return None
    if 'h1' in m['hist'] or 'h1' in m.get('hist2', ()):
        if r['Q'] != OV_EINVAL:
            st['machinery'].append(('ov_halfrate was not refused (returned %d): the case is not a full-rate case' % r['Q'], m))
            return None
        st['halfrate_refusals'] += 1
    rcA, rcB = r['rcA'], r['rcB']
    nostate_eos = r['src'] == 'eos_nostate'
    # named predicate (physical-layout axis): the old handle has no decoder and its page cursor stands directly in front of a BOS page of ANOTHER
    # logical stream inside the BOS group of its own link (e.g. after a raw seek to the first byte of a multiplexed link)
    before_foreign_bos = r['rs'] < 4 and r['off0'] in st.get('foreign_bos', {}).get(m['file'], ())
    desc0 = f'{where} half={m["half"]} {m["op"]} after {m["hist"]}' + (f' | {m["hist2"]}' if m['kind'] == 'X' else '')
    if rcA != 0:
        # the plain seek fails: the lapped one must fail with the same code (or report EOF for a state-less handle at end of stream)
        st['plain_failures'] += 1
        if rcB == rcA:
            return (v, oc, 'fail', rcA)
        if rcB == OV_EOF and nostate_eos:
            st['eof_nostate'] += 1
            return (v, oc, 'EOF-nostate-on-bad-arg')
        chk.violation('eof_before_foreign_bos_page_of_own_link' if (before_foreign_bos and rcB == OV_EOF) else f'{v}:failure_code_differs', f'{desc0}: plain seek returned {rcA}, lapped seek {rcB}', rep)
        return None
    if rcB == OV_EOF:
        if nostate_eos:
            st['eof_nostate'] += 1
            return (v, oc, 'EOF-nostate')
        if r['follow'] == 0:
            st['eof_nofollow'] += 1
            return (v, oc, 'EOF-nothing-follows')
        # named predicate: the new position is the very end of a link that is not the last one (the audio that follows is the next link's)
        at_link_end = r['tA'] in st['link_starts'].get(m.get('file2') or m['file'], ())
        key = 'eof_before_foreign_bos_page_of_own_link' if before_foreign_bos else ('eof_at_link_end_although_next_link_follows' if at_link_end else f'{v}:{oc}:eof_although_audio_follows')
        chk.violation(key, f'{desc0}: lapped call returned OV_EOF but {r["follow"]} samples follow the target (plain: 0, tell {r["tA"]}); old state ready={r["rs"]} link={r["k1"]}', rep)
        return None
    if rcB != 0:
        chk.violation(f'{v}:lapped_fails_where_plain_succeeds', f'{desc0}: lapped call returned {rcB}, plain 0', rep)
        return None
    ok = True
    if r['tB'] != r['tA']:
        chk.violation(f'{v}:position_differs', f'{desc0}: ov_pcm_tell {r["tB"]} after the lapped call, {r["tA"]} after the plain one', rep)
        ok = False
    if r['tail'] != 'ok':
        # same named predicate as below: vf2 still sits in the block its own lapped seek exposed (second vorbis_synthesis_lapout on one block
        # shifts the buffer again); with n smaller than that block the damage shows beyond the lap region
        twice = m['kind'] == 'X' and exposed_by_own_lapped_seek(m['hist2'])
        chk.violation('XL:second_handle_block_exposed_twice' if twice else f'{v}:audio_differs_after_lap_region', f'{desc0}: {r["tail"]} (n={r["n"]}, lap region is [0,n))', rep)
        ok = False
    if r['nfail']:
        if r['avail'] < r['n'] and r['first'] >= r['avail']:
            key = 'lap_reaches_past_primed_samples'
            why = f'only {r["avail"]} finished samples were primed at the new position, the splice ran over n={r["n"]} samples into the not yet overlap-added half'
        elif m['kind'] == 'X' and exposed_by_own_lapped_seek(m['hist2']):
            # named predicate: the second handle's current block had already been exposed by a lapped seek in its own history
            # (vorbis_synthesis_lapout is applied to the same decoded block a second time by ov_crosslap)
            key = 'XL:second_handle_block_exposed_twice'
            why = f'vf2 was positioned by a lapped seek and still inside the block that seek primed; primed {r["avail"]} n={r["n"]}'
        else:
            key = f'{v}:{oc}:crossfade_formula'
            why = f'primed {r["avail"]} n={r["n"]}'
        chk.violation(key, f'{desc0}: {r["nfail"]} samples in [{r["first"]},{r["last"]}] of the lap region are not A*w^2+S*(1-w^2): first ch{r["fch"]} got {r["got"]} expected {r["exp"]} ({why}); old link {r["k1"]}/{r["ch1"]}ch/n1={r["n1"]} new link {r["k2"]}/{r["ch2"]}ch/n2={r["n2"]} source={r["src"]}:{r["sdec"]}+{r["slap"]}', rep)
        ok = False
    if m['kind'] == 'X' and r['V'] not in ('ok', 'unjudged'):
        # named predicate: the first handle was within its half short block of the end of a non-final link (its lap source could not be decoded
        # completely inside the link) and afterwards a whole link is missing from what it delivers
        key = 'XL:first_handle_loses_next_link' if (r['V'].startswith('bad:segments') or r['V'].startswith('bad:struct')) and r['sdec'] < r['n1'] else 'XL:first_handle_output_disturbed'
        chk.violation(key, f'{desc0}: vf1 after ov_crosslap does not deliver what it would after only consuming the lap source: {r["V"]} (lap source {r["sdec"]} decoded + {r["slap"]} from lapout)', rep)
        ok = False
    if not ok:
        return None
    if r['follow'] == 0:
        return None       # trivial: nothing to compare
    crossed = r['k1'] != r['k2'] if m['kind'] == 'S' else None
    chg = (r['ch1'] > r['ch2']) - (r['ch1'] < r['ch2']) if r['ch1'] and r['ch2'] else 0
    lapped = r['ndiff'] > 0
    if lapped and r['judged'] > 0:
        st['lapped'] += 1
        if r['ch1'] != r['ch2'] and r['ch1'] and (crossed or m['kind'] == 'X'):
            st['lapped_chchange'][chg] = st['lapped_chchange'].get(chg, 0) + 1
        if m['half'] in ('10', '01'):
            st['mixed_lapped'][m['half']] = st['mixed_lapped'].get(m['half'], 0) + 1
        if r['slap'] > 0:
            st['lapped_from_lapout'] += 1
        if r['n1'] != r['n2']:
            st['lapped_blocksize_change'] += 1
        if r['n'] == 32:
            st['lapped_n32'] += 1
        if r['xlap']:
            st['lap_ran_into_next_link'] += 1
    if r['src'] in ('nosrc', 'zero', 'short', 'openmid'):
        st['source_unjudged'] += 1
    return (v, oc, bool(crossed), chg, 'lap' if lapped else 'nolap', 'lapout' if r['slap'] else 'decoded') + (('halfrate' + m['half'],) if m['half'] in ('10', '01') else ())


def new_stats(models):
    return {'machinery': [], 'plain_failures': 0, 'eof_nostate': 0, 'eof_nofollow': 0, 'lapped': 0, 'lapped_chchange': {}, 'lapped_from_lapout': 0,
            'lapped_blocksize_change': 0, 'lap_ran_into_next_link': 0, 'source_unjudged': 0, 'mixed_lapped': {}, 'halfrate_refusals': 0, 'lapped_n32': 0,
            'link_starts': {fm.name: set(fm.start[1:fm.nl]) for fm in models}}


def execute(chk, exe, listfile, cases, meta, st, sigs, tag, extra=()):
    res = vlib.run_cases(exe, cases, ['--files', listfile] + list(extra), tag=tag)
    for m, line in zip(meta, res):
        chk.cov['evaluations'] += 1
        sg = judge(chk, m, parse(line), st)
        if sg is not None:
            sigs.add(sg)


def run(tier):
    chk = vlib.Check(PID, tier, 'exploration')
    rich = tier == 'thorough'
    t_end = time.time() + (150 if tier == 'quick' else 1380)
    vlib.build('plain', 'asan')
    _, listfile, allmodels = seekgraph.load_models(file_set())
    models = [m for m in allmodels if m.name not in SYNTH]          # encoder-made files: full and half rate
    synth = [m for m in allmodels if m.name in SYNTH]               # 64-sample short blocks: full rate only
    exe_p = vlib.harness('plain', 'c19_lap')
    exe_a = vlib.harness('asan', 'c19_lap')
    st = new_stats(allmodels)
    sigs = set()
    sc, sm = seek_cases(models, rich, 0)
    xc, xm = cross_cases(models, XPAIRS_THOROUGH if rich else XPAIRS_QUICK, rich, 0)
    if rich:
        yc, ym = seek_cases(synth, rich, 0)
        zc, zm = cross_cases(allmodels, XPAIRS_SYNTH_THOROUGH, rich, 0)
    else:
        # quick: reduced product on F3 and F8 (every 3rd target; all old positions)
        yc, ym = seek_cases([m for m in synth if m.name in ('F3', 'F8')], rich, 0, thin=3)
        zc, zm = cross_cases(allmodels, XPAIRS_SYNTH_QUICK, rich, 0)
    sc, sm, xc, xm = sc + yc, sm + ym, xc + zc, xm + zm
    nsynth = len(yc) + len(zc)
    if rich:
        # half-rate decoding switched on right after open on every replay: the whole product again
        hc, hm = seek_cases(models, rich, 1)
        c2, m2 = cross_cases(models, XPAIRS_THOROUGH, rich, 1)
        # mixed settings on the two handles of ov_crosslap: '10' = vf1 half rate / vf2 full rate, '01' the other way round
        for mix in ('10', '01'):
            c3, m3 = cross_cases(models, XPAIRS_THOROUGH, rich, mix)
            c2, m2 = c2 + c3, m2 + m3
    else:
        # quick: reduced half-rate product (F2 only: the file whose links differ in channels and short block size; every 3rd target)
        f2 = [m for m in models if m.name == 'F2']
        hc, hm = seek_cases(f2, rich, 1, thin=3)
        c2, m2 = cross_cases(models, (('F2', 'F2'),), rich, 1)
        # mixed half-rate settings on the two handles (reduced: two file pairs)
        for mix in ('10', '01'):
            c3, m3 = cross_cases(models, (('F2', 'F2'), ('F1', 'F2')), rich, mix)
            c2, m2 = c2 + c3, m2 + m3
    sc, sm, xc, xm = sc + hc, sm + hm, xc + c2, xm + m2
    passes = []
    # the sanitizer passes of the quick tier stop each read-through after 900 samples (the lap region is at most 256); thorough reads to the end everywhere
    aextra = [] if rich else ['--maxread', '900']
    plan = [('seek/plain', exe_p, sc, sm, []), ('crosslap/plain', exe_p, xc, xm, []), ('physical-layouts', None, [], [], []), ('seek/asan', exe_a, sc, sm, aextra), ('crosslap/asan', exe_a, xc, xm, aextra)]
    exhaustive = True
    phys = {}
    for name, exe, c, m, extra in plan:
        if time.time() > t_end:
            exhaustive = False
            passes.append({'pass': name, 'cases': len(c), 'completed': False})
            continue
        t0 = time.time()
        if name == 'physical-layouts':
            # physical-layout axis (pylib/c19_phys.py): the same sweep on multiplexed / re-paged / chunk-read layouts of the same packets + differential oracle
            phys = c19_phys.run_family(chk, sys.modules[__name__], tier, exe_p, exe_a, st, sigs, min(t_end, time.time() + (75 if tier == 'quick' else 600)))
            exhaustive = exhaustive and phys['completed']
            passes.append({'pass': name, 'cases': phys['cases'] + phys['reference_cases'] + phys['asan_cases'], 'completed': phys['completed'], 'wall_s': round(time.time() - t0, 1)})
            continue
        execute(chk, exe, listfile, c, m, st, sigs, 'c19', extra)
        passes.append({'pass': name, 'cases': len(c), 'completed': True, 'wall_s': round(time.time() - t0, 1)})
    per_file = {}
    for fm in allmodels:
        O = old_positions(fm, rich)
        T = targets(fm, rich)
        per_file[fm.name] = {'old_positions': len(O), 'targets': {k: len(v) for k, v in T.items()}, 'links': [(l['ch'], l['rate'], l['bs0'], l['bs1'], l['pcm']) for l in fm.desc['links']]}
    if st['machinery']:
        print('MACHINERY ERROR:', st['machinery'][:3], file=sys.stderr)
    chk.guard(not st['machinery'], 'replay determinism / lap source extraction: %r' % (st['machinery'][:2],))
    hist = {}
    for key, _, _ in chk.violations:
        hist[key] = hist.get(key, 0) + 1
    chk.cov['violations_by_key'] = hist
    pick = list(range(0, len(sc), max(1, len(sc) // 8)))[:8]
    chk.cov['samples'] = [{'case': sc[i], 'class': sm[i]['oclass']} for i in pick] + [{'case': xc[i]} for i in range(0, len(xc), max(1, len(xc) // 3))][:3]
    chk.cov.update({'distinct_nontrivial': len(sigs), 'exhaustive': exhaustive, 'passes': passes, 'per_file': per_file,
                    'seek_cases': len(sc), 'crosslap_cases': len(xc), 'halfrate_cases': len(hc) + len(c2), 'short64_file_cases': nsynth, 'short64_lapped_and_passed': st['lapped_n32'], 'halfrate_refusals_then_lapped': st['halfrate_refusals'], 'crosslap_mixed_halfrate_cases': sum(1 for x in m2 if x['half'] in ('10', '01')), 'crosslap_mixed_halfrate_lapped_and_passed': st['mixed_lapped'],
                    'plain_failures_compared': st['plain_failures'], 'legit_eof_nothing_follows': st['eof_nofollow'], 'legit_eof_no_decode_state': st['eof_nostate'],
                    'cases_lapped_and_passed': st['lapped'], 'lapped_across_channel_change': {('more_to_fewer' if k > 0 else 'fewer_to_more'): v for k, v in st['lapped_chchange'].items()},
                    'lapped_from_end_of_stream_lapout': st['lapped_from_lapout'], 'lapped_across_blocksize_change': st['lapped_blocksize_change'],
                    'lap_region_ran_into_next_link': st['lap_ran_into_next_link'], 'lap_source_not_observable': st['source_unjudged'],
                    'rule': 'full product (old-position history) x (target) x (ov_pcm_seek_lap, ov_pcm_seek_page_lap, ov_raw_seek_lap, ov_time_seek_lap, ov_time_seek_page_lap) on F1/F2/F2z and, at full rate only, on the synthesised 64-sample-short-block files F3/F8/F9 (quick: F3/F8, every 3rd target) '
                            '+ ov_crosslap over (old position) x (old position) on file pairs, with half-rate decoding off and on (quick: on for a reduced product on F2 only) and, for ov_crosslap, with different settings on the two handles (full->half, half->full), each as three replays (plain / lapped / lap source) of the real library, once on the plain and once on the ASan build; '
                            'distinct_nontrivial = distinct (variant, old-position class, crossed a link, channel-count change, lapped or not / EOF kind, source decoded or lapout) signatures of cases that passed'})
    chk.assumptions += [
        'the lap source at a link end / end of file is vorbis_synthesis_lapout() of the old decoder after its last delivered sample (white-box, as the statement allows)',
        'when the old position has no observable lap source (stream selected but no decoder and no samples left in the link, e.g. inside a zero-sample link) the lap region is not judged; tell, return code and the audio from n on still are',
        'samples of the lap region that fall into a FOLLOWING link (target closer than n to a link end) may be unchanged or cross-faded: the statement leaves the block size there open',
        'after a legitimate OV_EOF nothing further is demanded of the handle',
        'ov_crosslap: ov_pcm_tell of the first handle afterwards is not judged (the statement speaks about its audio only)',
        'tolerance of the cross-fade: 1e-6 * max(|A|,|S|,1e-3) per sample; window = library table, cross-checked against the specification formula at executor start']
    chk.guard(st['lapped'] > 0, 'at least one passed case differs from the plain seek inside the lap region (something was lapped)')
    chk.guard(st['lapped_chchange'].get(-1, 0) > 0 and st['lapped_chchange'].get(1, 0) > 0, 'lapped across links with different channel counts, both directions')
    chk.guard(st['lapped_from_lapout'] > 0, 'at least one lap source came from the end-of-stream lapout')
    chk.guard(st['eof_nofollow'] > 0 and st['eof_nostate'] > 0, 'both legitimate OV_EOF exceptions occurred')
    chk.guard(st['plain_failures'] > 0, 'failing plain seeks were compared')
    chk.guard(st['lapped_blocksize_change'] > 0, 'lapped between different short block sizes')
    chk.guard(st['lapped_n32'] > 0, 'lapped with 64-sample short blocks (lap length 32) and passed')
    chk.guard(st['halfrate_refusals'] > 0, 'lapping after a refused ov_halfrate was exercised')
    chk.guard(st['mixed_lapped'].get('10', 0) > 0 and st['mixed_lapped'].get('01', 0) > 0, 'ov_crosslap between handles with different half-rate settings lapped and passed, both directions')
    c19_phys.finish(chk, phys, tier)
    return chk.finish()


def replay(path):
    r = json.load(open(path))
    m = r['replay']
    vlib.build('plain')
    if 'phys' in m:
        print('recorded:', r['description'])
        return c19_phys.replay_case(m, sys.modules[__name__])
    _, listfile, models = seekgraph.load_models(file_set())
    byname = {x.name: x for x in models}
    exe = vlib.harness('plain', 'c19_lap')
    if m['kind'] == 'S':
        case = f'S {byname[m["file"]].idx} {m["half"]} {m["op"]} | ' + ' '.join(m['hist'])
    else:
        case = f'X {byname[m["file"]].idx} {byname[m["file2"]].idx} {m["half"]} | ' + ' '.join(m['hist']) + ' | ' + ' '.join(m['hist2'])
    out = vlib.run_cases(exe, [case], ['--files', listfile], jobs=1, tag='c19r')
    print('case:    ', case)
    print('observed:', out[0])
    print('recorded:', r['description'])
    chk = vlib.Check(PID, 'replay', 'exploration')
    st = new_stats(models)
    judge(chk, m, parse(out[0]), st)
    for key, desc, _ in chk.violations:
        print('still fails:', key, '-', desc)
    return 1 if (chk.violations or st['machinery']) else 0
