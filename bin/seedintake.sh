#!/bin/bash
# bin/seedintake.sh <ID> <n> [check ids...]: take an independently written seeded change from /tmp/seed/<ID>/out/<n>,
# confirm it (builds, 528 tests pass, demo passes clean / fails patched) and run the owning check(s) against it.
# Result lines are appended to seeded/<ID>-<n>/verify.log; the directory is kept only if CONFIRMED.
set -u
ID=$1; N=$2; shift 2
CHECKS=${@:-$ID}
ROOT=$(cd "$(dirname "$0")/.." && pwd)
SRC=/tmp/seed/$ID/out/$N
DST=$ROOT/seeded/$ID-$N
[ -f "$SRC/patch.diff" ] || { echo "no $SRC/patch.diff"; exit 2; }
mkdir -p "$DST"
cp -r "$SRC"/. "$DST"/
rm -rf "$DST"/demo "$DST"/*.o "$DST"/_b 2>/dev/null
{
  echo "== seedverify $(date -u +%FT%TZ) repo=$(git -C /repo log --format=%h -1)"
  "$ROOT/bin/seedverify.sh" "$DST"
  echo "== seedrun $CHECKS"
  TIER=${TIER:-quick} "$ROOT/bin/seedrun.sh" "$DST/patch.diff" $CHECKS
} > "$DST/verify.log" 2>&1
tail -4 "$DST/verify.log" | cut -c1-300
