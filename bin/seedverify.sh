#!/bin/bash
# bin/seedverify.sh <seed dir with patch.diff, demo.sh>: confirm (in a scratch worktree) that with the patch the tree builds,
# the 528-test suite passes and the demo fails, and that the demo passes without the patch.
set -u
D=$(readlink -f "$1")
W=$(mktemp -d /tmp/vsv.XXXXXX)
git -C /repo worktree add -q --detach "$W/src" HEAD || exit 2
cd "$W/src"
res=""
timeout 600 bash "$D/demo.sh" "$W/src" > "$W/clean.log" 2>&1; c=$?
res="$res clean_demo_rc=$c"
if ! git apply "$D/patch.diff"; then echo "PATCH DOES NOT APPLY"; cd /; git -C /repo worktree remove --force "$W/src"; rm -rf "$W"; exit 3; fi
cmake -S . -B _b -G Ninja -DBUILD_TESTING=ON > /dev/null 2>&1 && cmake --build _b > "$W/build.log" 2>&1; b=$?
res="$res build_rc=$b"
ctest --test-dir _b > "$W/ctest.log" 2>&1; t=$?
res="$res ctest_rc=$t($(grep -o '[0-9]*% tests passed' "$W/ctest.log"))"
timeout 600 bash "$D/demo.sh" "$W/src" > "$W/mut.log" 2>&1; m=$?
res="$res mutated_demo_rc=$m"
echo "$res"
if [ $c -eq 0 ] && [ $b -eq 0 ] && [ $t -eq 0 ] && [ $m -ne 0 ] && [ $m -ne 124 ]; then echo CONFIRMED; else echo NOT-CONFIRMED; tail -5 "$W/clean.log" "$W/mut.log"; fi
cd /; git -C /repo worktree remove --force "$W/src"; rm -rf "$W"
