#!/usr/bin/env python3
"""bin/mkmutant.py <out.diff> <file> <old> <new> [<count-th occurrence, 1-based>]: make a one-edit mutant diff of /repo (scratch worktree, removed afterwards)."""
import sys, subprocess, tempfile, os, shutil
out, f, old, new = sys.argv[1:5]
nth = int(sys.argv[5]) if len(sys.argv) > 5 else 1
w = tempfile.mkdtemp(prefix='vmk.')
subprocess.run(['git', '-C', '/repo', 'worktree', 'add', '-q', '--detach', w + '/s', 'HEAD'], check=True)
try:
    p = os.path.join(w, 's', f)
    s = open(p).read()
    idx = -1
    for _ in range(nth):
        idx = s.find(old, idx + 1)
        if idx < 0:
            sys.exit('pattern not found: ' + old)
    s = s[:idx] + new + s[idx + len(old):]
    open(p, 'w').write(s)
    d = subprocess.run(['git', '-C', w + '/s', 'diff'], stdout=subprocess.PIPE, text=True).stdout
    open(out, 'w').write(d)
    print(out, len(d.splitlines()), 'lines')
finally:
    subprocess.run(['git', '-C', '/repo', 'worktree', 'remove', '--force', w + '/s'])
    shutil.rmtree(w, ignore_errors=True)
