#!/bin/bash
# bin/seednote.sh <seed> "<checks (after: reason)>" <logfile>: append a re-run verdict (output of bin/seedrun.sh) to seeded/<seed>/verify.log
ROOT=$(cd "$(dirname "$0")/.." && pwd)
{ echo "== seedrun $2"; grep -E '^(DETECTED|MISSED|BROKEN)' "$3" | sort -r | head -1; grep -E '^(DETECTED|MISSED|BROKEN)' "$3"; } >> "$ROOT/seeded/$1/verify.log"
tail -3 "$ROOT/seeded/$1/verify.log" | cut -c1-200
