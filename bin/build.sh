#!/bin/bash
# Build libvorbis+libvorbisenc+libvorbisfile from the CURRENT working tree of
# $VERIF_REPO (default /repo) into /verif/build/<flavour>/libvorbisall.a.
# usage: build.sh <flavour>...    flavours: asan plain tsan
# The build is keyed by a hash of lib/ + include/ sources: identical sources reuse
# objects (a pure function of the tree, so this *is* a rebuild from the tree).
set -e
REPO=${VERIF_REPO:-/repo}
ROOT=$(cd "$(dirname "$0")/.." && pwd)
B=${VERIF_BUILD:-$ROOT/build}
mkdir -p "$B"
SRCS="mdct smallft block envelope window lsp lpc analysis synthesis psy info floor1 floor0 res0 mapping0 registry codebook sharedbook lookup bitrate vorbisfile vorbisenc"
key=$( (cd "$REPO" && find lib include -type f \( -name '*.c' -o -name '*.h' -o -name '*.vqh' \) -print0 | sort -z | xargs -0 sha256sum) | sha256sum | cut -c1-16)
for fl in "$@"; do
  case $fl in
    asan) CC=clang; FL="-O1 -g -fno-omit-frame-pointer -fsanitize=address,integer-divide-by-zero,bounds,null -fno-sanitize-recover=integer-divide-by-zero,bounds,null";;
    plain) CC=gcc; FL="-O2 -g -DNDEBUG";;
    tsan) CC=clang; FL="-O1 -g -fsanitize=thread";;
    *) echo "unknown flavour $fl" >&2; exit 2;;
  esac
  D="$B/$fl"
  mkdir -p "$D"
  if [ -f "$D/KEY" ] && [ "$(cat "$D/KEY")" = "$key" ] && [ -f "$D/libvorbisall.a" ]; then
    continue
  fi
  rm -f "$D"/*.o "$D/libvorbisall.a" "$D/KEY"
  # harness binaries and zoo files are keyed on the tree hash by their makers (vlib.harness stamps, mkzoo signatures);
  # nothing is deleted here, so that a check that is running while the tree changes is not pulled from under
  pids=()
  for s in $SRCS; do
    $CC $FL -Wno-error -w -I"$REPO/include" -I"$REPO/lib" ${VERIF_DEFS} -c "$REPO/lib/$s.c" -o "$D/$s.o" &
    pids+=($!)
  done
  for p in "${pids[@]}"; do wait $p; done
  ar rcs "$D/libvorbisall.a" $(for s in $SRCS; do echo "$D/$s.o"; done)
  echo "$key" > "$D/KEY"
done
echo "$key"
