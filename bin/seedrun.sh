#!/bin/bash
# bin/seedrun.sh <patch.diff> <check-id>... : run checks against a scratch copy of /repo with the patch applied.
# Nothing in /repo or /verif/evidence is touched.  Prints DETECTED/MISSED per check.
set -u
PATCH=$(readlink -f "$1"); shift
ROOT=$(cd "$(dirname "$0")/.." && pwd)
W=$(mktemp -d /tmp/vmut.XXXXXX)
git -C /repo worktree add -q --detach "$W/src" HEAD || exit 2
if ! git -C "$W/src" apply "$PATCH"; then echo "PATCH DOES NOT APPLY"; git -C /repo worktree remove --force "$W/src"; rm -rf "$W"; exit 3; fi
for id in "$@"; do
  VERIF_REPO="$W/src" VERIF_BUILD="$W/build" VERIF_OUT="$W/out" timeout 1800 "$ROOT/bin/check" "$id" --tier "${TIER:-quick}" > "$W/$id.log" 2>&1
  rc=$?
  if [ $rc -eq 1 ] && grep -q "^VIOLATION property=$id" "$W/$id.log"; then echo "DETECTED $id: $(grep -A1 '^VIOLATION' "$W/$id.log" | sed -n 2p | cut -c1-220)";
  elif [ $rc -eq 0 ]; then echo "MISSED $id ($(tail -1 "$W/$id.log" | cut -c1-160))";
  else echo "BROKEN $id rc=$rc: $(tail -3 "$W/$id.log" | tr '\n' ' ' | cut -c1-300)"; fi
done
git -C /repo worktree remove --force "$W/src"
rm -rf "$W"
