#!/usr/bin/env python3
"""Regenerates /verif/MANIFEST.json from the table below (single source of truth for the interface)."""
import json, os
ROOT = os.path.dirname(os.path.dirname(os.path.abspath(__file__)))
ALL = ['C%02d' % i for i in range(1, 21)]

CHECKS = {
 'C01': dict(level='exploration', engine='enum-vspec', technique='bounded-exhaustive enumeration of specification-valid setups x packet sequences (independent bit-level synthesiser), each decoded by the real library and by a specification-level reference decoder; differential oracle',
   text='Streams are written bit by bit from the specification by an independent synthesiser (never by the bundled encoder) over six enumerated suites: all 36 block-size pairs x all short/long mode sequences; all complete prefix codes <=5 entries in every order with sparse/ordered/single-entry variants x lookup types x dimensions x value formats, 32-bit-deep and 300/1000-entry books; floor 1 layouts x multipliers x X orders x Y vectors; floor 0 orders x bark maps x books; residue types 0/1/2 x begin/end cases x partition sizes x classifications x cascade masks x do-not-decode patterns; submaps, channel multiplexing, coupling lists, 64 modes, 255 channels. For each stream the per-packet sample count must be exact and every sample within a data-scaled single-precision budget of a double-precision reference decoder written from the specification text.',
   note='reference decoder pylib/vspec.py written from doc/*.tex (dB table parsed from the spec); IMDCT normalisation fixed from the de-facto definition; truncated packets, partition sizes that are not multiples of the book dimension and non-finite floor-0 curves are outside the judged alphabet (counted in evidence)', ref='C01'),
 'C07': dict(level='model_checking', engine='seq-bfs', technique='explicit-state BFS over real OggVorbis_File states (history replay + canonical state hash), every transition executed on the implementation',
   text='Every history over the seek/read alphabet is explored breadth-first to a fix-point of the canonical state hash on 5 zoo files (single link, flushed pages, 3-link chain, chain with one-page and zero-sample links, non-zero initial granule); in every state the read-through is compared bit-for-bit with the linear decode at ov_pcm_tell. Bounded by the alphabets and files, exhaustive within them.',
   note='libogg binary, gcc -O2 build of the current tree; state hash drops dead buffer regions and bitrate statistics (argued in DESIGN 2.6, spot-validated by bisimulation probes)', ref='C07 / C08'),
 'C08': dict(level='model_checking', engine='seq-bfs', technique='explicit-state BFS over real OggVorbis_File states plus exhaustive target sweeps from seed states; landing rule judged on every transition',
   text='Same state graph as C07 with out-of-range arguments added to the alphabet, explored to a fix-point; on every transition the landing rule of the call is judged (exact position for sample seeks, +-1 for time seeks, page-fence window for page seeks, EINVAL and unchanged canonical state for out-of-range arguments); in addition every p in [-1,L+1] is tried with ov_pcm_seek and ov_pcm_seek_page from each seed state. Page fence-posts come from an independent parse of the file.',
   note='fence-posts from pylib Ogg parser; link lengths from construction; t==duration left unjudged', ref='C07 / C08'),
 'C20': dict(level='model_checking', engine='seq-bfs', technique='explicit-state BFS over real OggVorbis_File states with ov_halfrate toggles in the alphabet; differential against half-rate / full-rate linear decode',
   text='BFS over histories of reads, seeks and half-rate toggles (depth-bounded in quick, deeper in thorough); in every state the read-through is bit-identical to the half-rate or full-rate linear decode at the reported position, totals unchanged, sample seeks land on the even position; linear half-rate decode delivers ceil(N/2) per link; streaming handles toggled before the first read.',
   note='zoo links have even lengths; refusal on 64-sample-block links needs the synthesised stream (added with vspec)', ref='C20'),
 'C09': dict(level='exploration', engine='enum-chainx', technique='bounded-exhaustive enumeration of link sequences x page layouts on the real open/read path, differential against packet-API solo decodes and construction ground truth',
   text='All chains of length 1..3 (4 thorough) over 7 link kinds (different rates/channels/block sizes, single-page link, zero-sample link, non-zero start granule, multiplexed foreign stream) x page layouts, mixed layouts, 27 large chains that force CHUNKSIZE bisection and backward hops, long alternating chains; each opened seekably and checked: link count, per-link channels/rate/serial/comment/vendor/length/time, sums, read-through bit-identical to the concatenation of solo decodes with no negative return.',
   note='solo reference decodes use the packet API of the same library build; exhaustive within the listed kinds/layouts/lengths', ref='C09'),
}
NA_REASON = 'check not built yet in this session (work in progress; see DESIGN.md section 7 for the order)'

def main():
    checks = []
    for pid in ALL:
        if pid not in CHECKS:
            continue
        c = CHECKS[pid]
        checks.append({
            'property_id': pid,
            'quick_cmd': f'bin/check {pid} --tier quick',
            'thorough_cmd': f'bin/check {pid} --tier thorough',
            'evidence_file': f'evidence/{pid}.json',
            'replay_cmd_template': f'bin/check {pid} --replay {{path}}',
            'engine': c['engine'],
            'level_claimed': {'category': c['level'], 'text': c['text'], 'design_ref': 'DESIGN.md section 3, ' + c['ref']},
            'level_note': c['note'],
            'technique': c['technique'],
        })
    m = {
        'version': 1,
        'setup_cmd': 'bin/setup.sh',
        'hooks': {'guard': 'XIPH_VORBIS_VERIF', 'enable': 'no source hooks are needed: harnesses include internal headers, wrap the allocator at link time and drive the public callback table; the guard name is reserved only',
                  'baseline_off_cmd': 'cmake --build /repo/_build && ctest --test-dir /repo/_build -j8 --timeout 900', 'source_commits': [], 'add_only': True},
        'engines': [
            {'name': 'enum-vspec', 'path': 'pylib/vspec.py + pylib/vsynth.py + harness/c01_dec.c', 'serves_properties': ['C01', 'C05', 'C02'], 'kind_free_text': 'specification-level stream synthesiser, strict parser and reference decoder; enumerated streams executed on the real packet-level decoder'},
            {'name': 'enum-chainx', 'path': 'checks/c09.py + harness/chainx.c', 'serves_properties': ['C09', 'C10'], 'kind_free_text': 'bounded-exhaustive enumeration of chains / delivery schedules executed on the real vorbisfile, differential oracle'},
            {'name': 'seq-bfs', 'path': 'pylib/seekgraph.py + harness/vfx.c', 'serves_properties': ['C07', 'C08', 'C20'], 'kind_free_text': 'explicit-state breadth-first search over the real OggVorbis_File; state = replayed history, identified by canonical hash'},
        ],
        'checks': checks,
        'notes': 'All checks rebuild the library from /repo (VERIF_REPO overrides) into /verif/build; fix: commits in /repo are listed in known_findings.json as fixed entries.',
        'not_applicable': [{'property_id': p, 'reason': NA_REASON} for p in ALL if p not in CHECKS],
    }
    json.dump(m, open(os.path.join(ROOT, 'MANIFEST.json'), 'w'), indent=1)

if __name__ == '__main__':
    main()
