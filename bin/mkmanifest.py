#!/usr/bin/env python3
"""Regenerates /verif/MANIFEST.json from the table below (single source of truth for the interface)."""
import json, os
ROOT = os.path.dirname(os.path.dirname(os.path.abspath(__file__)))
ALL = ['C%02d' % i for i in range(1, 21)]

CHECKS = {
 'C01': dict(level='exploration', engine='enum-vspec', technique='bounded-exhaustive enumeration of specification-valid setups x packet sequences (independent bit-level synthesiser), each decoded by the real library and by a specification-level reference decoder; differential oracle',
   text='Streams are written bit by bit from the specification by an independent synthesiser (never by the bundled encoder) over six enumerated suites: all 36 block-size pairs x all short/long mode sequences; all complete prefix codes <=5 entries in every order with sparse/ordered/single-entry variants x lookup types x dimensions x value formats, 32-bit-deep and 300/1000-entry books; floor 1 layouts x multipliers x X orders x Y vectors; floor 0 orders x bark maps x books; residue types 0/1/2 x begin/end cases x partition sizes x classifications x cascade masks x do-not-decode patterns; submaps, channel multiplexing, coupling lists, 64 modes, 255 channels. For each stream the per-packet sample count must be exact and every sample within a data-scaled single-precision budget of a double-precision reference decoder written from the specification text.',
   note='reference decoder pylib/vspec.py written from doc/*.tex (dB table parsed from the spec); IMDCT normalisation fixed from the de-facto definition; truncated packets, partition sizes that are not multiples of the book dimension and non-finite floor-0 curves are outside the judged alphabet (counted in evidence)', ref='C01'),
 'C02': dict(level='exploration', engine='enum-vspec', technique='bounded-exhaustive enumeration of header damage (all prefixes, all single-bit flips, all fields x boundary values, size extremes, header orders), of audio packets (ALL byte strings <=2(3) bytes on tiny setups, all truncations/bit flips of real packets) and of API call sequences <= depth 3(4), executed on the real decoder under ASan/UBSan-subset with watchdog, exit interposition and heap accounting',
   text='Every byte prefix of each header, every single-bit flip of id and setup headers, every header field set to {0,1,max,max-1,mid,v+-1} (field list from the bit-level synthesiser), hand-written size-extreme codebooks (up to 2^24-1 entries, dim 0..65535, ordered/sparse/flat, budget edges), all headerin orders, ALL byte strings of length <=2 (3 thorough) as audio packets after 0/1/2 valid packets on four tiny setups, every truncation and bit flip of synthesised and real-encoder packets, granule/eos extremes, and all call sequences <= depth 3 (4) over a 27-call alphabet after 9 prefixes under an object-lifetime-only legality filter. Oracle: no sanitizer report, no signal, CPU watchdog (re-checked at 10x), exit() interposed, documented return codes, 1 GiB heap ceiling and heap plateau, clear functions still work; the lattice search is additionally checked against an integer reference for all (dim, entries) pairs in the parser budget.',
   note='UBSan subset bounds/null/integer-divide-by-zero; stack verdicts from the uninstrumented build with the default 8 MiB stack; leaks are left to C13', ref='C02'),
 'C05': dict(level='exploration', engine='enum-vspec', technique='bounded-exhaustive enumeration of encoder configurations x signals; every emitted header/packet walked by a strict specification-level parser and by the real decoder; differential on fields, window flags and bit consumption',
   text='Every (rate band, channels, quality step | managed triple, ctl setting) x signal (silence, noise, impulses, over-range; thorough adds sine, DC, denormals, mix and all templates) is encoded by the real encoder; the three headers must pass the strict parser written from the specification and vorbis_synthesis_headerin, with id fields equal to vorbis_info; every audio packet is decoded symbol by symbol by the specification-level packet walker (all codewords valid) and by vorbis_synthesis; VBR: bits used lie in the last byte and equal the library\'s consumption; managed: never rejected, no end-of-packet unless a hard maximum is set; long-block window flags equal the neighbours\' block types.',
   note='strict parser = pylib/vspec.py (independent of lib/); first/last packet flags without neighbour are not judged', ref='C05'),
 'C11': dict(level='fault_enumeration', engine='enum-damage', technique='exhaustive fault enumeration over packet histories (every packet index x drop/dup/replace/zero/inject/every truncation/every single-bit flip; every (history, restart) pair) on the real packet decoder, differential against the undisturbed decode',
   text='For 10 streams (3 rate/block-size families x 2 granule styles, twins with identical setup, silent-packet and alternating-channel families) every packet index is dropped (with and without sequence gap), duplicated, replaced by every other packet, zeroed, preceded by an injected header, truncated at every length and flipped at every single bit; every (history length, restart point) pair is run, own and twin history; page-level damage through vorbisfile. From the second packet after the disturbance (first after a restart) per-packet output must be bit-identical to the clean decode, and everything before an accepted corrupted packet as well.',
   note='two narrow exemptions, both about granule-position trimming in page-style streams and documented in evidence (end trim needs an in-sequence granule; start trim recomputed from the delivered history)', ref='C11'),
 'C12': dict(level='fault_enumeration', engine='seq-bfs', technique='deviation-bounded environment enumeration: every callback invocation index x fault kind x {one-shot, persisting} (pairs thorough) on the real vorbisfile under ASan, recovery judged against a never-faulted twin',
   text='Each scenario (open; read-through; 5 seek kinds x targets; half-rate; streaming; lapped seeks) is run fault-free to number its callback invocations, then once per invocation index and fault kind (read 0+EIO, read 0, 1-byte read, seek -1, tell -1), one-shot and persisting; thorough adds all pairs of one-shot faults. Judged: no sanitizer report, no call that never returns, source closed only by ov_clear of a successful open, failed open leaves a zeroed handle; for faults after a successful open, once callbacks work again a seek to each of 8 targets and the read-through equal the same history without the fault.',
   note='faults swallowed inside a successful open are logged, not judged (weakest consistent reading); return codes checked against the union of OV_* codes', ref='C12'),
 'C16': dict(level='exploration', engine='enum-model', technique='bounded-exhaustive enumeration of comment lists over a byte alphabet against a list reference model, through both header writers and the real header reader under ASan',
   text='All lists of <=2 entries over all strings of length <=3 over {a,A,=,NUL,0xE9,i}, all 3-entry lists over strings <=2 and over the 4-symbol sub-alphabet <=3 (thorough: the full 3-entry space, 4 entries, longer strings), size extremes (5000 entries, 300000-byte entries, all 256 byte values), written through vorbis_analysis_headerout and vorbis_commentheader_out, read back with vorbis_synthesis_headerin: same count, lengths, bytes, order and vendor; every query tag x index against the model with ASCII-only folding, also under a Turkish LC_CTYPE.',
   note='Turkish locale is a localedef-built stand-in when tr_TR is not installed', ref='C16'),
 'C17': dict(level='exploration', engine='enum-model', technique='bounded-exhaustive enumeration exhaustive in the value dimension: all 2^32 float bit patterns (thorough; boundary strata + dense bands quick) x 8 formats through the real packing loops via ov_read_filter, plus twin-handle read-through for all buffer lengths',
   text='Twin handles over 1/2/3/6/255-channel, chained and loud streams: for all 8 (word, signed, endian) formats and every buffer length 0..2 frames+1, 4096, 65536 the bytes of ov_read equal round/clip/offset/interleave of ov_read_float at the same position, whole frames only, position advance, canaries untouched, too-small buffers and word<=0 refused. Value-exhaustive: the filter callback feeds every float bit pattern (thorough: all 2^32 x 8 formats; quick: 1.08M boundary values x 8 formats and two dense bands of 503M values) through the real packing code.',
   note='either tie rule accepted; NaN excluded; little-endian host', ref='C17'),
 'C19': dict(level='exploration', engine='seq-bfs', technique='bounded-exhaustive enumeration of (old position history) x (target) x (5 lapped variants + ov_crosslap pairs) on real handles, three replays per case (plain seek, lapped seek, lap source), plain and ASan builds',
   text='For every old position class (fresh, after reads, mid-packet, last packet of a link, link end, EOF, decoder dumped) x boundary targets x {raw,pcm,pcm_page,time,time_page}_seek_lap and ov_crosslap over pairs of handles on single-link and chained files with differing channel counts and short-block sizes, with and without half-rate: the lapped call fails iff the plain one does (plus the two legitimate OV_EOF cases), lands on the same position, is bit-identical from half a short block on, and inside equals A*w^2+S*(1-w^2) against the lap source obtained from a third replay.',
   note='two genuine defects are recorded as known findings (lap beyond the primed samples; second lapout on the same block); lap region not judged when the old position has no observable source', ref='C19'),
 'C07': dict(level='model_checking', engine='seq-bfs', technique='explicit-state BFS over real OggVorbis_File states (history replay + canonical state hash), every transition executed on the implementation',
   text='Every history over the seek/read alphabet is explored breadth-first to a fix-point of the canonical state hash on 5 zoo files (single link, flushed pages, 3-link chain, chain with one-page and zero-sample links, non-zero initial granule); in every state the read-through is compared bit-for-bit with the linear decode at ov_pcm_tell. Bounded by the alphabets and files, exhaustive within them.',
   note='libogg binary, gcc -O2 build of the current tree; state hash drops dead buffer regions and bitrate statistics (argued in DESIGN 2.6, spot-validated by bisimulation probes)', ref='C07 / C08'),
 'C08': dict(level='model_checking', engine='seq-bfs', technique='explicit-state BFS over real OggVorbis_File states plus exhaustive target sweeps from seed states; landing rule judged on every transition',
   text='Same state graph as C07 with out-of-range arguments added to the alphabet, explored to a fix-point; on every transition the landing rule of the call is judged (exact position for sample seeks, +-1 for time seeks, page-fence window for page seeks, EINVAL and unchanged canonical state for out-of-range arguments); in addition every p in [-1,L+1] is tried with ov_pcm_seek and ov_pcm_seek_page from each seed state. Page fence-posts come from an independent parse of the file.',
   note='fence-posts from pylib Ogg parser; link lengths from construction; t==duration left unjudged', ref='C07 / C08'),
 'C20': dict(level='model_checking', engine='seq-bfs', technique='explicit-state BFS over real OggVorbis_File states with ov_halfrate toggles in the alphabet; differential against half-rate / full-rate linear decode',
   text='BFS over histories of reads, seeks and half-rate toggles (depth-bounded in quick, deeper in thorough); in every state the read-through is bit-identical to the half-rate or full-rate linear decode at the reported position, totals unchanged, sample seeks land on the even position; linear half-rate decode delivers ceil(N/2) per link; streaming handles toggled before the first read.',
   note='zoo links have even lengths; refusal on 64-sample-block links needs the synthesised stream (added with vspec)', ref='C20'),
 'C09': dict(level='exploration', engine='enum-chainx', technique='bounded-exhaustive enumeration of link sequences x page layouts on the real open/read path, differential against packet-API solo decodes and construction ground truth',
   text='All chains of length 1..3 (4 thorough) over 7 link kinds (different rates/channels/block sizes, single-page link, zero-sample link, non-zero start granule, multiplexed foreign stream) x page layouts, mixed layouts, 27 large chains that force CHUNKSIZE bisection and backward hops, long alternating chains; each opened seekably and checked: link count, per-link channels/rate/serial/comment/vendor/length/time, sums, read-through bit-identical to the concatenation of solo decodes with no negative return.',
   note='solo reference decodes use the packet API of the same library build; exhaustive within the listed kinds/layouts/lengths', ref='C09'),
}
NA_REASON = 'check not built yet in this session (work in progress; see DESIGN.md section 7 for the order)'

def main():
    checks = []
    for pid in ALL:
        if pid not in CHECKS:
            continue
        c = CHECKS[pid]
        checks.append({
            'property_id': pid,
            'quick_cmd': f'bin/check {pid} --tier quick',
            'thorough_cmd': f'bin/check {pid} --tier thorough',
            'evidence_file': f'evidence/{pid}.json',
            'replay_cmd_template': f'bin/check {pid} --replay {{path}}',
            'engine': c['engine'],
            'level_claimed': {'category': c['level'], 'text': c['text'], 'design_ref': 'DESIGN.md section 3, ' + c['ref']},
            'level_note': c['note'],
            'technique': c['technique'],
        })
    m = {
        'version': 1,
        'setup_cmd': 'bin/setup.sh',
        'hooks': {'guard': 'XIPH_VORBIS_VERIF', 'enable': 'no source hooks are needed: harnesses include internal headers, wrap the allocator at link time and drive the public callback table; the guard name is reserved only',
                  'baseline_off_cmd': 'cmake --build /repo/_build && ctest --test-dir /repo/_build -j8 --timeout 900', 'source_commits': [], 'add_only': True},
        'engines': [
            {'name': 'enum-vspec', 'path': 'pylib/vspec.py + pylib/vsynth.py + harness/c01_dec.c', 'serves_properties': ['C01', 'C05', 'C02'], 'kind_free_text': 'specification-level stream synthesiser, strict parser and reference decoder; enumerated streams executed on the real packet-level decoder'},
            {'name': 'enum-chainx', 'path': 'checks/c09.py + harness/chainx.c', 'serves_properties': ['C09', 'C10'], 'kind_free_text': 'bounded-exhaustive enumeration of chains / delivery schedules executed on the real vorbisfile, differential oracle'},
            {'name': 'enum-damage', 'path': 'checks/c11.py + harness/c11_damage.c', 'serves_properties': ['C11'], 'kind_free_text': 'exhaustive packet-history fault enumeration on the real packet decoder'},
            {'name': 'enum-model', 'path': 'checks/c16.py, checks/c17.py + harness/c16_comments.c, harness/c17_pcm.c', 'serves_properties': ['C16', 'C17'], 'kind_free_text': 'bounded-exhaustive input enumeration against a boring reference model'},
            {'name': 'seq-bfs', 'path': 'pylib/seekgraph.py + harness/vfx.c', 'serves_properties': ['C07', 'C08', 'C12', 'C19', 'C20'], 'kind_free_text': 'explicit-state breadth-first search over the real OggVorbis_File; state = replayed history, identified by canonical hash'},
        ],
        'checks': checks,
        'notes': 'All checks rebuild the library from /repo (VERIF_REPO overrides) into /verif/build; fix: commits in /repo are listed in known_findings.json as fixed entries.',
        'not_applicable': [{'property_id': p, 'reason': NA_REASON} for p in ALL if p not in CHECKS],
    }
    json.dump(m, open(os.path.join(ROOT, 'MANIFEST.json'), 'w'), indent=1)

if __name__ == '__main__':
    main()
