#!/bin/bash
# bin/mutants.sh [ID ...]: run every mutants/<ID>/*.diff through bin/seedrun.sh and append the outcome to mutants/RESULTS.md
# (self-test of the checks; not part of the manifest commands).
ROOT=$(cd "$(dirname "$0")/.." && pwd)
cd "$ROOT"
ids=${@:-$(ls mutants | grep '^C')}
for id in $ids; do
  for d in mutants/$id/*.diff; do
    [ -f "$d" ] || continue
    r=$(bin/seedrun.sh "$d" "$id" 2>&1 | tail -1)
    echo "- \`$d\`: $r" | tee -a mutants/RESULTS.md
  done
done
