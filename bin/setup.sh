#!/bin/bash
# Build the framework from files on disk only (offline): library flavours + zoo tools.
set -e
cd "$(dirname "$0")/.."
bin/build.sh plain asan tsan >/dev/null
echo setup ok
