#!/usr/bin/env python3
"""Rebuild seeded/RESULTS.md and each seeded/<id>/meta.json 'verif' block from the verify.log files."""
import os, json, re, glob
ROOT = os.path.dirname(os.path.dirname(os.path.abspath(__file__)))
rows = []
for d in sorted(glob.glob(os.path.join(ROOT, 'seeded', 'C*-*'))):
    name = os.path.basename(d)
    log = open(os.path.join(d, 'verify.log')).read() if os.path.exists(os.path.join(d, 'verify.log')) else ''
    try:
        meta = json.load(open(os.path.join(d, 'meta.json')))
    except Exception:
        meta = {}
    confirmed = 'CONFIRMED' in log and 'NOT-CONFIRMED' not in log
    runs = re.findall(r'== seedrun ([^\n]*)\n(DETECTED|MISSED|BROKEN)[ :]*([^\n]*)', log)
    first = runs[0] if runs else None
    last = runs[-1] if runs else None
    meta['verif'] = {'confirmed': confirmed, 'confirm_line': (re.findall(r'clean_demo_rc=[^\n]*', log) or [''])[0],
                     'runs': [{'checks': r[0], 'verdict': r[1], 'detail': r[2][:300]} for r in runs]}
    json.dump(meta, open(os.path.join(d, 'meta.json'), 'w'), indent=1)
    rows.append((name, meta.get('property', name.split('-')[0]), (meta.get('summary') or '')[:150].replace('|', '/'), (meta.get('needs') or '')[:170].replace('|', '/'),
                 'yes' if confirmed else 'NO', first[1] if first else '-', (last[1] + (' (after: ' + last[0].split('(')[1] if '(' in last[0] else '')) if last else '-', (last[2].split(':')[1].strip()[:60] if last and ':' in last[2] else '')))
with open(os.path.join(ROOT, 'seeded', 'RESULTS.md'), 'w') as f:
    f.write('# Independently seeded property-breaking changes\n\nWritten by fresh sub-agents that saw only the property text and a scratch worktree; confirmed by `bin/seedverify.sh` '
            '(builds, 528 tests pass, demo passes clean / fails patched); run through the owning check with `bin/seedrun.sh` (quick tier).\n\n'
            '| seed | what was changed | needs | confirmed | first verdict | current verdict | key |\n|---|---|---|---|---|---|---|\n')
    for r in rows:
        f.write('| ' + ' | '.join(r) + ' |\n')
print(len(rows), 'seeds;', sum(1 for r in rows if r[6].startswith('DETECTED')), 'detected now;', sum(1 for r in rows if r[5] == 'MISSED'), 'missed at first')
