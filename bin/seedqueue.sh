#!/bin/bash
# bin/seedqueue.sh <workers>: take in every /tmp/seed/<ID>/out/<n> that has a meta.json and is not yet under seeded/ (N parallel workers, loops until no work for 3 passes)
ROOT=$(cd "$(dirname "$0")/.." && pwd)
W=${1:-2}
idle=0
while [ $idle -lt 600 ]; do
  todo=()
  for d in /tmp/seed/C*/out/[0-9]*; do
    [ -f "$d/meta.json" ] && [ -f "$d/patch.diff" ] || continue
    id=$(basename $(dirname $(dirname $d))); n=$(basename $d)
    [ -d "$ROOT/seeded/$id-$n" ] && continue
    todo+=("$id $n ${id:0:3}")
  done
  if [ ${#todo[@]} -eq 0 ]; then idle=$((idle+1)); sleep 60; continue; fi
  idle=0
  printf '%s\n' "${todo[@]}" | xargs -P $W -L 1 bash -c 'mkdir -p '"$ROOT"'/seeded/$0-$1; VERIF_JOBS=5 '"$ROOT"'/bin/seedintake.sh $0 $1 $2 2>&1 | sed "s/^/[$0-$1] /"'
done
