"""C01 families added in round 7 (used only by checks/c01.py):
  bigbook : codebooks with more than 32767 USED entries (the library keeps 15-bit search hints per first-table slot), every used entry
            coded through a residue partition; also as residue classification book (scalar context), sampled at the hint boundaries
  f1class : floor-1 class (master) books whose size differs from subclasses**dim (spec 7.2.3: mask, shift, ignore the rest),
            incl. one class book shared by two classes of different shape; every class-book entry is coded
Streams carry `c01_meta` (dict of counters about what was really coded) for the vacuity guards."""
import itertools, math
import numpy as np
import vspec, vsynth

HINT = 32768      # first sorted position a 15-bit absolute bound cannot express
# a flat floor curve (both end posts equal, every other post 'as predicted'): each spectral line weighs the same in the error budget,
# so that ONE wrongly decoded entry among 4096 stands out by two orders of magnitude
FLAT = {'f1.nonzero': 1, 'f1.y': 60, 'f1.yv': 0}


def big_lengths(n, layout):
    """complete prefix code with n used entries: 'asc' short codewords first (sorted order == entry order), 'desc' long first,
    'mix' three lengths (every 8th triple of the majority length L becomes one L-1 and two L+1) in a scattered entry order"""
    base = vsynth.complete_lengths(n)
    if layout == 'asc':
        return base
    if layout == 'desc':
        return base[::-1]
    L = max(set(base), key=base.count)
    idx = [i for i, l in enumerate(base) if l == L]
    for t in range(0, len(idx) - 2, 24):
        a, b, c = idx[t:t + 3]
        base[a], base[b], base[c] = L - 1, L + 1, L + 1
    step = 40503
    while math.gcd(step, n) != 1:
        step += 2
    return [base[(k * step) % n] for k in range(n)]


def sparsify(lens, every=3):
    """insert an unused entry after every `every`-1 used ones"""
    out = []
    for k, l in enumerate(lens):
        out.append(l)
        if k % (every - 1) == every - 2:
            out.append(0)
    return out


def sorted_positions(book):
    """entry numbers of the used entries in the order of their codewords (the order of the library's search list)"""
    cw = book.codewords()
    es = np.array(list(cw.keys()), dtype=np.int64)
    key = np.array([v << (32 - l) for (v, l) in cw.values()], dtype=np.int64)
    return es[np.argsort(key, kind='stable')]


def value_book(lens, lookup, dim):
    E = len(lens)
    if lookup == 1 and dim == 1:
        vb, mults = 16, [(e * 40503) % 65536 for e in range(E)]
    elif lookup == 1:
        lv = vspec.lookup1_values(E, dim)
        vb = max(1, vspec.ilog(lv - 1))
        mults = [(k * 167 + 5) % (1 << vb) for k in range(lv)]
    else:
        vb, mults = 16, [((e * dim + j) * 40503) % 65536 for e in range(E) for j in range(dim)]
    return vspec.Codebook(dim, lens, lookup, minv=vsynth.fpack(-32.0), delta=vsynth.fpack(64.0 / (1 << vb)), value_bits=vb, sequence_p=0, mults=mults)


def build_bigvq(n, layout, sparse, rt=1, lookup=1, dim=1):
    lens = big_lengths(n, layout)
    if sparse:
        lens = sparsify(lens)
    bk = value_book(lens, lookup, dim)
    ch = 2 if rt == 2 else 1
    s = vsynth.base_setup(channels=ch, bs0=256, bs1=8192, restype=rt, psize=16 * dim, vqdim=dim)
    s.books[2] = bk
    order = sorted_positions(bk)
    per_packet = 4096 * ch // dim
    npk = -(-n // per_packet)
    cnt = itertools.count()
    # walk the used entries in codeword order, wrapping around in the last packet: every used entry is coded at least once
    f = vsynth.Filler(fixed={**FLAT, 'res.class': 1, 'res.vq': lambda c, d: int(order[next(cnt) % n])})
    st = vsynth.Stream(s, [vsynth.make_packet(s, 1, f, 1, 1) for _ in range(npk)])
    st.c01_heavy = True
    st.c01_meta = {'big_streams': 1, 'big_entries_coded': n, 'big_coded_above_hint': max(0, n - HINT), 'big_entry_order_differs': int(layout != 'asc')}
    return st


def boundary_positions(n, count):
    """sorted positions worth coding when only `count` codewords fit: both ends, both sides of position 32768 counted from either end,
    the edges of the 256 first-table buckets of a flat book, then an even stride"""
    pos = []
    for c in (0, n - 1, HINT - 1, HINT, n - HINT, n - HINT - 1):
        pos += [c + d for d in range(-6, 7)]
    for b in range(0, n, max(1, n // 256)):
        pos += [b - 1, b, b + 1]
    pos += list(range(0, n, max(1, n // max(1, count))))
    seen, out = set(), []
    for p in pos:
        if 0 <= p < n and p not in seen:
            seen.add(p)
            out.append(p)
    return out[:count]


def build_bigclass(cls, cdim, layout, sparse):
    """residue classification book with cls**cdim (> 32767) entries read in scalar context; each class has its own value book"""
    need = cls ** cdim
    if sparse:
        # a quarter of the classifiable entries is unused, the same number of used entries follows behind them (never coded)
        lens0 = big_lengths(need, layout)
        extra = need // 4
        lens = [0 if e % 4 == 3 else lens0[e] for e in range(need)] + [lens0[e] for e in range(need) if e % 4 == 3][:extra]
    else:
        lens = big_lengths(need, layout)
    s = vsynth.base_setup(channels=1, bs0=256, bs1=8192, restype=1, psize=1, vqdim=1)
    cb = vspec.Codebook(cdim, lens, 0)
    s.books[0] = cb
    first = len(s.books)
    for k in range(cls):
        s.books.append(vsynth.lattice_book(1, 3, minv=k + 1, delta=0.25))      # class k codes values in [k+1, k+1.5]
    s.residues[0] = vspec.Residue(1, 0, 4096, 1, cls, 0, [1] * cls, [[first + k] + [-1] * 7 for k in range(cls)])
    order = sorted_positions(cb)
    codable = [(p, int(e)) for p, e in enumerate(order) if e < need]
    words = 4096 // cdim
    npk = 4 if cdim < 8 else 8
    want = set(boundary_positions(len(order), npk * words))
    pick = [(p, e) for (p, e) in codable if p in want]
    cnt = itertools.count()
    f = vsynth.Filler(fixed={**FLAT, 'res.class': lambda c, d: pick[next(cnt) % len(pick)][1]})
    st = vsynth.Stream(s, [vsynth.make_packet(s, 1, f, 1, 1) for _ in range(npk)])
    st.c01_heavy = True
    st.c01_meta = {'bigclass_streams': 1, 'bigclass_words_above_hint': sum(1 for p, e in pick[:npk * words] if p >= HINT)}
    return st


def suite_bigbooks(tier, mine):
    if tier == 'quick':
        sizes, ctxs = (32767, 32768, 32769, 65536), ((1, 1, 1),)
    else:
        sizes, ctxs = (32766, 32767, 32768, 32769, 32770, 49152, 65535, 65536, 65537, 131072), ((1, 1, 1), (1, 2, 1), (1, 1, 2), (2, 1, 1), (0, 1, 1))
    # the first context gets every size, the other contexts (thorough) the sizes at and beyond the hint boundary
    grid = [(n, lay, sp, ctx) for k, ctx in enumerate(ctxs) for n in sizes if k == 0 or n in (32768, 32769, 65536, 131072)
            for lay in ('asc', 'desc', 'mix') for sp in (0, 1)]
    # cost is proportional to n: light cases first and last so that the 16-way striping pairs them and leaves the heavy ones alone
    light = [g for g in grid if g[0] < 40000]
    heavy = [g for g in grid if g[0] >= 40000]
    k = max(0, 16 - len(heavy)) if tier == 'quick' else len(light)
    for (n, lay, sp, (rt, lookup, dim)) in light[:k] + heavy + light[k:]:
        if mine():
            yield ('bigbook', n, lay, sp, rt, lookup, dim), (lambda a=(n, lay, sp, rt, lookup, dim): build_bigvq(*a))
    shapes = ((2, 15), (2, 16), (4, 8), (16, 4)) if tier == 'quick' else ((2, 15), (2, 16), (4, 8), (16, 4), (32, 3), (6, 6), (3, 10), (2, 17))
    for (cls, cdim) in shapes:
        for lay, sp in (('asc', 0), ('mix', 0), ('asc', 1)) if (tier == 'thorough' or cdim == 16) else (('asc', 0),):
            if mine():
                yield ('bigclass', cls, cdim, lay, sp), (lambda a=(cls, cdim, lay, sp): build_bigclass(*a))
