"""C17, destination-buffer PLACEMENT axis and FILTER-CALLBACK axis of the integer read call (executor: harness/c17_place.c).

The property quantifies over "the bytes returned by the integer read call" for every format; the caller's buffer is a char * and may
start at any address.  The main C17 families always hand the library a 16-byte aligned (malloc + 64) destination.  This module
enumerates, completely:

 (P1) placement walks  PA: stream in {1, 2, 3, 6, 255 channels, chain 2->1->3 channels} x 8 formats x buffer length class
      {one frame - 1 (refused), one frame, 2 frames + 1, 7 frames, 4096, 65536} x destination offset 0..7 (thorough 0..15) from a 16-byte
      aligned base x mode {arena: canaries in front and behind; page: the buffer ENDS exactly at an inaccessible page (mmap + mprotect),
      its length padded by 0..15 bytes so that its start has the requested offset mod 16}; every case is a complete twin read-through
      (ov_read on A against ov_read_float on B at every position reached, same placement for every call).
 (P2) filter-callback axis PA: call in {ov_read_filter(filter=NULL), identity filter, x*1.5f, -x, identity filter that performs one
      complete ov_read on an INDEPENDENT handle (other stream, own buffer; that handle's bytes are judged against its own float twin)}
      x {1, 2, 3 channels} x 8 formats x length classes x offsets {0,1} (thorough {0,1,2,3}) x both modes.  Reference = packing of the
      filtered floats (same C expression), filter called once per successful read, samples handed to it == frames returned.
 (P3) value axis at placements PB: the stratified boundary float set of the main check through the filter callback, 8 formats x every
      offset x both modes.
 (P4) PV: contiguous float bit patterns through the filter callback at an ODD destination address: quick = the dense bands of the main
      check (2^-17 <= |x| < 4 for both host-order 16-bit formats, 2^-9 <= |x| < 4 for 8-bit unsigned); thorough = ALL 2^32 patterns x 8
      formats (after the even-address sweep of the main check; cut by the same deadline).
Oracle unchanged: reference rounding / clipping / offset / byte order / interleave (judge() of harness/c17_pcm.c), whole frames <= length,
ov_pcm_tell advances by the frames returned, refusal writes nothing, every byte outside [dst, dst+returned) keeps its canary, no access to
the inaccessible page.
"""
import struct
import vlib

KINDS = ('PA', 'PB', 'PV')
CALLS = ['ov_read', 'ov_read_filter_null', 'filter_identity', 'filter_scale1.5', 'filter_negate', 'filter_reads_other_handle']
MODES = ['arena', 'page']
LENCLS = ['frame-1', 'frame', '2frames+1', '7frames', '4096', '65536']
WALK = ['c17_m1', 'c17_s2', 'c17_t3', 'c17_x6', 'c17_y255', 'c17_chain']
OTHER = {'c17_m1': 'c17_s2', 'c17_s2': 'c17_t3', 'c17_t3': 'c17_m1'}    # stream of handle A -> stream of the independent handle read inside the filter
CARRIER = 'c17_v2'
CLS = ['exact', 'rounded', 'tie', 'clip+', 'clip-', 'inf+', 'inf-', 'denormal', 'zero', 'negzero']
SLICE_BITS = 24
NSLICE = 1 << (32 - SLICE_BITS)
KEY_FTOI = 'ftoi_overflow_wraps_to_negative_rail'
PV_OFF, PV_MODE = 1, 0          # the odd placement of the contiguous sweeps
PV_ORDER = [6, 4, 5, 7, 0, 2, 1, 3]      # priority order if the deadline cuts the thorough sweep: 16-bit formats first
QUICK_BANDS = ((6, 110), (4, 110), (0, 118))


def fmt_word(f):
    return 2 if f & 4 else 1


def fmt_name(f):
    return 'w%d%s%s' % (fmt_word(f), 's' if (f >> 1) & 1 else 'u', 'be' if f & 1 else 'le')


def lens_of(f, ch):
    F = fmt_word(f) * ch
    return [F - 1, F, 2 * F + 1, 7 * F, 4096, 65536]


def eff_len(L, off, mode):
    """page mode: the buffer ends at the page boundary, so its start is at -len mod 16; pad the length class by 0..15 bytes to get the offset"""
    return L if mode == 0 else L + ((-off - L) % 16)


def offsets(tier):
    return list(range(8)) if tier == 'quick' else list(range(16))


def make_cases(tier, S):
    """-> (cases of the enumerated families P1..P3, cases of the contiguous sweep P4)"""
    offs = offsets(tier)
    fam = []
    for name in WALK:                                   # P1
        ch = S[name][1]
        for f in range(8):
            for lc, L in enumerate(lens_of(f, ch)):
                for off in offs:
                    for mode in (0, 1):
                        fam.append(('PA', name, f, eff_len(L, off, mode), off, mode, 0, lc))
    foffs = [0, 1] if tier == 'quick' else [0, 1, 2, 3]
    flcs = [0, 1, 3, 5] if tier == 'quick' else [0, 1, 2, 3, 4, 5]
    for call in range(1, 6):                            # P2
        for name in OTHER:
            ch = S[name][1]
            for f in range(8):
                Ls = lens_of(f, ch)
                for lc in flcs:
                    for off in foffs:
                        for mode in (0, 1):
                            fam.append(('PA', name, f, eff_len(Ls[lc], off, mode), off, mode, call, lc) + ((OTHER[name],) if call == 5 else ()))
    nparts = 2
    for f in range(8):                                  # P3
        for off in offs:
            for mode in (0, 1):
                for part in range(nparts):
                    fam.append(('PB', CARRIER, f, part, nparts, eff_len(65536, off, mode), off, mode))
    sweep = []
    if tier == 'thorough':                              # P4
        for f in PV_ORDER:
            ln = 1024 * 2 * fmt_word(f) + 5
            sweep += [('PV', CARRIER, f, sl << SLICE_BITS, (sl + 1) << SLICE_BITS, ln, PV_OFF, PV_MODE) for sl in range(NSLICE)]
    else:
        for f, e0 in QUICK_BANDS:
            ln = 1024 * 2 * fmt_word(f) + 5
            for e in range(e0, 129):
                for sg in (0, 1):
                    lo = (sg << 31) | (e << 23)
                    sweep.append(('PV', CARRIER, f, lo, lo + (1 << 23), ln, PV_OFF, PV_MODE))
    return fam, sweep


def case_line(c, S):
    if c[0] == 'PA':
        return f'PA {S[c[1]][0]} {c[2]} {c[3]} {c[4]} {c[5]} {c[6]}' + (f' {S[c[8]][0]}' if len(c) > 8 else '')
    return f'{c[0]} {S[c[1]][0]} ' + ' '.join(str(x) for x in c[2:])


def placement(c):
    """-> (offset, mode) of a case"""
    return (c[4], c[5]) if c[0] == 'PA' else (c[6], c[7])


def parse(line):
    if not line:
        return 'NOOUTPUT', {}
    sp = line.split()
    d = {}
    for tok in sp[1:]:
        if '=' in tok:
            k, v = tok.split('=', 1)
            d[k] = v
    if sp[0] not in ('ok', 'bad', 'SKIP'):
        d = {'_line': line}
    return sp[0], d


def new_agg():
    return {'n': 0, 'skipped': 0, 'fail': [], 'walk_combos': set(), 'walk_refusal_combos': set(), 'filter_combos': set(), 'reads': 0, 'rej': 0, 'frames': 0, 'judged': 0,
            'addr': [set() for _ in range(8)], 'addr_walk': [set() for _ in range(8)], 'flush': [0] * 8, 'tight': {}, 'maxch': 0, 'chain': 0, 'multi': 0,
            'fsamples': 0, 'fframes': 0, 'oreads': 0, 'ojudged': 0, 'orewinds': 0, 'other_combos': set(),
            'cls_odd': [[0] * len(CLS) for _ in range(8)], 'cls_even': [[0] * len(CLS) for _ in range(8)], 'values_odd': [0] * 8, 'values_even': [0] * 8,
            'fail_ftoi': [], 'pb_combos': set(), 'pv_cover': [0] * 8, 'pv_judged': [0] * 8, 'pv_nan': [0] * 8, 'known_ftoi': 0}


def describe(c):
    off, mode = placement(c)
    where = f'destination at 16-byte aligned base + {off} ({"odd" if off & 1 else "even"} address), {MODES[mode]} mode'
    if c[0] == 'PA':
        return f'{CALLS[c[6]]} on {c[1]} {fmt_name(c[2])} len={c[3]} (class {LENCLS[c[7]]}{", padded so that the buffer starts at that offset" if c[5] else ""}) {where}'
    if c[0] == 'PB':
        return f'boundary float set part {c[3]}/{c[4]} through the filter callback, {fmt_name(c[2])} len={c[5]} {where}'
    return f'float bit patterns 0x{c[3]:08x}..0x{c[4] - 1:08x} through the filter callback, {fmt_name(c[2])} len={c[5]} {where}'


def evaluate(chk, cases, res, agg):
    for c, line in zip(cases, res):
        chk.cov['evaluations'] += 1
        agg['n'] += 1
        status, d = parse(line)
        f = c[2]
        off, mode = placement(c)
        par = 'odd' if off & 1 else 'even'
        if status == 'SKIP':
            agg['skipped'] += 1
            continue
        if status not in ('ok', 'bad'):
            raw = d.get('_line', '')
            agg['fail'].append((f'placement_executor_{status}:{c[0]}:{fmt_name(f)}:{par}_address:{MODES[mode]}', f'{describe(c)}: executor answered {status} {raw[:300]}', c))
            continue
        if int(d.get('a16', -1)) != off or int(d.get('mode', -1)) != mode:
            agg['fail'].append((f'placement_not_honoured:{c[0]}', f'{describe(c)}: executor placed the buffer at {d.get("a16")} mode {d.get("mode")}', c))
            continue
        cl = [int(x) for x in d['cls'].split(',')]
        tgt = agg['cls_odd' if off & 1 else 'cls_even'][f]
        for i, n in enumerate(cl):
            tgt[i] += n
        nj = int(d['n'])
        agg['judged'] += nj
        agg['values_odd' if off & 1 else 'values_even'][f] += nj
        b1, b2, what = int(d.get('bad1', 0)), int(d.get('bad2', 0)), d.get('what', '-')
        agg['known_ftoi'] += b1
        if what != '-' or b2 or int(d.get('obad', 0)):
            token = what.split(':')[0] if what != '-' else 'value'
            if c[0] == 'PA':
                key = f'placement:{token}:{fmt_name(f)}:{par}_address:{MODES[mode]}:{CALLS[c[6]]}'
            else:
                key = f'value_mispacked_at_placement:{fmt_name(f)}:{par}_address:{MODES[mode]}:filter' if token == 'value' else f'placement:{token}:{fmt_name(f)}:{par}_address:{MODES[mode]}:value_filter'
            agg['fail'].append((key, f'{describe(c)}: {what} mismatches={b2} runs={d.get("runs", "-")[:300]}', c))
            continue
        if status == 'bad' and not b1:
            agg['fail'].append((f'placement_unexplained_bad:{c[0]}', (line or '')[:300], c))
            continue
        if b1:
            # conversion overflow (positive product >= 2^31 packed as the negative rail): same finding key as the main check
            agg['fail_ftoi'].append((KEY_FTOI, f'{describe(c)}: {b1} positive samples whose scaled product is >= 2^31 came out as the negative rail; runs={d.get("runs", "-")[:300]}', c))
        if c[0] == 'PA':
            reads, rej, frames = int(d['reads']), int(d['rej']), int(d['frames'])
            agg['reads'] += reads
            agg['rej'] += rej
            agg['frames'] += frames
            agg['multi'] += int(d['multi'])
            agg['maxch'] = max(agg['maxch'], int(d['maxch']))
            if int(d['maxch']) != int(d['minch']) and reads > 0:
                agg['chain'] += 1
            if reads > 0:
                agg['addr'][f].add(off)
                if c[6] == 0:
                    agg['addr_walk'][f].add(off)
            if mode == 1:
                agg['flush'][f] += int(d['flush'])
                agg['tight'][(f, off)] = agg['tight'].get((f, off), 0) + int(d['tight'])
            if c[6] == 0:
                if reads > 0:
                    agg['walk_combos'].add(c[1:8])
                elif rej > 0:
                    agg['walk_refusal_combos'].add(c[1:8])
            else:
                if reads > 0 or rej > 0:
                    agg['filter_combos'].add(c[1:8])
                if c[6] >= 2:
                    agg['fsamples'] += int(d['fsamples'])
                    agg['fframes'] += frames
                if c[6] == 5:
                    agg['oreads'] += int(d['oreads'])
                    agg['ojudged'] += int(d['ojudged'])
                    agg['orewinds'] += int(d['orewinds'])
                    if reads > 0 and int(d['oreads']) > 0:
                        agg['other_combos'].add((c[1], f, off & 1))
        else:
            if int(d['calls']) > 0 and nj > 0:
                agg['addr'][f].add(off)
            if mode == 1:
                agg['flush'][f] += int(d['flush'])
            if c[0] == 'PB':
                agg['pb_combos'].add((f, off, mode, c[3]))
            else:
                agg['pv_cover'][f] += c[4] - c[3]
                agg['pv_judged'][f] += nj
                agg['pv_nan'][f] += int(d['nan'])


def exe():
    import hashlib, os
    # the executor #includes harness/c17_pcm.c (reference oracle, value sources); key the binary on it as well
    h = hashlib.sha256(open(os.path.join(vlib.ROOT, 'harness', 'c17_pcm.c'), 'rb').read()).hexdigest()[:16]
    return vlib.harness('plain', 'c17_place', extra='-DC17_PCM_KEY=0x' + h)


def run_family(chk, tier, S, deadline):
    """P1..P3; returns the aggregate"""
    agg = new_agg()
    fam, sweep = make_cases(tier, S)
    agg['sweep'] = sweep
    agg['fam'] = fam
    res = vlib.run_cases(exe(), [case_line(c, S) for c in fam], ['--deadline', str(deadline)] if tier == 'thorough' else [], tag='c17p')
    evaluate(chk, fam, res, agg)
    return agg


def run_sweep(chk, tier, S, deadline, agg):
    """P4"""
    sweep = agg['sweep']
    res = vlib.run_cases(exe(), [case_line(c, S) for c in sweep], ['--deadline', str(deadline)], tag='c17q')
    evaluate(chk, sweep, res, agg)


def finish(chk, tier, S, agg, exhaustive):
    for key, desc, c in agg['fail'] + agg['fail_ftoi']:
        chk.violation(key, desc, {'case': list(c), 'tier': tier})
    offs = offsets(tier)
    nlc = len(LENCLS)
    names = {k: (k, v[1]) for k, v in S.items()}
    fam = agg['fam']
    chk.cov.update({
        'placement_cases': agg['n'], 'placement_cases_skipped_by_deadline': agg['skipped'],
        'placement_rule': 'PA = (stream, format, length class, destination offset mod 16, mode arena|page-end-at-inaccessible-page, call) complete twin read-through; '
                          'PB = boundary float set through the filter callback at (format, offset, mode); PV = contiguous float patterns through the filter callback at an odd address',
        'placement_offsets': offs, 'placement_modes': MODES, 'placement_length_classes': LENCLS, 'placement_calls': CALLS,
        'placement_samples': [case_line(c, names) for c in (fam[:2] + fam[len(fam) // 3:len(fam) // 3 + 2] + [x for x in fam if x[0] == 'PA' and x[6] == 5][:1] + [x for x in fam if x[0] == 'PB'][:1] + agg['sweep'][:1])],
        'placement_walks_with_reads_stream_x_format_x_length_x_offset_x_mode': len(agg['walk_combos']),
        'placement_walks_refused_throughout': len(agg['walk_refusal_combos']),
        'placement_filter_axis_combos': len(agg['filter_combos']),
        'placement_reads': agg['reads'], 'placement_refusals': agg['rej'], 'placement_frames': agg['frames'], 'placement_samples_judged': agg['judged'],
        'placement_addresses_mod16_per_format': {fmt_name(f): sorted(agg['addr'][f]) for f in range(8)},
        'placement_reads_ending_exactly_at_inaccessible_page': {fmt_name(f): agg['flush'][f] for f in range(8)},
        'placement_reads_within_one_frame_of_inaccessible_page': sum(agg['tight'].values()),
        'placement_max_channels': agg['maxch'], 'placement_walks_over_channel_change': agg['chain'], 'placement_multichannel_multiframe_reads': agg['multi'],
        'filter_axis_samples_handed_to_filter': agg['fsamples'], 'filter_axis_frames_returned': agg['fframes'],
        'other_handle_reads_inside_filter': agg['oreads'], 'other_handle_samples_judged': agg['ojudged'], 'other_handle_rewinds_inside_filter': agg['orewinds'],
        'values_judged_at_odd_address': {fmt_name(f): agg['values_odd'][f] for f in range(8)},
        'values_judged_at_even_address': {fmt_name(f): agg['values_even'][f] for f in range(8)},
        'format_x_parity_x_value_class_pairs': sum(1 for f in range(8) for t in ('cls_odd', 'cls_even') for i in range(len(CLS)) if agg[t][f][i] > 0),
        'odd_address_value_classes': {fmt_name(f): {CLS[i]: agg['cls_odd'][f][i] for i in range(len(CLS))} for f in range(8)},
        'odd_address_contiguous_patterns': {fmt_name(f): agg['pv_cover'][f] for f in range(8)},
    })
    chk.assumptions += [
        'the destination of the integer read call is a char *: any address is a legal buffer start (no alignment is documented); byte contents are judged the same at every address',
        'a zero-length buffer may be described by a pointer to inaccessible memory (page mode, 1-byte frames, length class frame-1): it must be refused without any access',
        'a filter callback may use another, independently opened OggVorbis_File (handles share nothing): one complete ov_read on it, and ov_pcm_seek to rewind it at its end',
    ]
    if agg['fail']:
        return
    want = set(c[1:8] for c in fam if c[0] == 'PA' and c[6] == 0)
    chk.guard(agg['walk_combos'] | agg['walk_refusal_combos'] == want and all(k in agg['walk_combos'] for k in want if k[6] >= 1) and len(want) == len(WALK) * 8 * nlc * len(offs) * 2,
              'placement walks: every stream x format x length class x offset x mode ran to the end of the stream; every class of at least one frame delivered reads')
    chk.guard(all(set(offs) <= agg['addr_walk'][f] for f in range(8)) and all(any(o & 1 for o in agg['addr'][f]) and any(not o & 1 for o in agg['addr'][f]) for f in range(8)),
              'every format was executed with data returned at every destination offset of the tier, i.e. at odd and at even addresses')
    chk.guard(all(agg['flush'][f] > 0 for f in range(8)) and all(agg['tight'].get((f, o), 0) > 0 for f in range(8) for o in offs),
              'every format had reads whose data ended exactly at the inaccessible page, and at every offset reads that ended less than one frame in front of it')
    chk.guard(agg['maxch'] == 255 and agg['chain'] > 0 and agg['multi'] > 0 and agg['rej'] > 0,
              'placement walks covered the 255-channel stream, a change of channel count, multi-frame multi-channel reads and refusals')
    nf = sum(1 for c in fam if c[0] == 'PA' and c[6] > 0)
    chk.guard(len(agg['filter_combos']) == nf and agg['fsamples'] == agg['fframes'] > 0,
              'filter axis: every call kind x stream x format x length class x offset x mode ran; samples handed to the filters == frames returned')
    chk.guard(len(agg['other_combos']) == len(OTHER) * 8 * 2 and agg['ojudged'] > 0 and agg['orewinds'] > 0,
              'a filter that reads (and rewinds) an independent handle ran for every stream x format at an odd and an even address, and the other handle was judged too')
    chk.guard(len(agg['pb_combos']) == 8 * len(offs) * 2 * 2 and all(agg['cls_odd'][f][i] > 0 for f in range(8) for i in range(len(CLS))),
              'boundary float set ran for every format x offset x mode; at odd addresses every format saw every value class (ties, both rails, +-inf, denormals, +-0)')
    if exhaustive and not agg['skipped']:
        if tier == 'thorough':
            chk.guard(all(agg['pv_cover'][f] == 1 << 32 and agg['pv_judged'][f] + agg['pv_nan'][f] == 1 << 32 for f in range(8)), 'all 2^32 bit patterns per format were packed at an odd destination address')
        else:
            chk.guard(all(agg['pv_cover'][f] == (2 * (129 - e0)) << 23 for f, e0 in QUICK_BANDS), 'quick band sweeps at an odd destination address complete')


def replay_case(c, tier, S):
    """re-executes one case; 0 if it passes now"""
    c = tuple(c)
    line = case_line(c, S)
    out = vlib.run_cases(exe(), [line], jobs=1, tag='c17pr')
    print(line)
    print(out[0])
    status, d = parse(out[0])
    return 0 if status == 'ok' and int(d.get('badn', 0)) == 0 and d.get('what', '-') == '-' else 1
