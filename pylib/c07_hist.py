"""C07 family HIST: a plain seek judged after a history of the OTHER state-changing vorbisfile calls.

The property holds "regardless of which calls were made before".  The BFS of checks/c07.py has only plain seeks and reads as
prior calls and boundary targets that rarely coincide with the position the handle is at.  This family enumerates, completely
and without a deadline, every sequence of <= d prior calls from the alphabet

    lapped seeks (ov_pcm_seek_lap / ov_pcm_seek_page_lap / ov_time_seek_lap / ov_time_seek_page_lap / ov_raw_seek_lap) to boundary targets,
    ov_crosslap(this, other) and ov_crosslap(other, this) with a second handle at several positions,
    ov_halfrate on / off, ov_read_float / ov_read of several lengths (one sample, partial block, whole block, to the end),
    refused seeks (out of range; plain and lapped), ov_raw_seek into the header region of every link, a few plain positioning seeks

followed by ONE judged plain seek of every kind whose target is taken from {the position the handle reports right now, +-1,
+- half a short block, +- half a long block, every link boundary, 0, total} (time kinds: the time of that sample; raw seek: the
byte position ov_raw_tell reports, +-1, link offsets, 0, size) and then the C07 oracle (harness/c07_hist.c read_through): the position
reported after the seek is T; the read-through must be bit-identical to the linear decode from T on, with the reference's link
index, positions advancing by the samples returned, ending at the total.

Only the audio AFTER the judged plain seek is judged: what a lapped seek / crosslap itself delivers is C19's business."""
import itertools
import vlib, zoo, seekgraph

OV_EINVAL = -131
PLAIN = ('ps', 'pp', 'ts', 'tp', 'rs')
LAPPED = ('PS', 'PP', 'TS', 'TP', 'RS')
MIN_EQ_AFTER_LAP = {'quick': 300, 'thorough': 1500}
# link-time wrappers of the lap exposure monitor in harness/c07_hist.c
WRAPS = '-Wl,--wrap=vorbis_synthesis_lapout,--wrap=vorbis_synthesis_blockin,--wrap=vorbis_synthesis_restart,--wrap=vorbis_synthesis_init'


OOB_KEY = 'hist:lap_splice_writes_behind_pcm_buffer_after_repeated_exposure_of_one_block'
OOB_TEXT = ('ov_crosslap / a lapped seek exposed the same decoded block with vorbis_synthesis_lapout again (no block decoded in between); every call moves the returned pointer up, '
            'the splice that follows ignores the count lapout returns and writes outside v->pcm[] (heap overflow)')


def executor(flavour='plain'):
    return vlib.harness(flavour, 'c07_hist', extra=WRAPS)


def family_files(files):
    """F1 (single link), F2 (3-link chain, different rates / channels / block sizes), a 44.1 kHz 256/2048 link with block switching."""
    out = {'F1': files['F1'], 'F2': files['F2']}
    out['c07_K'] = zoo.chain('c07_K', [zoo.link('K', 771, 'natural')])
    return out


def kind_of(op):
    if op[:2] in PLAIN or op[:2] in LAPPED or op[:2] in ('XA', 'XB', 'rf', 'ri', 'rE', 'h1', 'h0'):
        return op[:2]
    return '?'


class Alphabet:
    def __init__(self, fm, rich=False):
        self.fm = fm
        L = fm.L
        st = fm.start
        self.mids = [st[k] + (st[k + 1] - st[k]) // 2 + 7 for k in range(fm.nl) if st[k + 1] - st[k] > 20]
        inner = [s for s in st[1:-1]]
        self.bounds = sorted(set([0, L] + inner))
        self.Bs = sorted(set([0, L, L - 1] + inner + [s - 1 for s in inner] + self.mids))
        if rich:
            # thorough: per link the page fence post nearest to the interior point, and the sample behind it
            for k, m in enumerate(self.mids):
                lk = fm.link_of_pos(m)
                f = min(fm.fence[lk], key=lambda x: (abs(x - m), x))
                self.Bs = sorted(set(self.Bs + [p for p in (f, f + 1) if 0 <= p <= L]))
        lt = fm.lt
        self.raw_mids = [(l['offset'] + l['end']) // 2 for l in lt]
        self.raw_lastpage = [fm.pages[l['last']].offset + 1 for l in lt[:-1]]
        self.link_offsets = [l['offset'] for l in lt]
        self.hdr = [l['offset'] + 10 for l in lt]
        self.size = fm.size
        links = fm.desc['links'] if fm.desc.get('open') else []
        self.two_blocksizes = any(l['bs0'] != l['bs1'] for l in links)

    # ---- prior calls
    def refused(self):
        L = self.fm.L
        return ['ps-1', 'ps%d' % (L + 1), 'ts%d' % (L + 1), 'rs%d' % (self.size + 1), 'PS%d' % (L + 1), 'TS-1']

    def priors(self):
        """the full prior alphabet (depth <= 2 in both tiers)"""
        L = self.fm.L
        ops = []
        for p in self.Bs:
            ops += ['PS%d' % p, 'PP%d' % p]
            if p < L:
                ops.append('TS%d' % p)
                if p == 0 or p in self.mids:      # the page-granular time kind shares both of its halves with PP and TS: start and interior points only
                    ops.append('TP%d' % p)
        for o in self.raw_mids + self.raw_lastpage:
            ops.append('RS%d' % o)
        for w in ['-'] + [str(m) for m in self.mids]:
            ops += ['XA' + w, 'XB' + w]
        ops += ['h1', 'h0']
        ops += ['rf1', 'rf37', 'rf4096', 'ri4', 'ri4096', 'rE']
        ops += self.refused()
        ops += ['rs%d' % o for o in self.hdr]
        ops += ['ps%d' % m for m in self.mids] + ['ps%d' % L]
        return ops

    def core(self):
        """thinned prior alphabet for the deeper level of the thorough tier"""
        L = self.fm.L
        m = self.mids
        ops = ['PS%d' % p for p in m] + ['PS%d' % (L - 1)]
        if len(self.bounds) > 2:
            ops += ['PS%d' % (self.bounds[1] - 1), 'PP%d' % self.bounds[1]]
        ops += ['PP%d' % m[0], 'TS%d' % m[-1], 'TP%d' % m[0], 'RS%d' % self.raw_mids[-1]]
        ops += ['XA-', 'XB-', 'XA%d' % m[-1], 'XB%d' % m[-1]]
        ops += ['h1', 'h0', 'rf37', 'rf4096', 'ri4', 'rE']
        ops += ['ps-1', 'PS%d' % (L + 1), 'rs%d' % self.hdr[-1], 'ps%d' % m[0]]
        seen = []
        for o in ops:
            if o not in seen:
                seen.append(o)
        return seen

    # ---- judged calls
    def judged(self):
        rel3 = ['@+0', '@-1', '@+1']
        rel = rel3 + ['@-h', '@+h'] + (['@-H', '@+H'] if self.two_blocksizes else [])
        L = self.fm.L
        ops = []
        ops += ['ps' + t for t in rel] + ['ps%d' % b for b in self.bounds]
        ops += ['ts' + t for t in rel] + ['ts%d' % b for b in self.bounds if b < L]
        ops += ['pp' + t for t in rel3] + ['pp%d' % b for b in self.bounds]
        ops += ['tp' + t for t in rel3] + ['tp%d' % b for b in self.bounds if b < L]
        ops += ['rs' + t for t in rel3] + ['rs%d' % o for o in sorted(set([0, self.size] + self.link_offsets))]
        return ops


def parse(line):
    """'R=.. J=.. B=.. G=.. T=.. S=.. P=.. H=.. F=.. X=.. I=..' (fixed field order, written by harness/c07_hist.c)"""
    if line is None:
        return {'err': 'NOOUTPUT'}
    if line.startswith('LAPDIED'):
        return {'lapdied': line}
    if not line.startswith('R='):
        return {'err': line}
    t = line.split(' ')
    if len(t) != 11:
        return {'err': 'MALFORMED ' + line}
    r = []
    if t[0] != 'R=-':
        for x in t[0][2:].split(','):
            a, b = x.split(':')
            r.append((int(a), int(b)))
    return {'R': r, 'J': int(t[1][2:]), 'B': int(t[2][2:]), 'G': int(t[3][2:]), 'T': int(t[4][2:]), 'S': int(t[5][2:]), 'P': t[6][2:], 'H': t[7][2:], 'F': t[8][2:], 'X': int(t[9][2:]), 'I': int(t[10][2:])}


def prior_ok(op, rc, refused):
    """did this prior call do what its kind is in the alphabet for?"""
    if op in refused:
        return rc == OV_EINVAL
    k = kind_of(op)
    if k in ('rf', 'ri'):
        return rc > 0
    return rc == 0


def key_for(seq, jop, r):
    last = seq[-1] if seq else 'open'
    lk = kind_of(last)
    cls = {'PS': 'lapped_seek', 'PP': 'lapped_seek', 'TS': 'lapped_seek', 'TP': 'lapped_seek', 'RS': 'lapped_seek', 'XA': 'crosslap_donor', 'XB': 'crosslap_receiver',
           'h1': 'halfrate_on', 'h0': 'halfrate_off', 'rf': 'read', 'ri': 'read', 'rE': 'read_to_end', 'open': 'open'}.get(lk, 'plain_seek')
    if seq and seq[-1][:2] in PLAIN + LAPPED and r['R'] and r['R'][-1][0] != 0:
        cls = 'refused_' + cls
    P = r.get('P', '-')
    reason = P.split(':')[1] if P.startswith('bad') else 'x'
    eq = (jop[:2] in ('ps', 'ts', 'pp', 'tp') and r['G'] == r['B'])
    return 'hist:after_%s:%s%s:%s' % (cls, jop[:2], '_to_current_position' if eq else '', reason)


def run_family(chk, tier, files):
    ff = family_files(files)
    _, listfile, models = seekgraph.load_models(ff)
    exe = executor()
    fam = {'files': {}, 'cases': 0, 'judged': 0, 'refused_judged_seek': 0, 'eq_after_lapped': 0, 'eq_after_crosslap_donor': 0, 'eq_after_crosslap_receiver': 0,
           'eq_after_refused_lapped': 0, 'eq_any': 0, 'judged_in_halfrate': 0, 'prior_kinds_ok': {}, 'prior_calls_with_another_outcome': {}, 'distinct_pre_seek_state_hashes_info_only': 0,
           'judged_by_kind': {k: 0 for k in PLAIN}, 'isolated_continuations': 0, 'out_of_bounds_write_in_prior_call': 0, 'most_lapout_calls_on_one_block': {}}
    sigs = set()
    for fm in models:
        al = Alphabet(fm, rich=(tier == 'thorough'))
        pri, jud, refused = al.priors(), al.judged(), set(al.refused())
        seqs = [()] + [(a,) for a in pri] + list(itertools.product(pri, pri))
        depth3 = 0
        if tier == 'thorough':
            core = al.core()
            s3 = list(itertools.product(core, core, core))
            depth3 = len(s3)
            seqs += s3
        # both tiers: every sequence of 3 and 4 calls over the lap-exposing sub-alphabet (lapped seek, crosslap in both roles, fresh and pre-seeked partner): repeated
        # exposure of ONE decoded block is where the lapout/splice heap overflow repaired by fix 5ce75be lived (depth <= 2 stays inside the buffer); small judged set
        lapcore = [o for o in ('PS%d' % al.mids[-1], 'XA-', 'XB-', 'XA%d' % al.mids[-1], 'XB%d' % al.mids[-1]) if o in pri or o in al.core()]
        slap = list(itertools.product(lapcore, repeat=3)) + list(itertools.product(lapcore, repeat=4))
        jlap = [j for j in jud if j in ('ps@+0', 'pp@+0', 'rs@+0')] or jud[:2]
        # the linear decode itself (no J): positions 0,1,2,... up to the total
        cases = ['%d' % fm.idx]
        index = [((), None)]
        for s in seqs:
            pre = '%d %s J ' % (fm.idx, ' '.join(s)) if s else '%d J ' % fm.idx
            for j in jud:
                cases.append(pre + j)
                index.append((s, j))
        for s in slap:
            if tier == 'thorough' and len(s) == 3:
                continue        # already in the depth-3 core product
            pre = '%d %s J ' % (fm.idx, ' '.join(s))
            for j in jlap:
                cases.append(pre + j)
                index.append((s, j))
        res = vlib.run_cases(exe, cases, ['--files', listfile], tag='c07hist')
        hashes = set()
        for (s, j), line in zip(index, res):
            r = parse(line)
            chk.cov['evaluations'] += 1
            fam['cases'] += 1
            rep = {'family': 'hist', 'file': fm.name, 'prior': list(s), 'judged': j}
            if 'lapdied' in r:
                # memory safety of the prior calls themselves (not a position/audio judgement); see the monitor in harness/c07_hist.c
                fam['isolated_continuations'] += 1
                fam['out_of_bounds_write_in_prior_call'] += 1
                chk.violation(OOB_KEY, '%s: prior calls %s, judged %s: %s -- %s' % (fm.name, list(s), j, r['lapdied'], OOB_TEXT), rep)
                continue
            if 'err' in r:
                chk.violation('hist:%s:crash' % fm.name, 'executor died / timed out on prior calls %s, judged %s: %s' % (list(s), j, r['err'][:300]), rep)
                continue
            if j is None:
                if r['P'] != 'ok:%d' % fm.L:
                    chk.violation('hist:%s:linear_total' % fm.name, 'linear decode delivered %s, constructed length %d' % (r['P'], fm.L), rep)
                continue
            fam['isolated_continuations'] += r['I']
            if 'oobwrite' in r['F'].split(','):
                fam['out_of_bounds_write_in_prior_call'] += 1
                chk.violation(OOB_KEY, '%s: prior calls %s (most lapout calls on one decoded block: %d): the bytes behind the decoder\'s PCM buffer changed during the last lap-exposing call -- %s'
                              % (fm.name, list(s), r['X'], OOB_TEXT), rep)
                continue                               # whatever this process delivers afterwards is not evidence about seeks
            if r['F'] != '-':
                chk.guard(False, 'c07_hist machinery: %s on %s %s' % (r['F'], fm.name, s))
            for op, (rc, _t) in zip(s, r['R']):
                k = 'refused' if op in refused else ('hdr_raw_seek' if (op[:2] == 'rs') else kind_of(op))
                if prior_ok(op, rc, refused):
                    fam['prior_kinds_ok'][k] = fam['prior_kinds_ok'].get(k, 0) + 1
                else:                                 # e.g. a lapped seek to the total (OV_EOF: nothing to prime), a read at the end (0): legitimate histories, counted apart
                    ko = '%s:%d' % (k, rc)
                    fam['prior_calls_with_another_outcome'][ko] = fam['prior_calls_with_another_outcome'].get(ko, 0) + 1
            hashes.add(r['H'])
            fam['most_lapout_calls_on_one_block'][r['X']] = fam['most_lapout_calls_on_one_block'].get(r['X'], 0) + 1
            if r['J'] != 0:
                fam['refused_judged_seek'] += 1      # position not (re)defined by a successful seek: nothing to judge (C08 judges refusals)
                continue
            fam['judged'] += 1
            fam['judged_by_kind'][j[:2]] += 1
            fam['judged_in_halfrate'] += r['S']
            eq = j[:2] in ('ps', 'ts') and r['G'] == r['B']
            if eq:
                fam['eq_any'] += 1
                if s:
                    lk, lrc = kind_of(s[-1]), r['R'][-1][0]
                    if lk in LAPPED:
                        fam['eq_after_lapped' if lrc == 0 else 'eq_after_refused_lapped'] += 1
                    elif lk == 'XA' and lrc == 0:
                        fam['eq_after_crosslap_donor'] += 1
                    elif lk == 'XB' and lrc == 0:
                        fam['eq_after_crosslap_receiver'] += 1
            sigs.add((fm.name, kind_of(s[-1]) if s else 'open', j[:2], eq, r['S']))
            if not r['P'].startswith('ok'):
                chk.violation(key_for(s, j, r), '%s: prior calls %s, then %s (tell before %d, target %d) returned 0 and reports position %d, but the read-through is not the linear decode from there: %s'
                              % (fm.name, list(s), j, r['B'], r['G'], r['T'], r['P']), rep)
        fam['distinct_pre_seek_state_hashes_info_only'] += len(hashes)
        fam['files'][fm.name] = {'prior_alphabet': len(pri), 'judged_alphabet': len(jud), 'prior_sequences': len(seqs), 'depth3_core_sequences': depth3,
                                 'core_alphabet': len(al.core()) if tier == 'thorough' else 0, 'cases': len(cases), 'distinct_pre_seek_state_hashes_info_only': len(hashes)}
        if len(chk.cov['samples']) < 6:
            chk.cov['samples'].append({'file': fm.name, 'history': ['PS%d' % al.mids[0]], 'judged': 'ps@+0', 'family': 'hist'})
    fam['distinct_signatures'] = len(sigs)
    fam['rule'] = ('every sequence of <=2 prior calls (thorough: additionally <=3 over a thinned core alphabet) from {lapped seeks x boundary targets, crosslap either way with a second handle, '
                   'halfrate on/off, reads of 6 lengths, refused seeks, raw seek into each header, positioning seeks} x every judged plain seek of 5 kinds to {tell, +-1, +-half short/long block, '
                   'link boundaries, 0, total}; exhaustive over that bound, no deadline')
    chk.cov['history_family'] = fam
    need = ['PS', 'PP', 'TS', 'TP', 'RS', 'XA', 'XB', 'h1', 'h0', 'rf', 'ri', 'rE', 'refused', 'hdr_raw_seek', 'ps']
    missing = [k for k in need if not fam['prior_kinds_ok'].get(k)]
    chk.guard(not missing, 'HIST: every prior-call kind did at least once what it is in the alphabet for (missing: %s)' % missing)
    n_eq = fam['eq_after_lapped'] + fam['eq_after_crosslap_donor'] + fam['eq_after_crosslap_receiver']
    chk.guard(n_eq >= MIN_EQ_AFTER_LAP[tier] and fam['eq_after_lapped'] >= 100 and fam['eq_after_crosslap_donor'] >= 20 and fam['eq_after_crosslap_receiver'] >= 20,
              'HIST: >= %d judged sample/time seeks whose target equalled the reported position directly after a successful lapped seek / crosslap (lapped %d, donor %d, receiver %d)'
              % (MIN_EQ_AFTER_LAP[tier], fam['eq_after_lapped'], fam['eq_after_crosslap_donor'], fam['eq_after_crosslap_receiver']))
    chk.guard(fam['judged_in_halfrate'] >= 100 and all(v >= 100 for v in fam['judged_by_kind'].values()), 'HIST: every plain seek kind judged >= 100 times, >= 100 judged in half-rate mode')
    chk.assumptions += ['HIST family: only the audio after the judged PLAIN seek is judged (a successful plain seek must leave nothing of an earlier lapped seek / crosslap behind); '
                        'the lap region of the lapped call itself is C19\'s', 'HIST family: "the time of sample p" = time of the earlier links + (p - link start + 0.25)/rate']
    return fam


def replay(r):
    rp = r['replay']
    import zoo as _z
    files = _z.standard_files()
    ff = family_files(files)
    _, listfile, models = seekgraph.load_models(ff)
    exe = executor()
    fm = [m for m in models if m.name == rp['file']][0]
    case = '%d %s J %s' % (fm.idx, ' '.join(rp['prior']), rp['judged']) if rp['judged'] else '%d' % fm.idx
    out = vlib.run_cases(exe, [case], ['--files', listfile], jobs=1)
    print(out[0])
    d = parse(out[0])
    if 'err' in d or 'lapdied' in d or 'oobwrite' in d['F'].split(','):
        return 1
    if d['J'] != 0 and rp['judged']:
        return 0
    return 0 if d['P'].startswith('ok') else 1
