"""vspec -- specification-level Vorbis I synthesiser, strict parser and reference decoder.

Written from /repo/doc/*.tex (Vorbis I specification).  Shares no code and no tables with
/repo/lib: the floor-1 dB table is parsed out of doc/10-tables.tex, the window comes from its
formula, the IMDCT is a direct double-precision evaluation (FFT based, cross-checked against
the O(n^2) matrix form).  Three faces:

  * setup model + packer  (pack_id / pack_comment / pack_setup; every field is logged with
    its bit offset and width in `fields` so that C02 can substitute boundary values),
  * strict parser         (parse_id / parse_setup: rejects whatever the specification forbids),
  * packet codec          (PacketCodec.run(io): ONE walk over the audio-packet syntax that either
    reads symbols from bits (ReadIO) or writes symbols chosen by a chooser (WriteIO)), and the
  * reference synthesiser (RefDecoder: floor curves, residue, coupling, IMDCT, window,
    overlap-add, in double precision, with a per-sample error budget).
"""
import math, os, re, struct
import numpy as np


class SpecError(Exception):
    """the specification calls this stream / packet undecodable"""


class EndOfPacket(Exception):
    pass


def ilog(x):
    r = 0
    while x > 0:
        r += 1
        x >>= 1
    return r


def lookup1_values(entries, dim):
    """largest r with r**dim <= entries"""
    if dim >= 1 and entries > 4096:
        # same result as the literal loop below (exact integer arithmetic), without walking up from 0: big books stay fast
        r = max(0, int(round(entries ** (1.0 / dim))))
        while r ** dim > entries:
            r -= 1
        while (r + 1) ** dim <= entries:
            r += 1
        return r
    r = 0
    while (r + 1) ** dim <= entries:
        r += 1
    return r


def float32_unpack(x):
    mant = x & 0x1fffff
    if x & 0x80000000:
        mant = -mant
    exp = (x & 0x7fe00000) >> 21
    return math.ldexp(float(mant), exp - 788)


def float32_pack(mant, exp2):
    """value = mant * 2**exp2 with |mant| < 2**21"""
    s = 0
    if mant < 0:
        s, mant = 0x80000000, -mant
    assert mant < (1 << 21) and 0 <= exp2 + 788 < 1024
    return s | ((exp2 + 788) << 21) | mant


# ----------------------------------------------------------------------- bits
class BitWriter:
    """LSb-first bit packer (linear time: a small accumulator is drained into a bytearray)"""

    def __init__(self):
        self.out = bytearray()
        self.acc = 0
        self.nacc = 0
        self.n = 0
        self.fields = []      # (name, bit offset, width)

    def w(self, val, bits, name=None):
        assert bits >= 0
        if bits:
            assert 0 <= val < (1 << bits), (name, val, bits)
        if name is not None:
            self.fields.append((name, self.n, bits))
        self.acc |= val << self.nacc
        self.nacc += bits
        self.n += bits
        if self.nacc >= 64:
            nb = self.nacc >> 3
            self.out += (self.acc & ((1 << (8 * nb)) - 1)).to_bytes(nb, 'little')
            self.acc >>= 8 * nb
            self.nacc -= 8 * nb

    def bytes(self):
        nb = (self.nacc + 7) // 8
        return bytes(self.out) + (self.acc.to_bytes(nb, 'little') if nb else b'')

    def wbytes(self, b):
        for c in b:
            self.w(c, 8)


class BitReader:
    def __init__(self, data):
        self.v = int.from_bytes(data, 'little')
        self.nbits = len(data) * 8
        self.pos = 0

    def r(self, bits):
        if self.pos + bits > self.nbits:
            self.pos = self.nbits + 1
            raise EndOfPacket()
        x = (self.v >> self.pos) & ((1 << bits) - 1)
        self.pos += bits
        return x

    def left(self):
        return self.nbits - self.pos


# ---------------------------------------------------------------- setup model
class Codebook:
    def __init__(self, dim, lengths, lookup=0, minv=0, delta=0, value_bits=1, sequence_p=0, mults=(), ordered=None, sparse=None):
        self.dim, self.lengths = dim, list(lengths)          # length 0 == unused entry
        self.entries = len(self.lengths)
        self.lookup, self.minv, self.delta = lookup, minv, delta   # minv/delta are PACKED 32-bit values
        self.value_bits, self.sequence_p, self.mults = value_bits, sequence_p, list(mults)
        self.ordered, self.sparse = ordered, sparse
        self._code = None
        self._vec = {}

    # Huffman assignment per the specification: each used entry gets the lowest-valued free codeword
    def codewords(self):
        if self._code is not None:
            return self._code
        used = [(i, l) for i, l in enumerate(self.lengths) if l > 0]
        code = {}
        if len(used) == 1:
            if used[0][1] != 1:
                raise SpecError('single-entry codebook with length != 1')
            code[used[0][0]] = (0, 1)
            self._code = code
            self.single = True
            return code
        self.single = False
        # marker[l] = next free codeword of length l  (classic construction, done with a free list of tree nodes)
        free = [(0, 0)]                  # list of free nodes (prefix value, length), kept sorted by value as bit strings
        for i, l in used:
            # lowest valued free node that is a prefix candidate: choose the free node with the smallest
            # left-aligned value whose length <= l
            best = None
            for k, (pv, pl) in enumerate(free):
                if pl <= l:
                    key = pv << (32 - pl)
                    if best is None or key < best[0]:
                        best = (key, k)
            if best is None:
                raise SpecError('overspecified Huffman tree')
            pv, pl = free.pop(best[1])
            # descend along zeros, freeing the one-siblings
            while pl < l:
                free.append(((pv << 1) | 1, pl + 1))
                pv, pl = pv << 1, pl + 1
            code[i] = (pv, l)
        if free:
            raise SpecError('underspecified Huffman tree')
        self._code = code
        return code

    def decode_map(self):
        if getattr(self, '_dmap', None) is None:
            cw = self.codewords()
            self._dmap = {(l, v): e for e, (v, l) in cw.items()}
            self._maxlen = max(l for (v, l) in cw.values())
        return self._dmap

    def vector(self, entry):
        """(values, magnitudes) of a VQ entry as the specification computes them (double precision);
        magnitudes = sum of absolute values of the terms that were added (for the error budget)."""
        if entry in self._vec:
            return self._vec[entry]
        if self.lookup == 0:
            raise SpecError('VQ decode with lookup type 0')
        mn, dl = float32_unpack(self.minv), float32_unpack(self.delta)
        out, mag = [], []
        last = 0.0
        lastm = 0.0
        if self.lookup == 1:
            lv = lookup1_values(self.entries, self.dim)
            div = 1
            for i in range(self.dim):
                off = (entry // div) % lv
                v = self.mults[off] * dl + mn + last
                m = abs(self.mults[off] * dl) + abs(mn) + lastm
                out.append(v)
                mag.append(m)
                if self.sequence_p:
                    last, lastm = v, m
                div *= lv
        else:
            off = entry * self.dim
            for i in range(self.dim):
                v = self.mults[off + i] * dl + mn + last
                m = abs(self.mults[off + i] * dl) + abs(mn) + lastm
                out.append(v)
                mag.append(m)
                if self.sequence_p:
                    last, lastm = v, m
        r = (np.array(out), np.array(mag))
        self._vec[entry] = r
        return r

    def n_mults(self):
        if self.lookup == 1:
            return lookup1_values(self.entries, self.dim)
        if self.lookup == 2:
            return self.entries * self.dim
        return 0


class Floor0:
    type = 0

    def __init__(self, order, rate, barkmap, ampbits, ampoff, books):
        self.order, self.rate, self.barkmap, self.ampbits, self.ampoff, self.books = order, rate, barkmap, ampbits, ampoff, list(books)


class Floor1:
    type = 1

    def __init__(self, partition_class, class_dim, class_sub, class_master, subclass_books, mult, rangebits, xs):
        """partition_class: list of class numbers; class_dim/class_sub/class_master: per class; subclass_books[c][j] in -1..; xs: list of the explicit X values (without 0 and 2**rangebits)"""
        self.partition_class, self.class_dim, self.class_sub = list(partition_class), list(class_dim), list(class_sub)
        self.class_master, self.subclass_books = list(class_master), [list(x) for x in subclass_books]
        self.mult, self.rangebits, self.xs = mult, rangebits, list(xs)

    def xlist(self):
        return [0, 1 << self.rangebits] + self.xs


class Residue:
    def __init__(self, type, begin, end, psize, classifications, classbook, cascade, books):
        """cascade[c] 8-bit mask; books[c][pass] book number or -1"""
        self.type, self.begin, self.end, self.psize = type, begin, end, psize
        self.classifications, self.classbook, self.cascade, self.books = classifications, classbook, list(cascade), [list(b) for b in books]


class Mapping:
    def __init__(self, submaps=1, coupling=(), mux=None, submap_floor=(0,), submap_residue=(0,), flag_submaps=None):
        self.submaps, self.coupling, self.mux = submaps, list(coupling), mux
        self.submap_floor, self.submap_residue = list(submap_floor), list(submap_residue)
        self.flag_submaps = flag_submaps    # force the "submaps present" flag even for 1 submap


class Mode:
    def __init__(self, blockflag, mapping):
        self.blockflag, self.mapping = blockflag, mapping


class Setup:
    def __init__(self, channels, rate, bs0, bs1, books, floors, residues, mappings, modes, bitrates=(0, 0, 0)):
        self.channels, self.rate, self.bs0, self.bs1 = channels, rate, bs0, bs1
        self.books, self.floors, self.residues, self.mappings, self.modes = books, floors, residues, mappings, modes
        self.bitrates = bitrates
        self.times = 1

    def blocksize(self, flag):
        return self.bs1 if flag else self.bs0


# -------------------------------------------------------------------- packing
def pack_id(s, version=0, framing=1):
    w = BitWriter()
    w.w(1, 8, 'id.type')
    w.wbytes(b'vorbis')
    w.w(version, 32, 'id.version')
    w.w(s.channels, 8, 'id.channels')
    w.w(s.rate, 32, 'id.rate')
    for n, b in zip(('max', 'nominal', 'min'), s.bitrates):
        w.w(b & 0xffffffff, 32, 'id.bitrate_' + n)
    w.w(ilog(s.bs0) - 1, 4, 'id.bs0')
    w.w(ilog(s.bs1) - 1, 4, 'id.bs1')
    w.w(framing, 1, 'id.framing')
    return w.bytes(), w.fields


def pack_comment(vendor=b'vspec', comments=(), framing=1):
    w = BitWriter()
    w.w(3, 8, 'c.type')
    w.wbytes(b'vorbis')
    w.w(len(vendor), 32, 'c.vendor_len')
    w.wbytes(vendor)
    w.w(len(comments), 32, 'c.count')
    for c in comments:
        w.w(len(c), 32, 'c.len')
        w.wbytes(c)
    w.w(framing, 1, 'c.framing')
    return w.bytes(), w.fields


def pack_codebook(w, b, k):
    p = f'book{k}.'
    if getattr(b, 'raw', None):          # hand-written bits (size-extreme books for C02)
        b.raw(w, p)
        return
    w.w(0x564342, 24, p + 'sync')
    w.w(b.dim, 16, p + 'dim')
    w.w(b.entries, 24, p + 'entries')
    lens = b.lengths
    ordered = b.ordered
    if ordered is None:
        ordered = 0
    w.w(ordered, 1, p + 'ordered')
    if ordered:
        assert all(l > 0 for l in lens) and lens == sorted(lens)
        cur = 0
        length = lens[0]
        w.w(length - 1, 5, p + 'ord.len0')
        while cur < b.entries:
            num = sum(1 for l in lens if l == length)
            w.w(num, ilog(b.entries - cur), p + 'ord.num')
            cur += num
            length += 1
    else:
        sparse = b.sparse
        if sparse is None:
            sparse = 1 if any(l == 0 for l in lens) else 0
        w.w(sparse, 1, p + 'sparse')
        for i, l in enumerate(lens):
            if sparse:
                w.w(1 if l else 0, 1, p + 'used')
                if l:
                    w.w(l - 1, 5, p + 'len')
            else:
                assert l > 0
                w.w(l - 1, 5, p + 'len')
    w.w(b.lookup, 4, p + 'lookup')
    if b.lookup in (1, 2):
        w.w(b.minv, 32, p + 'min')
        w.w(b.delta, 32, p + 'delta')
        w.w(b.value_bits - 1, 4, p + 'value_bits')
        w.w(b.sequence_p, 1, p + 'sequence_p')
        assert len(b.mults) == b.n_mults(), (len(b.mults), b.n_mults())
        for m in b.mults:
            w.w(m, b.value_bits, p + 'mult')


def pack_setup(s, framing=1):
    w = BitWriter()
    w.w(5, 8, 's.type')
    w.wbytes(b'vorbis')
    w.w(len(s.books) - 1, 8, 's.books')
    for k, b in enumerate(s.books):
        pack_codebook(w, b, k)
    w.w(s.times - 1, 6, 's.times')
    for i in range(s.times):
        w.w(0, 16, 's.time')
    w.w(len(s.floors) - 1, 6, 's.floors')
    for k, f in enumerate(s.floors):
        p = f'floor{k}.'
        w.w(f.type, 16, p + 'type')
        if f.type == 0:
            w.w(f.order, 8, p + 'order')
            w.w(f.rate, 16, p + 'rate')
            w.w(f.barkmap, 16, p + 'barkmap')
            w.w(f.ampbits, 6, p + 'ampbits')
            w.w(f.ampoff, 8, p + 'ampoff')
            w.w(len(f.books) - 1, 4, p + 'nbooks')
            for b in f.books:
                w.w(b, 8, p + 'book')
        else:
            w.w(len(f.partition_class), 5, p + 'partitions')
            for c in f.partition_class:
                w.w(c, 4, p + 'pclass')
            ncls = (max(f.partition_class) + 1) if f.partition_class else 0
            for c in range(ncls):
                w.w(f.class_dim[c] - 1, 3, p + 'cdim')
                w.w(f.class_sub[c], 2, p + 'csub')
                if f.class_sub[c]:
                    w.w(f.class_master[c], 8, p + 'master')
                for j in range(1 << f.class_sub[c]):
                    w.w(f.subclass_books[c][j] + 1, 8, p + 'subbook')
            w.w(f.mult - 1, 2, p + 'mult')
            w.w(f.rangebits, 4, p + 'rangebits')
            for x in f.xs:
                w.w(x, f.rangebits, p + 'x')
    w.w(len(s.residues) - 1, 6, 's.residues')
    for k, r in enumerate(s.residues):
        p = f'res{k}.'
        w.w(r.type, 16, p + 'type')
        w.w(r.begin, 24, p + 'begin')
        w.w(r.end, 24, p + 'end')
        w.w(r.psize - 1, 24, p + 'psize')
        w.w(r.classifications - 1, 6, p + 'classifications')
        w.w(r.classbook, 8, p + 'classbook')
        for c in range(r.classifications):
            low, high = r.cascade[c] & 7, r.cascade[c] >> 3
            w.w(low, 3, p + 'cascade_low')
            w.w(1 if high else 0, 1, p + 'cascade_flag')
            if high:
                w.w(high, 5, p + 'cascade_high')
        for c in range(r.classifications):
            for j in range(8):
                if r.cascade[c] & (1 << j):
                    w.w(r.books[c][j], 8, p + 'book')
    w.w(len(s.mappings) - 1, 6, 's.mappings')
    for k, m in enumerate(s.mappings):
        p = f'map{k}.'
        w.w(0, 16, p + 'type')
        fl = m.flag_submaps if m.flag_submaps is not None else (1 if m.submaps > 1 else 0)
        w.w(fl, 1, p + 'submaps_flag')
        if fl:
            w.w(m.submaps - 1, 4, p + 'submaps')
        w.w(1 if m.coupling else 0, 1, p + 'coupling_flag')
        if m.coupling:
            w.w(len(m.coupling) - 1, 8, p + 'coupling_steps')
            for (mag, ang) in m.coupling:
                w.w(mag, ilog(s.channels - 1), p + 'mag')
                w.w(ang, ilog(s.channels - 1), p + 'ang')
        w.w(0, 2, p + 'reserved')
        if m.submaps > 1:
            for c in range(s.channels):
                w.w(m.mux[c], 4, p + 'mux')
        for j in range(m.submaps):
            w.w(0, 8, p + 'time')
            w.w(m.submap_floor[j], 8, p + 'floor')
            w.w(m.submap_residue[j], 8, p + 'residue')
    w.w(len(s.modes) - 1, 6, 's.modes')
    for k, m in enumerate(s.modes):
        p = f'mode{k}.'
        w.w(m.blockflag, 1, p + 'blockflag')
        w.w(0, 16, p + 'windowtype')
        w.w(0, 16, p + 'transformtype')
        w.w(m.mapping, 8, p + 'mapping')
    w.w(framing, 1, 's.framing')
    return w.bytes(), w.fields


def headers(s, vendor=b'vspec', comments=()):
    return [pack_id(s)[0], pack_comment(vendor, comments)[0], pack_setup(s)[0]]


# -------------------------------------------------------------- strict parser
def _hdr(data, typ):
    if len(data) < 7 or data[0] != typ or data[1:7] != b'vorbis':
        raise SpecError('bad header signature')
    r = BitReader(data)
    r.pos = 56
    return r


def parse_id(data):
    try:
        r = _hdr(data, 1)
        ver = r.r(32)
        ch = r.r(8)
        rate = r.r(32)
        br = [struct.unpack('<i', struct.pack('<I', r.r(32)))[0] for _ in range(3)]
        b0, b1 = 1 << r.r(4), 1 << r.r(4)
        fr = r.r(1)
    except EndOfPacket:
        raise SpecError('id header truncated')
    if ver != 0 or ch == 0 or rate == 0 or not (64 <= b0 <= b1 <= 8192) or fr != 1:
        raise SpecError('id header field out of range')
    return {'channels': ch, 'rate': rate, 'bitrates': tuple(br), 'bs0': b0, 'bs1': b1, 'bits': r.pos, 'bytes': len(data)}


def parse_comment(data):
    try:
        r = _hdr(data, 3)
        vl = r.r(32)
        vendor = bytes(r.r(8) for _ in range(vl)) if vl * 8 <= r.left() else (_ for _ in ()).throw(EndOfPacket())
        n = r.r(32)
        out = []
        for i in range(n):
            l = r.r(32)
            if l * 8 > r.left():
                raise EndOfPacket()
            out.append(bytes(r.r(8) for _ in range(l)))
        fr = r.r(1)
    except EndOfPacket:
        raise SpecError('comment header truncated')
    if fr != 1:
        raise SpecError('comment framing bit')
    return vendor, out


def parse_codebook(r):
    if r.r(24) != 0x564342:
        raise SpecError('codebook sync')
    dim = r.r(16)
    entries = r.r(24)
    ordered = r.r(1)
    lens = []
    sparse = 0
    if ordered:
        cur = 0
        length = r.r(5) + 1
        while cur < entries:
            num = r.r(ilog(entries - cur))
            if cur + num > entries:
                raise SpecError('ordered codebook overruns entries')
            if length > 32 and num:
                raise SpecError('codeword longer than 32')
            lens += [length] * num
            cur += num
            length += 1
    else:
        sparse = r.r(1)
        for i in range(entries):
            if sparse:
                if r.r(1):
                    lens.append(r.r(5) + 1)
                else:
                    lens.append(0)
            else:
                lens.append(r.r(5) + 1)
    lookup = r.r(4)
    b = Codebook(dim, lens, lookup, ordered=ordered, sparse=sparse)
    if lookup in (1, 2):
        b.minv, b.delta = r.r(32), r.r(32)
        b.value_bits = r.r(4) + 1
        b.sequence_p = r.r(1)
        n = b.n_mults()
        if n * b.value_bits > r.left():
            raise EndOfPacket()
        b.mults = [r.r(b.value_bits) for _ in range(n)]
    elif lookup > 2:
        raise SpecError('reserved lookup type')
    if entries == 0 or all(l == 0 for l in lens):
        raise SpecError('codebook without used entries')
    b.codewords()       # raises on over/underspecified trees
    return b


def parse_setup(data, channels, bs0, bs1):
    try:
        return _parse_setup(data, channels, bs0, bs1)
    except EndOfPacket:
        raise SpecError('setup header truncated')


def _parse_setup(data, channels, bs0, bs1):
    r = _hdr(data, 5)
    books = [parse_codebook(r) for _ in range(r.r(8) + 1)]
    nb = len(books)
    for _ in range(r.r(6) + 1):
        if r.r(16) != 0:
            raise SpecError('time placeholder nonzero')
    floors = []
    for _ in range(r.r(6) + 1):
        t = r.r(16)
        if t == 0:
            order, rate, bm, ab, ao = r.r(8), r.r(16), r.r(16), r.r(6), r.r(8)
            bl = [r.r(8) for _ in range(r.r(4) + 1)]
            if any(b >= nb for b in bl):
                raise SpecError('floor0 book out of range')
            for b in bl:
                if books[b].lookup == 0:
                    raise SpecError('floor0 book without value mapping')
            if order < 1 or rate < 1 or bm < 1:
                raise SpecError('floor0 degenerate')
            floors.append(Floor0(order, rate, bm, ab, ao, bl))
        elif t == 1:
            parts = r.r(5)
            pc = [r.r(4) for _ in range(parts)]
            ncls = max(pc) + 1 if pc else 0
            cdim, csub, cmaster, sbooks = [], [], [], []
            for c in range(ncls):
                cdim.append(r.r(3) + 1)
                csub.append(r.r(2))
                cmaster.append(r.r(8) if csub[-1] else 0)
                if csub[-1] and cmaster[-1] >= nb:
                    raise SpecError('floor1 masterbook out of range')
                sb = [r.r(8) - 1 for _ in range(1 << csub[-1])]
                if any(x >= nb for x in sb):
                    raise SpecError('floor1 subclass book out of range')
                sbooks.append(sb)
            mult = r.r(2) + 1
            rb = r.r(4)
            xs = []
            for c in pc:
                for _ in range(cdim[c]):
                    xs.append(r.r(rb))
            f = Floor1(pc, cdim, csub, cmaster, sbooks, mult, rb, xs)
            xl = f.xlist()
            if len(xl) > 65 or len(set(xl)) != len(xl):
                raise SpecError('floor1 X list too long or not unique')
            floors.append(f)
        else:
            raise SpecError('floor type')
    residues = []
    for _ in range(r.r(6) + 1):
        t = r.r(16)
        if t > 2:
            raise SpecError('residue type')
        begin, end, ps, cl, cb = r.r(24), r.r(24), r.r(24) + 1, r.r(6) + 1, r.r(8)
        if cb >= nb:
            raise SpecError('classbook out of range')
        casc = []
        for c in range(cl):
            low = r.r(3)
            high = r.r(5) if r.r(1) else 0
            casc.append(high * 8 + low)
        bk = []
        for c in range(cl):
            row = []
            for j in range(8):
                if casc[c] & (1 << j):
                    x = r.r(8)
                    if x >= nb:
                        raise SpecError('residue book out of range')
                    if books[x].lookup == 0:
                        raise SpecError('residue book without value mapping')
                    row.append(x)
                else:
                    row.append(-1)
            bk.append(row)
        if cl ** books[cb].dim > books[cb].entries:
            raise SpecError('classbook too small for classifications')
        residues.append(Residue(t, begin, end, ps, cl, cb, casc, bk))
    mappings = []
    for _ in range(r.r(6) + 1):
        if r.r(16) != 0:
            raise SpecError('mapping type')
        fl = r.r(1)
        sub = r.r(4) + 1 if fl else 1
        coup = []
        if r.r(1):
            for _ in range(r.r(8) + 1):
                mag, ang = r.r(ilog(channels - 1)), r.r(ilog(channels - 1))
                if mag == ang or mag >= channels or ang >= channels:
                    raise SpecError('coupling channels')
                coup.append((mag, ang))
        if r.r(2) != 0:
            raise SpecError('mapping reserved bits')
        mux = [0] * channels
        if sub > 1:
            mux = [r.r(4) for _ in range(channels)]
            if any(x >= sub for x in mux):
                raise SpecError('mux out of range')
        sf, sr = [], []
        for j in range(sub):
            r.r(8)
            f, rs = r.r(8), r.r(8)
            if f >= len(floors) or rs >= len(residues):
                raise SpecError('submap floor/residue out of range')
            sf.append(f)
            sr.append(rs)
        mappings.append(Mapping(sub, coup, mux, sf, sr, flag_submaps=fl))
    modes = []
    for _ in range(r.r(6) + 1):
        bf, wt, tt, mp = r.r(1), r.r(16), r.r(16), r.r(8)
        if wt or tt or mp >= len(mappings):
            raise SpecError('mode fields')
        modes.append(Mode(bf, mp))
    if r.r(1) != 1:
        raise SpecError('setup framing bit')
    s = Setup(channels, 0, bs0, bs1, books, floors, residues, mappings, modes)
    s.bits = r.pos
    s.nbytes = len(data)
    return s


# ---------------------------------------------------------------- packet codec
class ReadIO:
    """symbols come from packet bits"""
    writing = False

    def __init__(self, data):
        self.r = BitReader(data)

    def bits(self, n, what, ctx=None):
        return self.r.r(n)

    def entry(self, book, what, ctx=None):
        dm = book.decode_map()
        v = 0
        for l in range(1, book._maxlen + 1):
            v = (v << 1) | self.r.r(1)
            e = dm.get((l, v))
            if e is not None:
                return e
            if book.single:
                return next(iter(book.codewords()))     # a single-entry book sinks one bit, either value
        raise SpecError('codeword not in tree')   # cannot happen with a full tree


class WriteIO:
    """symbols come from a chooser: chooser(kind, what, ctx, domain) -> value; kind 'bits' (domain = bit count) or 'entry' (domain = book)"""
    writing = True

    def __init__(self, chooser):
        self.w = BitWriter()
        self.ch = chooser
        self.log = []

    def bits(self, n, what, ctx=None):
        v = self.ch('bits', what, ctx, n)
        self.w.w(v, n)
        return v

    def entry(self, book, what, ctx=None):
        e = self.ch('entry', what, ctx, book)
        v, l = book.codewords()[e]
        # codewords are read MSb first, bit by bit
        for i in range(l - 1, -1, -1):
            self.w.w((v >> i) & 1, 1)
        return e


RANGE = [256, 128, 86, 64]


class Decoded:
    """symbol-level content of one audio packet"""
    pass


class PacketCodec:
    def __init__(self, setup):
        self.s = setup

    def run(self, io):
        """walks one audio packet; returns Decoded (mode, flags, per-channel floor symbols, residue vectors).
        EndOfPacket before the floor stage propagates (packet discarded); later it is nominal."""
        s = self.s
        d = Decoded()
        d.eop = None
        if io.bits(1, 'type') != 0:
            raise SpecError('not an audio packet')
        d.mode = io.bits(ilog(len(s.modes) - 1), 'mode')
        if d.mode >= len(s.modes):
            raise SpecError('mode number out of range')
        md = s.modes[d.mode]
        d.W = md.blockflag
        d.n = n = s.blocksize(d.W)
        d.prev = d.next = None
        if d.W:
            d.prev = io.bits(1, 'prev')
            d.next = io.bits(1, 'next')
        mp = s.mappings[md.mapping]
        d.map = mp
        ch = s.channels
        d.floor = [None] * ch          # None = unused, else floor symbols
        d.res = [np.zeros(n // 2) for _ in range(ch)]
        d.resmag = [np.zeros(n // 2) for _ in range(ch)]
        try:
            for c in range(ch):
                f = s.floors[mp.submap_floor[mp.mux[c] if mp.mux else 0]]
                try:
                    d.floor[c] = self.floor0(io, f, c) if f.type == 0 else self.floor1(io, f, c)
                except EndOfPacket:
                    # nominal: this floor is 'unused'; nothing can follow
                    d.floor[c] = None
                    d.eop = 'floor'
                    raise
        except EndOfPacket:
            # spec 4.3.2: zero all channel output vectors
            d.floor = [None] * ch
            return d
        nores = [d.floor[c] is None for c in range(ch)]
        for (mag, ang) in mp.coupling:
            if not nores[mag] or not nores[ang]:
                nores[mag] = nores[ang] = False
        d.nores = nores
        try:
            for sm in range(mp.submaps):
                chans = [c for c in range(ch) if (mp.mux[c] if mp.mux else 0) == sm]
                if not chans:
                    continue
                rs = s.residues[mp.submap_residue[sm]]
                self.residue(io, rs, n // 2, chans, [nores[c] for c in chans], d, sm)
        except EndOfPacket:
            d.eop = 'residue'
        return d

    # ---- floors
    def floor0(self, io, f, c):
        amp = io.bits(f.ampbits, 'f0.amp', c)
        if amp == 0:
            return None
        bn = io.bits(ilog(len(f.books)), 'f0.booknum', ('lim', len(f.books), c))
        if bn >= len(f.books):
            raise SpecError('floor0 book number out of range')      # 'packet is undecodable'
        book = self.s.books[f.books[bn]]
        coeffs = []
        last = 0.0
        while len(coeffs) < f.order:
            e = io.entry(book, 'f0.entry', (c, len(coeffs)))
            v = book.vector(e)[0] + last
            last = float(v[-1])
            coeffs += list(v)
        return ('f0', amp, coeffs, f)

    def floor1(self, io, f, c):
        if io.bits(1, 'f1.nonzero', c) == 0:
            return None
        rng = RANGE[f.mult - 1]
        nb = ilog(rng - 1)
        ys = [io.bits(nb, 'f1.y', ('lim', rng, c, 0)), io.bits(nb, 'f1.y', ('lim', rng, c, 1))]
        for pi, cls in enumerate(f.partition_class):
            cdim, cbits = f.class_dim[cls], f.class_sub[cls]
            csub = (1 << cbits) - 1
            cval = 0
            if cbits:
                cval = io.entry(self.s.books[f.class_master[cls]], 'f1.master', (c, pi))
            for j in range(cdim):
                bk = f.subclass_books[cls][cval & csub]
                cval >>= cbits
                if bk >= 0:
                    ys.append(io.entry(self.s.books[bk], 'f1.yv', (c, len(ys))))
                else:
                    ys.append(0)
        return ('f1', ys, f)

    # ---- residue
    def residue(self, io, rs, n, chans, dnd, d, sm):
        s = self.s
        nch = len(chans)
        if rs.type == 2:
            if all(dnd):
                return
            vecs = [np.zeros(n * nch)]
            mags = [np.zeros(n * nch)]
            size = n * nch
            flags = [False]
        else:
            vecs = [d.res[c] for c in chans]
            mags = [d.resmag[c] for c in chans]
            size = n
            flags = dnd
        try:
            self._res01(io, rs, size, vecs, mags, flags, sm)
        finally:
            if rs.type == 2:
                for j, c in enumerate(chans):
                    d.res[c][:] = vecs[0][j::nch]
                    d.resmag[c][:] = mags[0][j::nch]

    def _res01(self, io, rs, size, vecs, mags, dnd, sm):
        s = self.s
        begin, end = min(rs.begin, size), min(rs.end, size)
        cb = s.books[rs.classbook]
        cw = cb.dim
        ntr = end - begin
        if ntr <= 0:
            return
        parts = ntr // rs.psize
        nv = len(vecs)
        cls = [[0] * (parts + cw) for _ in range(nv)]
        for pas in range(8):
            pc = 0
            while pc < parts:
                if pas == 0:
                    for j in range(nv):
                        if not dnd[j]:
                            t = io.entry(cb, 'res.class', ('lim', rs.classifications ** cw, sm, j, pc))
                            for i in range(cw - 1, -1, -1):
                                cls[j][i + pc] = t % rs.classifications
                                t //= rs.classifications
                i = 0
                while i < cw and pc < parts:
                    for j in range(nv):
                        if not dnd[j]:
                            bkn = rs.books[cls[j][pc]][pas]
                            if bkn >= 0:
                                self._partition(io, rs, s.books[bkn], vecs[j], mags[j], begin + pc * rs.psize, (sm, j, pc, pas))
                    pc += 1
                    i += 1

    def _partition(self, io, rs, book, v, m, off, ctx):
        n = rs.psize
        dim = book.dim
        if rs.type == 0:
            step = n // dim
            for i in range(step):
                vec, mag = book.vector(io.entry(book, 'res.vq', ctx + (i,)))
                for j in range(dim):
                    v[off + i + j * step] += vec[j]
                    m[off + i + j * step] += mag[j]
        else:
            i = 0
            while i < n:
                vec, mag = book.vector(io.entry(book, 'res.vq', ctx + (i,)))
                k = min(dim, n - i)     # partition sizes that are not a multiple of dim are outside our alphabet
                v[off + i:off + i + k] += vec[:k]
                m[off + i:off + i + k] += mag[:k]
                i += dim


# ------------------------------------------------------------ reference synth
_DB = None


def db_table():
    """floor1_inverse_dB_static_table, parsed from the specification text"""
    global _DB
    if _DB is None:
        repo = os.environ.get('VERIF_REPO', '/repo')
        txt = open(os.path.join(repo, 'doc', '10-tables.tex')).read()
        body = txt.split('\\begin{Verbatim}')[1].split('\\end{Verbatim}')[0]
        vals = [float(x) for x in re.findall(r'[0-9.]+e[-+][0-9]+|[0-9]+\.[0-9]*', body)]
        assert len(vals) == 256, len(vals)
        # the table is given to 8 significant digits; the format's values are these decimals (single precision per the property)
        _DB = np.array(vals, dtype=np.float32).astype(np.float64)
    return _DB


def low_neighbor(v, x):
    best = None
    for n in range(x):
        if v[n] < v[x] and (best is None or v[n] > v[best]):
            best = n
    return best


def high_neighbor(v, x):
    best = None
    for n in range(x):
        if v[n] > v[x] and (best is None or v[n] < v[best]):
            best = n
    return best


def render_point(x0, y0, x1, y1, X):
    dy = y1 - y0
    adx = x1 - x0
    ady = abs(dy)
    err = ady * (X - x0)
    off = err // adx
    return y0 - off if dy < 0 else y0 + off


def _tdiv(a, b):
    q = abs(a) // abs(b)
    return q if (a >= 0) == (b >= 0) else -q


def render_line(x0, y0, x1, y1, v, n):
    dy = y1 - y0
    adx = x1 - x0
    ady = abs(dy)
    base = _tdiv(dy, adx)
    x, y, err = x0, y0, 0
    sy = base - 1 if dy < 0 else base + 1
    ady -= abs(base) * adx
    if x < n:
        v[x] = y
    for x in range(x0 + 1, x1):
        err += ady
        if err >= adx:
            err -= adx
            y += sy
        else:
            y += base
        if x < n:
            v[x] = y


def floor1_curve(sym, n):
    _, ys, f = sym
    xl = f.xlist()
    rng = RANGE[f.mult - 1]
    nv = len(xl)
    final = [0] * nv
    step2 = [False] * nv
    step2[0] = step2[1] = True
    final[0], final[1] = ys[0], ys[1]
    for i in range(2, nv):
        lo, hi = low_neighbor(xl, i), high_neighbor(xl, i)
        pred = render_point(xl[lo], final[lo], xl[hi], final[hi], xl[i])
        val = ys[i]
        highroom, lowroom = rng - pred, pred
        room = (highroom if highroom < lowroom else lowroom) * 2
        if val:
            step2[lo] = step2[hi] = step2[i] = True
            if val >= room:
                final[i] = (val - lowroom + pred) if highroom > lowroom else (pred - val + highroom - 1)
            else:
                final[i] = pred - (val + 1) // 2 if (val & 1) else pred + val // 2
        else:
            step2[i] = False
            final[i] = pred
    order = sorted(range(nv), key=lambda k: xl[k])
    X = [xl[k] for k in order]
    Y = [final[k] for k in order]
    S = [step2[k] for k in order]
    if any(y < 0 or y >= rng for y in Y):
        return None        # out-of-range final Y: 'valid floor1 setups cannot produce' it; caller treats the stream as outside the alphabet
    fl = [0] * n
    hx, lx, ly = 0, 0, Y[0] * f.mult
    hy = ly
    for i in range(1, nv):
        if S[i]:
            hy = Y[i] * f.mult
            hx = X[i]
            render_line(lx, ly, hx, hy, fl, n)
            lx, ly = hx, hy
    if hx < n:
        render_line(hx, hy, n, hy, fl, n)
    return db_table()[np.array(fl, dtype=np.int64)]


def bark(x):
    return 13.1 * math.atan(.00074 * x) + 2.24 * math.atan(.0000000185 * x * x) + .0001 * x


def floor0_map(f, n):
    """(map, ambiguous): ambiguous if any value sits so close to an integer that single vs double evaluation of bark() may floor differently"""
    m = []
    amb = False
    for i in range(n):
        v = bark(f.rate * i / (2.0 * n)) * f.barkmap / bark(.5 * f.rate)
        if i > 0 and abs(v - round(v)) < 1e-4:
            amb = True
        m.append(min(f.barkmap - 1, int(math.floor(v))))
    return m, amb


def floor0_curve(sym, n):
    """returns (curve, relative tolerance per bin)"""
    _, amp, co, f = sym
    mp, _ = floor0_map(f, n)
    out = np.zeros(n)
    tol = np.zeros(n)
    cache = {}
    order = f.order
    cosc = [math.cos(c) for c in co[:order]]
    for i in range(n):
        k = mp[i]
        if k not in cache:
            w = math.pi * k / f.barkmap
            cw = math.cos(w)
            if order & 1:
                p = 1 - cw * cw
                for j in range((order - 3) // 2 + 1):
                    p *= 4 * (cosc[2 * j + 1] - cw) ** 2
                q = 0.25
                for j in range((order - 1) // 2 + 1):
                    q *= 4 * (cosc[2 * j] - cw) ** 2
            else:
                p = (1 - cw) / 2
                q = (1 + cw) / 2
                for j in range((order - 2) // 2 + 1):
                    p *= 4 * (cosc[2 * j + 1] - cw) ** 2
                    q *= 4 * (cosc[2 * j] - cw) ** 2
            if p + q <= 0:
                cache[k] = (None, None)
            else:
                a = amp * f.ampoff / (((1 << f.ampbits) - 1) * math.sqrt(p + q))
                x = a - f.ampoff
                # single-precision evaluation: each of ~order factors carries 2^-24 relative error and the
                # differences cos(c)-cos(w) cancel: budget on the exponent argument
                canc = 0.0
                for j in range(order):
                    dd = abs(cosc[j] - cw)
                    canc += (abs(cosc[j]) + abs(cw) + 1e-30) / (dd + 1e-300) if dd > 0 else 1e30
                dx = 2.0 ** -23 * (abs(a) * (order + 6 + canc) + abs(f.ampoff) + abs(x))
                cache[k] = (math.exp(.11512925 * x) if x < 600 else float('inf'), min(1e30, math.expm1(min(700.0, .11512925 * dx))))
        out[i], tol[i] = cache[k] if cache[k][0] is not None else (float('nan'), float('inf'))
    return out, tol


def window_slope(k):
    """rising slope of length k: sin(pi/2 sin^2((i+.5)/k * pi/2))"""
    i = np.arange(k)
    return np.sin(math.pi / 2 * np.sin((i + .5) / k * math.pi / 2) ** 2)


def make_window(n, W, prev, nxt, bs0):
    w = np.zeros(n)
    if W and not prev:
        ls, le, ln = n // 4 - bs0 // 4, n // 4 + bs0 // 4, bs0 // 2
    else:
        ls, le, ln = 0, n // 2, n // 2
    if W and not nxt:
        rs, re_, rn = n * 3 // 4 - bs0 // 4, n * 3 // 4 + bs0 // 4, bs0 // 2
    else:
        rs, re_, rn = n // 2, n, n // 2
    w[ls:le] = window_slope(ln)
    w[le:rs] = 1.0
    w[rs:re_] = window_slope(rn)[::-1]
    return w


_imdct_cache = {}


def imdct(X):
    """y[i] = sum_k X[k] cos(2pi/n (i + 1/2 + n/4)(k + 1/2)), i = 0..n-1, n = 2 len(X)"""
    h = len(X)
    n = 2 * h
    if n not in _imdct_cache:
        k = np.arange(h)
        n0 = 0.5 + n / 4.0
        th = 2 * math.pi / n
        pre = np.exp(1j * th * n0 * k)
        i = np.arange(n)
        post = np.exp(1j * th * (i + n0) / 2.0)
        _imdct_cache[n] = (pre, post)
    pre, post = _imdct_cache[n]
    Z = np.zeros(n, dtype=complex)
    Z[:h] = X * pre
    y = np.fft.ifft(Z) * n
    return (y * post).real


def imdct_direct(X):
    h = len(X)
    n = 2 * h
    i = np.arange(n)[:, None]
    k = np.arange(h)[None, :]
    return (np.cos(2 * math.pi / n * (i + 0.5 + n / 4.0) * (k + 0.5)) * X[None, :]).sum(axis=1)


class RefDecoder:
    """Reference synthesis for one logical stream.  feed(packet bytes) -> (pcm [ch][k] float64, tol [ch][k]) or None (packet discarded)."""

    def __init__(self, setup):
        self.s = setup
        self.codec = PacketCodec(setup)
        self.prev = None        # (windowed block [ch][n], tolerance block, n)
        self.outside = None     # set to a reason when the stream leaves the alphabet on which the reference is defined

    def decode_symbols(self, data):
        io = ReadIO(data)
        try:
            d = self.codec.run(io)
        except EndOfPacket:
            return None, io
        except SpecError:
            return None, io
        return d, io

    def synth(self, d):
        s = self.s
        n = d.n
        h = n // 2
        ch = s.channels
        res = [d.res[c].copy() for c in range(ch)]
        mag = [d.resmag[c].copy() for c in range(ch)]
        if all(f is None for f in d.floor) and d.eop == 'floor':
            res = [np.zeros(h) for _ in range(ch)]
        # inverse coupling
        for (m, a) in reversed(d.map.coupling):
            M, A = res[m], res[a]
            nM, nA = M.copy(), A.copy()
            mp, ap = M > 0, A > 0
            k = mp & ap
            nA[k] = M[k] - A[k]
            k = mp & ~ap
            nA[k] = M[k]
            nM[k] = M[k] + A[k]
            k = ~mp & ap
            nA[k] = M[k] + A[k]
            k = ~mp & ~ap
            nA[k] = M[k]
            nM[k] = M[k] - A[k]
            res[m], res[a] = nM, nA
            tm = mag[m] + mag[a]
            mag[m], mag[a] = tm, tm.copy()
        blocks, tols = [], []
        win = make_window(n, d.W, d.prev, d.next, s.bs0)
        for c in range(ch):
            sym = d.floor[c]
            if sym is None:
                spec = np.zeros(h)
                e = np.zeros(h)
            elif sym[0] == 'f1':
                fl = floor1_curve(sym, h)
                if fl is None:
                    self.outside = 'floor1 final Y out of range'
                    fl = np.zeros(h)
                spec = fl * res[c]
                e = fl * mag[c] * 2.0 ** -21
            else:
                fl, ftol = floor0_curve(sym, h)
                if not np.all(np.isfinite(fl)) or not np.all(np.isfinite(ftol)):
                    self.outside = 'floor0 curve not finite'
                    fl = np.nan_to_num(fl, nan=0.0, posinf=0.0)
                    ftol = np.nan_to_num(ftol, nan=0.0, posinf=0.0)
                spec = fl * res[c]
                e = fl * mag[c] * 2.0 ** -21 + np.abs(spec) * ftol
            P = float(np.abs(spec).sum())
            E = float(e.sum())
            y = imdct(spec) * win
            blocks.append(y)
            tols.append(np.full(n, 2.0 ** -20 * P + E))
        return np.array(blocks), np.array(tols), n

    def feed(self, data):
        d, io = self.decode_symbols(data)
        if d is None:
            return None
        d.bits_used = io.r.pos if io.r.pos <= io.r.nbits else io.r.nbits
        self.last = d
        cur, ctol, n = self.synth(d)
        out = None
        if self.prev is not None:
            pv, ptol, pn = self.prev
            start = 3 * pn // 4 - n // 4          # where the current block starts relative to the previous one
            lo, hi = pn // 2, start + n // 2
            ch = self.s.channels
            buf = np.zeros((ch, hi - lo))
            tb = np.full((ch, hi - lo), 1e-30)
            # previous block's contribution: indices lo..pn-1
            a_end = min(pn, hi)
            buf[:, :a_end - lo] += pv[:, lo:a_end]
            tb[:, :a_end - lo] += ptol[:, lo:a_end]
            # current block's contribution: its index j sits at start+j
            j0 = max(0, lo - start)
            buf[:, start + j0 - lo:] += cur[:, j0:n // 2]
            tb[:, start + j0 - lo:] += ctol[:, j0:n // 2]
            out = (buf, tb)
        self.prev = (cur, ctol, n)
        return out if out is not None else (np.zeros((self.s.channels, 0)), np.zeros((self.s.channels, 0)))

    def restart(self):
        self.prev = None
