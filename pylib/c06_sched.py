"""C06, submission-schedule axis of the encode driver.

The application hands its audio to the encoder through vorbis_analysis_buffer / vorbis_analysis_wrote in pieces of its own
choosing; the property ("sample i of the output corresponds to sample i of the input", quality bound) does not depend on that
choice.  This module enumerates a finite set of SUBMISSION SCHEDULES for a slice of the C06 configuration x signal grid and
judges, for every (configuration, signal, schedule):
  (a) the ordinary C06 predicates (c06.judge: finite, alignment, channel identity, peak factor, SNR floor), and
  (b) a windowed view: for every complete 1024-sample window that starts at or after 2 x blocksizes[1]
        (b1) the window's SNR against the INPUT >= WFLOOR(class, mode, q)        [continuous band-limited classes], and
        (b2) the window's error energy is not more than DIFF_DB above the error energy of the SAME window under the reference
             schedule (1024-sample submissions) - differential between schedules of one signal/configuration.
Schedule text (resolved by harness/c06_quality.c against the block sizes of the set-up): comma separated pieces
  <n> | B+-d = blocksizes[1]+d | D+-d = 2*blocksizes[1]+d | E+-d = centerW+2*blocksizes[1]+d (initial centerW = blocksizes[1]/2) |
  H+-d = N/2+d | R = the rest in one piece | x<n> = pieces of n until done | G = 1,2,4,8,... until done.
"""
import math

REF = 'x1024'
WLEN = 1024
# the reverse LPC pre-extrapolation (_preextrapolate_helper) runs inside the vorbis_analysis_wrote call that first takes the buffer past
# centerW + blocksizes[1]; the first vorbis_analysis_blockout follows.  D / E pieces sit around 2 x blocksizes[1] submitted (= centerW+2*bs1
# buffered) resp. centerW+2*bs1 submitted.
SCHED_QUICK = [REF, 'R', '1,R', 'B-1,R', 'B,R', 'B+1,R', 'D-1,x1024', 'D,x1024', 'D+1,x1024', 'E-1,x1024', 'E,x1024', 'E+1,x1024',
               'x4096', 'x4097', 'x8192', 'x65536', 'G', 'H,R']
SCHED_THOROUGH = SCHED_QUICK + ['x1', 'x37', 'x777', 'x2048', 'x2049', 'x16384', '1,x1024', 'B+1,x1024', 'B+1,x1', 'D+1,R', 'E+1,x4097']

# samples per channel by rate: lengths that the main C06 family already uses (0.3 s; 0.45 s + 37 at 8 kHz), the first of them that exceeds
# 6 x blocksizes[1] of every set-up of that rate (512/512 @8k, 512/1024 @22k, 256/2048 @44.1k and 96k for q>=0); the SNR floor table of the main
# family therefore applies to these members unchanged.  q<0 at 44.1 kHz has blocks 512/4096 and gets 30000 samples (no SNR floor table there).
NLEN = {8000: 3637, 22050: 6615, 44100: 13230, 96000: 28800}
NLEN_NEGQ = 30000
NLONG = 70001   # long members, so that the 65536-sample pieces are not simply "the whole signal" and 8192/16384-sample pieces repeat
NEGQ = -0.1

# classes of the slice: (class, signal text), all of them members of the main family.  sw / nz / ck / b5 are classes on which alignment is judged;
# t2 / t5 are stationary chords (most sensitive to a displaced segment: highest windowed SNR)
SIG_QUICK = [('sw', 's:50:1000'), ('nz', 'n:1:64'), ('ck', 'c:1:12:5'), ('t2', 't:0,1:5')]
SIG_THOROUGH = [('sw', 's:50:1000'), ('sw', 's:1000:50'), ('nz', 'n:1:64'), ('nz', 'n:2:64'), ('ck', 'c:1:12:5'), ('ck', 'c:2:12:1'),
                ('t2', 't:0,1:5'), ('t5', 't:0,1,2,3,4:6'), ('b5', 'b:0,1,2,3,4:5:512:600')]
CONTINUOUS = ('t2', 't5', 'sw', 'nz')     # classes whose every interior window carries signal: windowed SNR floor judged


def configs(tier, rates, chs, qs, modes):
    """-> list of (rate, ch, mode, q, n): every channel-count / template family at low, mid and high quality."""
    if tier == 'quick':
        # 16 configurations: 1/2/3/6 channels; templates 8k, 22k, 44k (mono, coupled stereo, uncoupled 3 ch, 5.1 coupled at q=0 and lossless-coupled at q=1),
        # 96k; block-size pairs 512/512, 512/1024, 256/2048, 512/4096 (q<0); VBR at low/mid/high quality and ABR
        c = [(44100, 1, 'q', 0.0), (44100, 2, 'q', 0.0), (44100, 2, 'q', 0.5), (44100, 2, 'q', 1.0), (44100, 3, 'q', 0.5), (44100, 6, 'q', 0.0), (44100, 6, 'q', 1.0)]
        c += [(44100, 1, 'q', NEGQ), (44100, 2, 'a', 0.5), (44100, 1, 'a', 0.0)]
        c += [(22050, 2, 'q', 0.5), (22050, 1, 'q', 1.0), (8000, 1, 'q', 0.5), (8000, 3, 'q', 1.0), (96000, 2, 'q', 0.5), (96000, 1, 'q', 0.0)]
    else:
        c = [(r, ch, m, q) for r in rates for ch in chs for m in modes for q in qs]
        c += [(44100, ch, m, NEGQ) for ch in (1, 2) for m in modes]
    return [(r, ch, m, q, NLEN_NEGQ if q < 0 else NLEN[r]) for r, ch, m, q in c]


def long_members(tier):
    """(rate, ch, mode, q, n, cls, sig) members with N > 65536."""
    if tier == 'quick':
        return [(44100, 1, 'q', 0.5, NLONG, 'sw', 's:50:1000')]
    return [(44100, ch, 'q', 0.5, NLONG, cls, sig) for ch in (1, 2) for cls, sig in (('sw', 's:50:1000'), ('nz', 'n:1:64'), ('t2', 't:0,1:5'))]


def schedules(tier):
    return SCHED_QUICK if tier == 'quick' else SCHED_THOROUGH


def parse_windows(d):
    """d: parsed harness result.  -> dict(bs1, pre_cur, pre_cw, ws[ch][w], we[ch][w], wh[w], nsub, first, maxp)"""
    pre = [int(x) for x in d['pre'].split(',')]
    return {'pre_cur': pre[0], 'pre_cw': pre[1], 'bs1': pre[2], 'nsub': int(d['nsub']), 'first': int(d['first']), 'maxp': int(d['maxp']),
            'ws': [[float(x) for x in c.split(',')] for c in d['ws'].split(';')],
            'we': [[float(x) for x in c.split(',')] for c in d['we'].split(';')],
            'wh': d['wh'].split(',')}


def db(x):
    return 10.0 * math.log10(x) if x > 0 else -300.0


def window_view(w, ref, nch, wfloor, diff_db):
    """w, ref: parse_windows() of the schedule under test and of the reference schedule (ref may be w itself).
    nch: number of leading channels judged (the LFE channel of the 5.1 template is left out, as in the SNR predicate).
    wfloor: dB or None.  -> dict(first window judged, windows judged, min windowed snr + where, max deficit + where, floor hits, diff hits, identical windows)"""
    k0 = (2 * w['bs1'] + WLEN - 1) // WLEN
    nw = min(len(w['wh']), len(ref['wh']))
    out = {'k0': k0, 'nw': nw, 'snr_windows': 0, 'diff_windows': 0, 'min_snr': None, 'min_at': None, 'max_deficit': None, 'deficit_at': None,
           'floor_hits': [], 'diff_hits': [], 'identical': sum(1 for k in range(k0, nw) if w['wh'][k] == ref['wh'][k]), 'far': max(0, nw - k0)}
    for c in range(nch):
        ws, we, rs, re_ = w['ws'][c], w['we'][c], ref['ws'][c], ref['we'][c]
        mean = sum(ws[:nw]) / max(1, nw)
        if mean <= 0:
            continue
        eps = 1e-6 * mean      # error energies 60 dB below the mean window energy are treated as equal
        for k in range(k0, nw):
            out['diff_windows'] += 1
            deficit = db((we[k] + eps) / (re_[k] + eps))
            if out['max_deficit'] is None or deficit > out['max_deficit']:
                out['max_deficit'], out['deficit_at'] = deficit, (c, k)
            if deficit > diff_db:
                out['diff_hits'].append((c, k, db(ws[k] / max(we[k], 1e-300)), db(rs[k] / max(re_[k], 1e-300))))
            if ws[k] >= 0.01 * mean:      # windows within 20 dB of the mean window energy carry a local SNR
                s = db(ws[k] / max(we[k], 1e-300))
                out['snr_windows'] += 1
                if out['min_snr'] is None or s < out['min_snr']:
                    out['min_snr'], out['min_at'] = s, (c, k)
                if wfloor is not None and s < wfloor:
                    out['floor_hits'].append((c, k, s))
    return out
