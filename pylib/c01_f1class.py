"""C01 family f1class (used only by checks/c01.py): floor-1 class (master) books of every size relative to the subclasses**dim addresses
a partition class can use.  Spec 7.2.3: cval is masked with csub and shifted right by cbits once per dimension; bits left over are ignored,
missing bits read as 0.  So a class book may be smaller, exact or LARGER (e.g. shared by classes of different shape).  Every class-book
entry is coded for every class that uses the book; the sub-books differ in size (and one is absent), so a wrong selector desynchronises."""
import itertools
import vspec, vsynth

YSIZES = (2, 4, 8, 16)


def _subbooks(cbits, ybase, rot):
    row = [ybase + (j + rot) % len(YSIZES) for j in range(1 << cbits)]
    if cbits >= 2:
        row[2] = -1            # an absent sub-book: that post's value is 0 and no bits are read
    return row


def build_f1class(classes, E, reps, lenorder='asc'):
    """classes: list of (cdim, cbits) all sharing ONE class book with E entries; partitions cycle through the classes `reps` times"""
    s = vsynth.base_setup(channels=1, bs0=256, bs1=512)
    fl0 = s.floors[0]
    ybase = len(s.books)
    s.books += [vsynth.flat_book(k, 1, 0) for k in YSIZES]
    master = len(s.books)
    lens = vsynth.complete_lengths(E)
    s.books.append(vspec.Codebook(1, lens[::-1] if lenorder == 'desc' else lens, 0))
    ncl = len(classes)
    pclass = [k for _ in range(reps) for k in range(ncl)]
    nx = sum(classes[k][0] for k in pclass)
    assert nx <= 63
    xs = [(k * 37 + 5) % 127 + 1 for k in range(nx)]            # distinct (37 is coprime to 127), neither sorted nor reversed
    s.floors[0] = vspec.Floor1(pclass, [c[0] for c in classes], [c[1] for c in classes], [master] * ncl,
                               [_subbooks(c[1], ybase, k) for k, c in enumerate(classes)], fl0.mult, fl0.rangebits, xs)
    npk = max(3, -(-E // reps))
    cnts = [itertools.count() for _ in classes]
    meta = {'f1class_streams': 1, 'f1class_words': 0, 'f1class_surplus_words': 0, 'f1class_short_words': 0, 'f1class_shared': int(ncl > 1)}

    def master_choice(ctx, dom):
        k = pclass[ctx[1]]
        e = next(cnts[k]) % E                                   # each class walks through ALL entries of the shared book
        need = classes[k][0] * classes[k][1]
        meta['f1class_words'] += 1
        meta['f1class_surplus_words'] += int((e >> need) != 0)
        meta['f1class_short_words'] += int(E < (1 << need))
        return e
    f = vsynth.Filler(fixed={'f1.nonzero': 1, 'f1.master': master_choice})
    st = vsynth.Stream(s, vsynth_packets(s, npk, f))
    st.c01_meta = meta
    return st


def vsynth_packets(s, npk, f):
    modes = [k % 2 for k in range(npk)]
    return [vsynth.make_packet(s, m, f, pv, nx) for m, (pv, nx) in zip(modes, vsynth.flags_for(s, modes))]


def shapes(maxbits):
    return [(cdim, cbits) for cbits in (1, 2, 3) for cdim in range(1, 9) if cdim * cbits <= maxbits]


def suite_f1class(tier, mine):
    sizes = (2, 3, 4, 5, 8, 16, 17, 64, 256) if tier == 'quick' else (2, 3, 4, 5, 6, 7, 8, 9, 15, 16, 17, 32, 33, 64, 128, 256, 257, 1024, 4096)
    # one class: every dimension x subclass bits x class-book size (smaller than, equal to and larger than the addressable range)
    for cbits in (1, 2, 3):
        for cdim in range(1, 9):
            for E in sizes:
                for lo in ('asc', 'desc') if (tier == 'thorough' and E & (E - 1)) else ('asc',):
                    if mine():
                        yield ('f1class', cdim, cbits, E, lo), (lambda a=([(cdim, cbits)], E, min(4, 63 // cdim), lo): build_f1class(*a))
    # one class book shared by two classes of different shape, sized for the bigger one (so the smaller one sees surplus bits)
    sh = shapes(8 if tier == 'quick' else 10)
    for a, b in itertools.combinations(sh, 2):
        E = 1 << max(a[0] * a[1], b[0] * b[1])
        if mine():
            yield ('f1share', a, b, E), (lambda a=([a, b], E, min(4, 63 // (a[0] + b[0]))): build_f1class(*a))
