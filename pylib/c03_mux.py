"""C03 phase N: physical streams whose links open with MANY beginning-of-stream pages (a Vorbis stream multiplexed with F foreign
logical streams), built with the framework's independent Ogg page writer (vlib.Page).

Every file is a VALID grouped/multiplexed Ogg physical stream: all BOS pages of a link come first, every logical stream has its own
serial number, consecutive page sequence numbers, correct CRCs, the BOS flag on its first page only; foreign payloads are not Vorbis
(except the optional second Vorbis stream, which vorbisfile must ignore: it decodes the first Vorbis stream of a link).

recipe (JSON-able dict, enough to rebuild the file for a replay):
  base='mux', F=<foreign streams>, vpos='first'|'middle'|'last'|<int k: foreign BOS pages before the Vorbis BOS page>,
  cont='bos'|'boseos'|'data'|'datalate', place='only'|'first'|'middle'|'last'|'first3'|'last2'|'all3',
  sv=None|'after'|'before' (one foreign stream is a second Vorbis stream, its BOS page after/before ours), vkind='tiny'|'enc'
Thorough only: sv='before' with cont='bos'/'boseos' puts a header-only Vorbis stream in front of ours; vorbisfile locks on to it, never sees
its comment/setup headers and refuses the file with a documented code (OV_EBADHEADER; OV_EREAD when the link is not the first) - accepted
by the oracle, not counted as a successful open.  Every other member is expected to open (vacuity guard in checks/c03.py).
"""
import c03_lib as L
from vlib import Page

FOREIGN_SERIAL0 = 0x7000
VORBIS_SERIAL = 0x4d55
PLACES = {          # chain shapes: 'M' = the multiplexed link, t/u = plain tiny links (mono 8 kHz / stereo 44.1 kHz)
    'only': 'M', 'first': 'Mu', 'middle': 'tMu', 'last': 'tuM', 'first3': 'Mtu', 'last2': 'tM', 'all3': 'MMM',
}
PLAIN = {'t': dict(npk=5, bs=7), 'u': dict(npk=3, ch=2, rate=44100, bs=8)}


def lace(n):
    l = []
    while n >= 255:
        l.append(255)
        n -= 255
    l.append(n)
    return l


def foreign_bos_payload(j):
    """arbitrary non-Vorbis first packets (vorbis_synthesis_idheader() wants 0x01 'vorbis')"""
    return (b'fishead\0' + bytes(56), bytes([0xc3, 0x01, 0x76, 0x6f, 0x00, 0xff, 0x80, (j * 29 + 7) & 0xff]), b'fakecodec-header', b'\x80theora' + bytes(35))[j % 4]


def vpos_index(vpos, F):
    if vpos == 'first':
        return 0
    if vpos == 'middle':
        return F // 2
    if vpos == 'last':
        return F
    return max(0, min(F, int(vpos)))


def mux_link(vpages, F, vpos, cont, sv=None, fserial0=FOREIGN_SERIAL0):
    """vpages: pages of a complete Vorbis link (page 0 = BOS page holding only the identification header, last page EOS).
    Returns the page list of the multiplexed link."""
    k = vpos_index(vpos, F)
    vserial = vpages[0].serial
    assert vpages[0].flags & 2 and vpages[-1].flags & 4 and len(vpages) >= 3
    # which foreign stream (if any) is the second Vorbis stream
    svj = None
    if sv == 'after':
        svj = k if k < F else None          # first foreign stream behind our BOS page
    elif sv == 'before':
        svj = k - 1 if k > 0 else None      # last foreign stream in front of our BOS page
    bos, follow = [], []                    # per foreign stream: BOS page, list of continuation pages (last one EOS) or []
    for j in range(F):
        serial = fserial0 + j
        assert serial != vserial
        if j == svj:
            # a second, complete (cont=data*) or header-only Vorbis stream: stereo 44.1 kHz, 256-sample blocks
            sp = L.tiny_link(serial, npk=4, ch=2, rate=44100, bs=8, comments=(b'TITLE=second',))
            b = sp[0].copy()
            rest = [p.copy() for p in sp[1:]] if cont in ('data', 'datalate') else []
        else:
            body = foreign_bos_payload(j)
            b = Page(2, 0, serial, 0, lace(len(body)), body)
            rest = []
            if cont in ('data', 'datalate'):
                d = bytes([(j * 13 + 5) & 0xff]) * (20 + 37 * (j % 9))
                rest = [Page(0, 1000 * (j + 1), serial, 1, lace(len(d)), d), Page(4, 1000 * (j + 1) + 1, serial, 2, [3], b'bye')]
        if cont == 'boseos' and not rest:
            b.flags |= 4                    # a one-page logical stream
        bos.append(b)
        follow.append(rest)
    out = bos[:k] + [vpages[0]] + bos[k:]
    # continuation: one foreign page after every non-final Vorbis page (round robin over the streams that still have more than
    # their final page left); everything that is left goes in front of (data) or behind (datalate) the Vorbis EOS page
    rr = 0
    for p in vpages[1:-1]:
        out.append(p)
        for _ in range(F):
            j = rr % F
            rr += 1
            if len(follow[j]) > 1:
                out.append(follow[j].pop(0))
                break
    tail = [q for f in follow for q in f]
    if cont == 'datalate':
        out += [vpages[-1]] + tail
    else:
        out += tail + [vpages[-1]]
    return out


def vorbis_link(vkind, serial, enc_pages=None):
    if vkind == 'enc':
        # encoder-made link (base file B1 of the check: zoo.link('A', 1, '3')), re-serialled
        out = []
        for p in enc_pages:
            q = p.copy()
            q.serial = serial
            out.append(q)
        return out
    return L.tiny_link(serial, npk=8, bs=7, comments=(b'TITLE=mux',))


def build(rec, enc_pages=None):
    """recipe -> (bytes, list of BOS-group sizes per link)"""
    shape = PLACES[rec['place']]
    pages, groups = [], []
    nm = 0
    for pos, kd in enumerate(shape):
        if kd == 'M':
            v = vorbis_link(rec.get('vkind', 'tiny'), VORBIS_SERIAL + nm, enc_pages)
            pages += mux_link(v, rec['F'], rec['vpos'], rec['cont'], rec.get('sv'), FOREIGN_SERIAL0 + 0x1000 * nm)
            groups.append(rec['F'] + 1)
            nm += 1
        else:
            pages += L.tiny_link(900 + pos, **PLAIN[kd])
            groups.append(1)
    return L.blob(pages), groups


def self_check(data, rec):
    """independent re-parse of a generated file: page CRCs, per-stream sequence numbers, BOS only on first pages, BOS group sizes"""
    import struct, vlib
    pages = vlib.parse_pages(data)
    if sum(p.size() for p in pages) != len(data):
        return 'trailing bytes'
    seqs, groups, run = {}, [], 0
    for p in pages:
        raw = bytearray(data[p.offset:p.offset + p.size()])
        stored = struct.unpack('<I', bytes(raw[22:26]))[0]
        raw[22:26] = b'\0\0\0\0'
        if vlib.ogg_crc(bytes(raw)) != stored:
            return 'crc'
        if p.flags & 2:
            if p.serial in seqs:
                return 'serial reused'
            seqs[p.serial] = 0
            if p.seq != 0:
                return 'bos seq'
            run += 1
        else:
            if run:
                groups.append(run)
                run = 0
            if p.serial not in seqs:
                return 'page before bos'
            seqs[p.serial] += 1
            if p.seq != seqs[p.serial]:
                return 'seq gap'
    if run:
        groups.append(run)
    want = [rec['F'] + 1 if c == 'M' else 1 for c in PLACES[rec['place']]]
    return None if groups == want else f'bos groups {groups} != {want}'


# ------------------------------------------------------------------ grids
F_QUICK = (1, 2, 3, 4, 5, 7, 8, 9, 15, 16, 17, 31, 33, 64)
F_THOROUGH = tuple(range(1, 18)) + (23, 24, 25, 31, 32, 33, 63, 64, 65, 127, 128, 129, 255, 256, 257)


def grid(tier):
    """list of recipes, enumerated completely"""
    out = []
    if tier == 'quick':
        for F in F_QUICK:
            for vpos in ('first', 'middle', 'last'):
                for place in ('only', 'first', 'middle', 'last'):
                    for cont in ('bos', 'boseos', 'data'):
                        for sv in (None, 'after'):
                            out.append(dict(base='mux', op='mux', F=F, vpos=vpos, place=place, cont=cont, sv=sv, vkind='tiny'))
        # encoder-made Vorbis link (real audio, 3 packets per page) in the middle of the BOS group
        for F in F_QUICK:
            for place in ('only', 'middle'):
                for cont in ('bos', 'data'):
                    out.append(dict(base='mux', op='mux', F=F, vpos='middle', place=place, cont=cont, sv=None, vkind='enc'))
    else:
        for F in F_THOROUGH:
            if F <= 17:
                vps = ['first', 'middle', 'last'] + ([1, F - 1] if 3 <= F <= 9 else [])
                places, conts, svs = ('only', 'first', 'middle', 'last', 'first3', 'last2', 'all3'), ('bos', 'boseos', 'data', 'datalate'), (None, 'after', 'before')
            elif F <= 65:
                vps, places, conts, svs = ['first', 'middle', 'last'], ('only', 'first', 'middle', 'last'), ('bos', 'boseos', 'data', 'datalate'), (None, 'after', 'before')
            else:
                vps, places, conts, svs = ['first', 'middle', 'last'], ('only', 'middle'), ('bos', 'data'), (None, 'after')
            for vpos in vps:
                for place in places:
                    for cont in conts:
                        for sv in svs:
                            out.append(dict(base='mux', op='mux', F=F, vpos=vpos, place=place, cont=cont, sv=sv, vkind='tiny'))
        for F in F_QUICK + (32, 128, 256):
            for vpos in ('first', 'middle', 'last'):
                for place in ('only', 'first', 'middle', 'last'):
                    for cont in ('bos', 'data', 'datalate'):
                        out.append(dict(base='mux', op='mux', F=F, vpos=vpos, place=place, cont=cont, sv=None, vkind='enc'))
    return out


# call sequences run on every handle (ops of harness/c03_extra.c); SENTINEL runs first (seekable) on every file and gates the rest
SENTINEL = ('x0', 'x1', 'x2', 'x-1', 'RE', 'bi', 'x0')                 # every query for every link (serialnumber(i), info, comment, totals, tells), read through
SEQS_QUICK = [
    ('ps%500', 'rf4096', 'pp%0', 'rf4096', 'rs%500', 'rf4096', 'ts%1000-1', 'rf4096', 'tp%500', 'rf4096', 'ps%1000', 'x0'),   # every seek kind
    ('PS%300', 'rf4096', 'PP%900', 'RS%500', 'rf4096', 'TS%500', 'TP%800', 'rf4096', 'x0'),                                     # every _lap seek
    ('h1', 'RN3', 'ps%500', 'RE', 'h0', 'x0', 'XL0', 'XR0'),                                                                    # halfrate, crosslap both ways
    ('RB', 'bi', 'x1', 'RB', 'bi', 'RE', 'x2', 'cl', 'cl'),                                                                     # across the link boundaries, clear twice
]
SEQS_THOROUGH = SEQS_QUICK + [
    ('rs0', 'RN3', 'rs%1000-1', 'rf4096', 'rs%1000', 'rf4096', 'x0'),
    ('pp%500', 'ri64', 'tp%0', 'rb7', 'ts%500', 'rB4096', 'ps%1000+1', 'ps-1', 'x0'),
    ('ps%250', 'RB', 'ps%750', 'RB', 'pp%1000-1', 'RE', 'x2'),
    ('XE0', 'XF0', 'rf1', 'h1', 'PS%500', 'RE', 'x9'),
    ('RE', 'ps0', 'RE', 'rs0', 'RE', 'x0'),
]
PART_SEQ = ('x0', 'rf4096', 'ps%500', 'x1', 'cl')                       # handle left PARTOPEN by ov_test_callbacks (mode p)
