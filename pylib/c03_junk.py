"""C03 family J: junk position x page structure product (executor harness/c03_junk.c).

Space (bounded, enumerated completely; nothing sampled):
  base link    encoder-made links (zoo kind M: 44.1 kHz stereo noise, packets of 150..800 bytes) re-paged by the framework's own page
               writer into STYLES: p1 (one packet per page) | split2 (every packet of >= 2 lacing segments split over two pages: the second
               one is 'continued' and starts no packet) | span3 (packets of >= 3 segments over three pages, the middle one continued with
               granule -1) | nat (pages of about 4 KiB holding whole packets);  sizes: small (9 KB), large (64 KB = 1 x CHUNKSIZE, so
               that seeks really bisect and _get_prev_page hops), thorough also xl (126 KB)
  placement    S single link | C0 first link of a 2-link chain | C1 last link of a 2-link chain (other link: intact 8 kHz mono link)
  gap          every gap between two consecutive pages of the re-paged link incl. the gap after its last page (and, for C1, the gap
               before its BOS page) on the small base; on the larger bases the gaps around the first / middle / last multi-page packet
               (before its first page, between each two of its pages, after its last page) and the first / middle / last page gap
  junk         one run from JUNK per file (1 deviation; thorough: 2 runs in every pair of gaps of the small single-link files, alphabet JUNK_PAIR)
               JUNK: 16 zeros | 300 x 0xff | 5000 bytes of noise with bare capture patterns | 'OggS' + plausible header claiming a 65000-byte
               page, wrong CRC, exactly 65000 bytes | the same header followed by 64 bytes only (claim reaches over the following pages / past
               EOF) | the same header at the start of 140000 bytes | 70000 / 140000 bytes without any capture pattern (more than CHUNKSIZE: the
               backward scan needs several hops) | a truncated copy of the previous page | a valid page of a foreign serial number
  open modes   s n t u p, short query/read sequences
  seeks        every target of the file's target set (granule position of every page -1/0/+1, the middle of every multi-page packet; raw: page
               offsets -1/0/+1, inside the junk), each followed by a short read, the tell triple and one more seek of the same kind: on a FRESH
               handle per (file, seek), and in a second pass all targets of a kind in a row on ONE handle (sync buffer already grown by earlier
               seeks).  Seek kinds: raw, pcm, pcm_page, time, time_page and the five _lap variants.
  bounds       plan(tier) lists the rows (base, style, placement, gap set, target scope, seek kinds); every row is enumerated completely.
               quick: small/S every gap, targets within 1 page of the junk, all 10 kinds; small/C0,C1 and large: the gap sites, targets
               within 1 page, 4 resp. 10 (S) / 2 (C0,C1) kinds.  thorough: small/S every gap x ALL targets of the file (ps pp rs PS), small/C0,C1
               every gap x near targets x 10 kinds, large and xl: sites x targets within 2 pages x 10 (S) / 4 kinds, plus the 2-run files.
Oracle = C03's: ASan (incl. the instrumented ogg_page accessors), per-case CPU watchdog, documented return codes, open/clear flags.
Landing positions are NOT judged (C07/C08 own them); they are recorded in the evidence (digest + histogram).
"""
import os, re, json, time, hashlib, collections, itertools
import vlib, zoo
import c03_lib as L
from vlib import Page

CHUNKSIZE = 65536
STYLES = ('p1', 'split2', 'span3', 'nat')
PLACES = ('S', 'C0', 'C1')
JUNK = ['z16', 'ff300', 'noise5000', 'bogus65000', 'bogus_short', 'bogus_long', 'raw70000', 'raw140000', 'truncprev', 'foreign']
JUNK_PAIR = ['bogus65000', 'raw70000']      # thorough: alphabet of the 2-run files
KINDS = ('ps', 'pp', 'rs', 'ts', 'tp', 'PS', 'PP', 'RS', 'TS', 'TP')
NEAR = 2
SERIAL = {'small': 3301, 'large': 3302, 'xl': 3303}
BASE_KW = {'small': ('M', dict(n=5000)), 'large': ('M', dict(n=80000)), 'xl': ('N', dict())}
OTHER_SERIAL = 3310
OPEN_SEQS = {'s': ('x0', 'rf4096', 'bi', 'RE', 'x0'), 'n': ('x0', 'rf4096', 'bi', 'RE', 'x0'), 't': ('x0', 'rf4096', 'RE', 'x0'),
             'u': ('x0', 'rf4096', 'RE', 'x0'), 'p': ('x0', 'rf4096', 'x0')}


def lace(n):
    l = []
    while n >= 255:
        l.append(255)
        n -= 255
    l.append(n)
    return l


# ------------------------------------------------------------------ base links and re-paging
class Link:
    """A re-paged link: pages (vlib.Page), their encodings, per-page role and per-packet page spans (our own bookkeeping)."""

    def __init__(self, size, style, pages, roles, spans, rate, total):
        self.size, self.style, self.pages, self.roles, self.spans, self.rate, self.total = size, style, pages, roles, spans, rate, total
        self.enc = [p.encode() for p in pages]
        self.serial = pages[0].serial


def repage(size, style):
    kind, kw = BASE_KW[size]
    serial = SERIAL[size]
    path, m = zoo.link(kind, serial, '1', **kw)
    src = vlib.parse_pages(open(path, 'rb').read())
    pk = vlib.packets_of(src, serial)
    first_audio = pk[3][3]
    out = [p.copy() for p in src[:first_audio]]
    roles = ['hdr'] * len(out)
    spans = []          # per audio packet: (first page index, last page index, granule, previous granule)
    seq = out[-1].seq + 1
    aud = [(b, g) for b, g, _, _ in pk[3:]]
    assert all(g >= 0 for _, g in aud)

    def emit(cont, lac, body, g, role):
        nonlocal seq
        out.append(Page(1 if cont else 0, g, serial, seq, lac, body))
        roles.append(role)
        seq += 1

    prev_g = 0
    if style == 'nat':
        lac, body, g0, firstpk = [], b'', -1, 0
        for k, (b, g) in enumerate(aud):
            lac += lace(len(b))
            body += b
            spans.append((len(out), len(out), g, prev_g))
            prev_g = g
            if len(body) > 4096 or len(lac) > 200 or k == len(aud) - 1:
                emit(0, lac, body, g, 'multi')
                lac, body = [], b''
    else:
        for b, g in aud:
            segs = lace(len(b))
            cuts = [0, len(segs)]
            if style == 'split2' and len(segs) >= 2:
                cuts = [0, len(segs) // 2, len(segs)]
            elif style == 'span3' and len(segs) >= 3:
                cuts = [0, len(segs) // 3, 2 * len(segs) // 3, len(segs)]
            elif style == 'span3' and len(segs) == 2:
                cuts = [0, 1, 2]
            first = len(out)
            o = 0
            for ci, (a, e) in enumerate(zip(cuts, cuts[1:])):
                part = segs[a:e]
                n = sum(part)
                lastpart = ci == len(cuts) - 2
                role = 'whole' if len(cuts) == 2 else ('head' if ci == 0 else ('tail' if lastpart else 'mid'))
                emit(ci > 0, part, b[o:o + n], g if lastpart else -1, role)
                o += n
            spans.append((first, len(out) - 1, g, prev_g))
            prev_g = g
    out[-1].flags |= 4
    return Link(size, style, out, roles, spans, m['rate'], aud[-1][1]), (src, pk)


def self_check(link, srcinfo):
    """the re-paged link is a well-formed logical stream carrying exactly the encoder's packets and granule positions"""
    src, pk = srcinfo
    blob = b''.join(link.enc)
    try:
        pg = vlib.parse_pages(blob)
    except ValueError as e:
        return f'{link.size}/{link.style}: {e}'
    for i, p in enumerate(pg):
        raw = bytearray(blob[p.offset:p.offset + p.size()])
        stored = int.from_bytes(raw[22:26], 'little')
        raw[22:26] = b'\0\0\0\0'
        if vlib.ogg_crc(bytes(raw)) != stored or p.seq != i or p.serial != link.serial:
            return f'{link.size}/{link.style}: page {i} CRC/sequence/serial'
    pk2 = vlib.packets_of(pg, link.serial)
    if [b for b, _, _, _ in pk2] != [b for b, _, _, _ in pk]:
        return f'{link.size}/{link.style}: packets differ after re-paging'
    g1 = [g for _, g, _, _ in pk[3:]]
    g2 = [g for _, g, _, _ in pk2[3:]]
    if link.style != 'nat' and g1 != g2:
        return f'{link.size}/{link.style}: granule positions differ after re-paging'
    if not (pg[0].flags & 2) or not (pg[-1].flags & 4):
        return f'{link.size}/{link.style}: BOS/EOS'
    return None


# ------------------------------------------------------------------ junk alphabet
_garb = {}


def garbage(n, seed=7):
    if (n, seed) not in _garb:
        _garb[(n, seed)] = L._garbage(n, seed)      # never contains 'O': no accidental capture pattern
    return _garb[(n, seed)]


def bogus_header(serial, crc=0xdeadbeef):
    """'OggS' + a plausible page header (version 0, granule 12345, the link's own serial number) whose lacing table claims a
    65000-byte page; the stored CRC is wrong."""
    lac = [255] * 253 + [203, 0]
    h = Page(0, 12345, serial, 7, lac, b'').encode(fixcrc=False, crc=crc)
    assert len(h) + sum(lac) == 65000
    return h


def junk_bytes(name, link, gap):
    serial = link.serial
    if name == 'z16':
        return bytes(16)
    if name == 'ff300':
        return b'\xff' * 300
    if name == 'noise5000':
        return L.junk_fill('oggs', 5000, 3)
    if name == 'bogus65000':          # the claim fits the junk run exactly
        h = bogus_header(serial)
        return h + garbage(65000 - len(h))
    if name == 'bogus_short':         # the claim reaches far beyond the junk run (over the following pages / past the end of the file)
        return bogus_header(serial) + garbage(64)
    if name == 'bogus_long':          # the claim covers only the start of a 140000-byte run
        h = bogus_header(serial)
        return h + garbage(140000 - len(h))
    if name == 'raw70000':
        return garbage(70000)
    if name == 'raw140000':
        return garbage(140000)
    if name == 'truncprev':           # a truncated copy of the previous page (valid header, body cut in the middle)
        if gap == 0:
            return None
        e = link.enc[gap - 1]
        return e[:len(e) - max(1, len(link.pages[gap - 1].body) // 2)]
    if name == 'foreign':             # a stale page of a foreign serial number, valid CRC
        body = bytes((i * 11 + 5) & 0xff for i in range(600))
        return Page(0, 777, 0x7e57f00d, 5, lace(len(body)), body).encode()
    raise ValueError(name)


def junk_self_check(link):
    bad = []
    for name in ('bogus65000', 'bogus_short', 'bogus_long'):
        j = bytearray(junk_bytes(name, link, 1))
        stored = int.from_bytes(j[22:26], 'little')
        j[22:26] = b'\0\0\0\0'
        if vlib.ogg_crc(bytes(j[:65000])) == stored:
            bad.append(name + ': CRC accidentally right')
    for name in ('raw70000', 'raw140000', 'bogus65000'):
        if b'OggS' in junk_bytes(name, link, 1)[4:]:
            bad.append(name + ': contains a capture pattern')
    f = junk_bytes('foreign', link, 1)
    p = vlib.parse_pages(f)
    raw = bytearray(f)
    stored = int.from_bytes(raw[22:26], 'little')
    raw[22:26] = b'\0\0\0\0'
    if len(p) != 1 or vlib.ogg_crc(bytes(raw)) != stored:
        bad.append('foreign: not a valid page')
    return bad


# ------------------------------------------------------------------ files
def gaps_of(link, place, mode):
    """gap g = between page g-1 and page g of the re-paged link (g = npages: after its last page; g = 0: before its BOS page, C1 only)"""
    n = len(link.pages)
    allg = list(range(0 if place == 'C1' else 1, n + 1))
    if mode == 'all':
        return allg
    multi = [s for s in link.spans if s[1] > s[0]]
    sel = {1, n // 2, n}      # first / middle / last page gap (after the BOS page, mid link, after the last page)
    if place == 'C1':
        sel.add(0)
    if multi:
        for s in (multi[0], multi[len(multi) // 2], multi[-1]):
            sel |= set(range(s[0], s[1] + 2))        # before the first page of the packet ... after its last page
    else:
        first_audio = link.roles.index('multi') if 'multi' in link.roles else link.roles.index('whole')
        sel |= {first_audio, first_audio + 1, n - 1}
    return sorted(g for g in sel if g in allg)


class JFile:
    __slots__ = ('recipe', 'size', 'style', 'place', 'gaps', 'page_off', 'junk_iv', 'pcm_base', 'time_base', 'length', 'link', 'index')


def assemble(link, place, other, gapjunk):
    """gapjunk: list of (gap, junk name).  Returns (bytes, JFile) or None if a junk kind does not apply."""
    jb = {}
    for g, name in gapjunk:
        b = junk_bytes(name, link, g)
        if b is None:
            return None
        jb[g] = b
    parts, off = [], 0
    f = JFile()
    f.page_off, f.junk_iv = [], []
    if place == 'C1':
        parts.append(other['blob'])
        off = len(other['blob'])
    for i in range(len(link.pages) + 1):
        if i in jb:
            f.junk_iv.append((off, off + len(jb[i])))
            parts.append(jb[i])
            off += len(jb[i])
        if i < len(link.pages):
            f.page_off.append(off)
            parts.append(link.enc[i])
            off += len(link.enc[i])
    if place == 'C0':
        parts.append(other['blob'])
        off += len(other['blob'])
    f.size, f.style, f.place, f.gaps, f.length, f.link = link.size, link.style, place, [g for g, _ in gapjunk], off, link
    f.pcm_base = other['total'] if place == 'C1' else 0
    f.time_base = other['total'] / other['rate'] if place == 'C1' else 0.0
    f.recipe = {'base': 'junkpage', 'size': link.size, 'style': link.style, 'place': place, 'junk': [[g, n] for g, n in gapjunk]}
    return b''.join(parts), f


def targets(f, scope):
    """pcm / raw target lists of a file.  scope 'all' | 'near<k>' (pages within k pages of a junk run; of the middle of the link on an intact file)"""
    link = f.link
    n = len(link.pages)
    if scope.startswith('near'):
        k = int(scope[4:] or NEAR)
        keep = set()
        for g in (f.gaps or [n // 2]):
            keep |= set(range(g - k - 1, g + k + 1))
    else:
        keep = set(range(n))
    pcm, raw = set(), set()
    for i, p in enumerate(link.pages):
        if i not in keep or link.roles[i] == 'hdr':
            continue
        if p.gran >= 0:
            pcm |= {p.gran - 1, p.gran, p.gran + 1}
        raw |= {f.page_off[i] - 1, f.page_off[i], f.page_off[i] + 1}
    for (a, e, g, pg) in link.spans:
        if e > a and (a in keep or e in keep):
            pcm.add((pg + g) // 2)
    for (a, e) in f.junk_iv:
        raw |= {a + 1, (a + e) // 2}
    pcm = sorted(t for t in pcm if 0 <= t <= link.total + 1)
    raw = sorted(t for t in raw if 0 <= t <= f.length)
    return pcm, raw


def target_text(f, kind, t):
    if kind in ('rs', 'RS'):
        return f'{kind}{t}'
    if kind[0] in 'pP':
        return f'{kind}{f.pcm_base + t}'
    return f'{kind}{f.time_base + t / f.link.rate:.6f}'


def seek_cases(f, scope, kinds):
    """fresh-handle cases (seek, short read, tell, one more seek of the kind, tell) and one walk per kind on one handle"""
    pcm, raw = targets(f, scope)
    fresh, walks = [], []
    for kind in kinds:
        T = raw if kind in ('rs', 'RS') else pcm
        if not T:
            continue
        txt = [target_text(f, kind, t) for t in T]
        for j in range(len(txt)):
            fresh.append((txt[j], 'rf256', 'tl', txt[(j + 1) % len(txt)], 'tl'))
        w = []
        for t in txt:
            w += [t, 'rf256', 'tl']
        walks.append(tuple(w))
    return fresh, walks


# ------------------------------------------------------------------ trace reading (coverage observations, nothing judged)
_TOK = re.compile(r'([SEG])(-?\d+)')


def tail_only_offsets(f):
    """file offsets of pages that, submitted alone to a fresh ogg_stream, yield no packet although they carry a granule position:
    continued pages holding nothing but the end of the packet begun earlier"""
    out = {}
    for i, p in enumerate(f.link.pages):
        if (p.flags & 1) and p.gran >= 0 and sum(1 for l in p.lacing if l < 255) == 1 and p.lacing[-1] < 255:
            out[f.page_off[i]] = i
    return out


def read_trace(f, tails, tr):
    """-> dict of observations for one traced seek call"""
    toks = [(k, int(v)) for k, v in _TOK.findall(tr)]
    obs = {}
    seeks = [(i, v) for i, (k, v) in enumerate(toks) if k == 'S']
    for a, (i, x) in enumerate(seeks[:-1]):
        j, y = seeks[a + 1]
        if x in tails and y == max(0, x - CHUNKSIZE):
            lo = y
            obs['rewind'] = 1
            if any(s < x and e > lo for s, e in f.junk_iv):
                obs['rewind_junk_in_chunk'] = 1
            if any(e == x for s, e in f.junk_iv):
                obs['rewind_junk_adjacent'] = 1      # junk between the previous page and the tail page: the rescan ends on a failed page search
            # further backward hops of the same _get_prev_page call (nothing found in the chunk: junk longer than CHUNKSIZE)
            h = 2
            while a + h < len(seeks) and seeks[a + h - 1][1] > 0 and seeks[a + h][1] == max(0, x - h * CHUNKSIZE):
                h += 1
            if h > 2:
                obs['rewind_two_hops'] = 1
            nxt = seeks[a + h][0] if a + h < len(seeks) else len(toks)
            if any(k == 'G' for k, _ in toks[j:nxt]):
                obs['rewind_buffer_grew'] = 1      # the sync buffer was reallocated while _get_prev_page was rescanning
    if any(k == 'G' for k, _ in toks):
        obs['buffer_grew'] = 1
    return obs


# ------------------------------------------------------------------ the phase
def plan(tier):
    """enumeration plan: list of (size, style, place, gap mode, junk names, target scope, seek kinds)"""
    P = []
    if tier == 'quick':
        for st in STYLES:
            P.append(('small', st, 'S', 'all', JUNK, 'near1', KINDS))
            for pl in ('C0', 'C1'):
                P.append(('small', st, pl, 'sites', JUNK, 'near1', ('pp', 'ts', 'RS', 'PS')))
            P.append(('large', st, 'S', 'sites', JUNK, 'near1', KINDS))
            for pl in ('C0', 'C1'):
                P.append(('large', st, pl, 'sites', JUNK, 'near1', ('pp', 'tp')))
    else:
        for st in STYLES:
            for pl in PLACES:
                # all targets of the file on the single-link files (there without the time / page-lap wrappers), the near ones with every kind in chains
                P.append(('small', st, pl, 'all', JUNK, 'all', ('ps', 'pp', 'rs', 'PS')) if pl == 'S' else ('small', st, pl, 'all', JUNK, 'near1', KINDS))
                P.append(('large', st, pl, 'sites', JUNK, 'near2', KINDS if pl == 'S' else ('pp', 'ts', 'RS', 'PS')))
            P.append(('xl', st, 'S', 'sites', JUNK, 'near2', KINDS))
    return P


def run(chk, tier, judge_op, doc_open, name_of, crash_key, hang_key):
    """Generates the files, runs the cases (never cut by the check's deadline), judges with C03's oracle, records coverage and
    returns (ok, text) of the family's binding vacuity guards."""
    t0 = time.time()
    exe = vlib.harness('asan', 'c03_junk')
    d = os.path.join(vlib.zoo_dir(), 'c03j_' + tier)
    os.makedirs(d, exist_ok=True)
    op_, om = zoo.link('A', OTHER_SERIAL, '3')
    other = {'blob': open(op_, 'rb').read(), 'total': om['n'], 'rate': om['rate']}
    links, problems = {}, []
    for size in sorted({p[0] for p in plan(tier)}):
        for st in STYLES:
            lk, srcinfo = repage(size, st)
            links[(size, st)] = lk
            e = self_check(lk, srcinfo)
            if e:
                problems.append(e)
    problems += junk_self_check(next(iter(links.values())))
    chk.guard(not problems, f'family J: re-paged links re-parse as well-formed streams with the encoder\'s packets and granule positions; bogus headers have a wrong CRC; raw junk holds no capture pattern {problems}')

    files, byhash, paths = [], {}, []

    def add_file(blob, f):
        h = hashlib.sha1(blob).digest()
        if h in byhash:
            return None
        f.index = len(files)
        byhash[h] = f.index
        p = os.path.join(d, f'{f.index:05d}.ogg')
        with open(p, 'wb') as fh:
            fh.write(blob)
        files.append(f)
        paths.append(p)
        return f

    fplan = []      # (JFile, scope, kinds)
    stats = collections.Counter()
    for size, st, pl, gmode, junks, scope, kinds in plan(tier):
        lk = links[(size, st)]
        # the intact file of this (base, style, placement) runs the same sweep: reference rows in the evidence, and the rewind guard's
        # denominator (rewinds happen without junk too)
        r = assemble(lk, pl, other, [])
        f = add_file(*r)
        if f:
            fplan.append((f, 'all' if size == 'small' else 'near3', kinds))
        for g in gaps_of(lk, pl, gmode):
            for jn in junks:
                r = assemble(lk, pl, other, [(g, jn)])
                if r is None:
                    stats['junk_not_applicable'] += 1
                    continue
                f = add_file(*r)
                if f is None:
                    stats['duplicate_content'] += 1
                    continue
                fplan.append((f, scope, kinds))
    if tier == 'thorough':
        for st in STYLES:
            lk = links[('small', st)]
            G = gaps_of(lk, 'S', 'all')
            for g1, g2 in itertools.combinations(G, 2):
                for j1 in JUNK_PAIR:
                    for j2 in JUNK_PAIR:
                        r = assemble(lk, 'S', other, [(g1, j1), (g2, j2)])
                        f = add_file(*r)
                        if f:
                            fplan.append((f, 'near1', ('ps', 'pp')))
    lf = os.path.join(d, 'list.txt')
    with open(lf, 'w') as fh:
        fh.write('\n'.join(paths) + '\n')

    # stage 1: every file in every open mode
    cases, meta = [], []
    for f, scope, kinds in fplan:
        for mode, seq in OPEN_SEQS.items():
            cases.append(f"{f.index} {mode} {' '.join(seq)}")
            meta.append((f.index, mode, seq, 'open'))
    WD = 4
    res = L.run_batches(exe, lf, cases, timeout_s=WD, chunk=60, tag='c03j1')
    opened = set()
    for (fi, mode, seq, _), r in zip(meta, res):
        if mode == 's' and r and r.startswith('O=0 '):
            opened.add(fi)
    # stage 2: seek sweeps on every file whose seekable open succeeded (a failed open leaves the all-zero handle that phases A/A2 cover)
    n1 = len(cases)
    for f, scope, kinds in fplan:
        if f.index not in opened:
            stats['files_not_swept_seekable_open_failed'] += 1
            continue
        fresh, walks = seek_cases(f, scope, kinds)
        for ops in fresh:
            cases.append(f"{f.index} s {' '.join(ops)}")
            meta.append((f.index, 's', ops, 'fresh'))
        for ops in walks:
            cases.append(f"{f.index} s {' '.join(ops)}")
            meta.append((f.index, 's', ops, 'walk'))
    res += L.run_batches(exe, lf, cases[n1:], timeout_s=WD, chunk=300, tag='c03j2')
    t_run = time.time() - t0

    # ---------------------------------------------------------------- judge
    tails = {}
    obs_total = collections.Counter()
    files_with = collections.defaultdict(set)
    open_codes = collections.Counter()
    seek_codes = collections.Counter()
    landing = collections.Counter()
    dig = hashlib.sha256()
    classes = set()
    samples = []
    nviol = 0
    for k, ((fi, mode, ops, what), r) in enumerate(zip(meta, res)):
        f = files[fi]
        dres = L.parse_result(r)
        chk.cov['evaluations'] += 1
        replay = {'case': cases[k], 'recipe': f.recipe, 'mode': mode, 'ops': list(ops), 'len': '-', 'ibytes': 0, 'file_hex': None}
        desc = f"family J file={json.dumps(f.recipe, sort_keys=True)} mode={mode} ops={' '.join(ops)}"
        raw = dres.get('raw')
        if raw is not None:
            nviol += 1
            if raw == 'TIMEOUT':
                chk.violation(hang_key(f.recipe, {'ops': ops}, dres.get('stack', '')), f'non-termination (CPU watchdog {WD} s): {desc} :: {dres.get("stack", "")[:900]}', replay)
                continue
            if raw.startswith(('DIED rc=2 ', 'BADCASE', 'BADOP', 'NOOUTPUT')):
                raise SystemExit('BROKEN-CHECK: c03_junk executor failure: ' + raw[:300] + ' on ' + cases[k])
            key, kd = crash_key(raw, f.recipe, {'ops': ops})
            chk.violation(key, kd + ': ' + desc + ' :: ' + raw[:700], replay)
            continue
        o = dres['O']
        for fl in dres['F']:
            chk.violation('flag_' + fl, f'{fl}: {desc}', replay)
        if o not in doc_open:
            chk.violation(f'open_returns_{name_of.get(o, o)}', f'open returned undocumented {name_of.get(o, o)}: {desc}', replay)
        open_codes[f'{mode}:{name_of.get(o, o)}'] += 1
        tr = dres.get('T', '-').split(';')
        sig = []
        last_seek = None
        for opi, (op, tok) in enumerate(zip(ops, dres['R'])):
            if op == 'tl':
                rt, pt, tt = tok.split('/')
                why = None if (int(rt) >= 0 or int(rt) == -131) else f'ov_raw_tell returned {rt}'
                sig.append('t')
                if last_seek is not None:
                    kind, tgt, rc = last_seek
                    dig.update(f'{fi}|{what}|{opi}|{kind}{tgt}|{rc}|{tok}\n'.encode())
                    if rc != 0:
                        landing[kind + ':failed'] += 1
                    elif kind[0] in 'pP':
                        want = int(tgt)
                        landing[kind + (':exact' if int(pt) == want else ':before' if int(pt) < want else ':after')] += 1
                    else:
                        landing[kind + ':ok'] += 1
                    last_seek = None
            else:
                why = judge_op(op, tok, mode, o == 0)
                if op[0] == 'x':
                    sig.append('q')
                else:
                    v = int(tok)
                    sig.append(name_of.get(v, '+' if v > 0 else '0'))
                if op[:2] in KINDS:
                    last_seek = (op[:2], op[2:], int(tok))
                    seek_codes[f'{op[:2]}:{name_of.get(int(tok), int(tok))}'] += 1
                    if opi < len(tr) and tr[opi] != '-':
                        if fi not in tails:
                            tails[fi] = tail_only_offsets(f)
                        ob = read_trace(f, tails[fi], tr[opi])
                        for kk in ob:
                            obs_total[(what, kk)] += 1
                            files_with[kk].add(fi)
            if why:
                chk.violation('rc_' + why.replace(' ', '_'), f'{why} at op #{opi} ({op}): {desc} R={dres["R"][:12]}', replay)
        # outcome class: (style, placement, junk kinds, gap role, open mode, open code, per-call outcome codes of the first 5 calls)
        jn = tuple(n for _, n in f.recipe['junk'])
        role = tuple((f.link.roles[g - 1] if g > 0 else 'bos-') + '|' + (f.link.roles[g] if g < len(f.link.roles) else 'end') for g, _ in f.recipe['junk'])
        cls = (f.style, f.place, jn, role, mode, o, tuple(sig[:5]))
        if jn and (o != 0 or any(x not in ('+', '0', 'q', 't') for x in sig[:5])):
            if cls not in classes and len(samples) < 6 and len(classes) % 53 == 0:
                samples.append({'recipe': f.recipe, 'mode': mode, 'ops': list(ops)[:5], 'open': o, 'results': dres['R'][:5]})
            classes.add(cls)

    by_what = collections.Counter(w for _, _, _, w in meta)
    rew = {k: obs_total[('fresh', k)] + obs_total[('walk', k)] for k in ('rewind', 'rewind_junk_in_chunk', 'rewind_junk_adjacent', 'rewind_buffer_grew', 'rewind_two_hops', 'buffer_grew')}
    need = 2000 if tier == 'quick' else 10000
    g1 = rew['rewind_junk_in_chunk'] >= need and rew['rewind_junk_adjacent'] >= need // 2
    g2 = len(files_with['rewind_buffer_grew']) >= 5 and obs_total[('fresh', 'rewind_buffer_grew')] >= 20 and obs_total[('walk', 'rewind_buffer_grew')] >= 1
    g3 = rew['rewind_two_hops'] >= need // 10
    text = (f"family J: seeks whose continued-packet rewind (_get_prev_page entered from ov_pcm_seek_page: seek callback to a tail-only page followed by a "
            f"seek callback CHUNKSIZE before it) rescanned a chunk holding junk: {rew['rewind_junk_in_chunk']} (>= {need}), with the junk directly in front of the "
            f"tail page: {rew['rewind_junk_adjacent']} (>= {need // 2}); files on which the ogg_sync buffer grew (realloc) during such a rewind: "
            f"{len(files_with['rewind_buffer_grew'])} (>= 5; seeks on a fresh handle: {obs_total[('fresh', 'rewind_buffer_grew')]} >= 20, on a handle that had seeked before: "
            f"{obs_total[('walk', 'rewind_buffer_grew')]} >= 1); rewinds that needed more than one backward hop: {rew['rewind_two_hops']} (>= {need // 10})")
    ok = g1 and g2 and g3
    chk.guard(ok, text)
    chk.cov['junk_page_phase'] = {
        'files': len(files), 'files_swept': len(opened), 'cases_executed': len(cases), 'cases_by_kind': dict(by_what),
        'styles': list(STYLES), 'placements': list(PLACES), 'junk_alphabet': JUNK, 'seek_kinds': list(KINDS),
        'plan': [[a, b, c, g, s, list(kk)] for a, b, c, g, _, s, kk in plan(tier)],
        'pages_per_link': {f'{k[0]}/{k[1]}': len(v.pages) for k, v in links.items()},
        'open_codes': dict(sorted(open_codes.items())), 'seek_codes': dict(sorted(seek_codes.items())),
        'trace_observations_fresh_handle': {k: v for (w, k), v in sorted(obs_total.items()) if w == 'fresh'},
        'trace_observations_one_handle_walk': {k: v for (w, k), v in sorted(obs_total.items()) if w == 'walk'},
        'files_with_observation': {k: len(v) for k, v in sorted(files_with.items())},
        'landing_histogram_not_judged': dict(sorted(landing.items())), 'landing_digest_not_judged': dig.hexdigest()[:32],
        'distinct_outcome_classes_nontrivial': len(classes), 'samples': samples, 'stats': dict(stats),
        'wall_s': round(time.time() - t0, 1), 'wall_s_generate_and_run': round(t_run, 1),
        'rule': 'family J is counted here only; it feeds evaluations but neither distinct_nontrivial nor any of the older guards',
    }
    chk.assumptions.append('family J (junk x page structure): landing positions after seeks over junk are not judged (C07/C08 own positions); they are recorded '
                           '(landing_histogram_not_judged / landing_digest_not_judged)')
    return ok, text


def build_file(recipe):
    """recipe -> bytes (replay)"""
    lk, _ = repage(recipe['size'], recipe['style'])
    op_, om = zoo.link('A', OTHER_SERIAL, '3')
    other = {'blob': open(op_, 'rb').read(), 'total': om['n'], 'rate': om['rate']}
    blob, _f = assemble(lk, recipe['place'], other, [(g, n) for g, n in recipe['junk']])
    return blob


def replay(r, judge_op, doc_open):
    vlib.build('asan', 'plain')
    exe = vlib.harness('asan', 'c03_junk')
    d = os.path.join(vlib.zoo_dir(), 'c03j_replay')
    os.makedirs(d, exist_ok=True)
    fp = os.path.join(d, 'file.ogg')
    open(fp, 'wb').write(build_file(r['recipe']))
    lf = os.path.join(d, 'list.txt')
    open(lf, 'w').write(fp + '\n')
    case = f"0 {r['mode']} {' '.join(r['ops'])}"
    out = L.run_batches(exe, lf, [case], timeout_s=30, chunk=1, tag='c03jreplay')[0]
    print('case:', case)
    print('observed:', (out or 'NOOUTPUT')[:1500])
    dres = L.parse_result(out)
    if dres.get('raw') is not None or dres['F'] or dres['O'] not in doc_open:
        return 1
    for op, tok in zip(r['ops'], dres['R']):
        if op == 'tl':
            rt = int(tok.split('/')[0])
            if not (rt >= 0 or rt == -131):
                return 1
        elif judge_op(op, tok, r['mode'], dres['O'] == 0):
            return 1
    return 0
