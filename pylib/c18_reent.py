"""C18 family REENT: callback-granularity interleaving of two independent vorbisfile threads (executor harness/c18_reent.c).

The yield points of libvorbisfile are exactly the application callbacks (read/seek/tell of ov_callbacks, the filter of
ov_read_filter).  For thread A = one operation opA on its own handle(s), started from a prepared position, the executor counts
the K callback invocations opA makes alone and then re-executes the scenario for EVERY i < K with thread B's complete operation
opB (own handles, own file with other channel count / block sizes) running inside invocation i: all schedules of the two
operations with one preemption at callback granularity.  Oracle: A's and B's complete observations are bit-identical to their
solo observations.  Enumerated: file pairings x prepared positions x opA alphabet x i < K x opB alphabet; realised on one OS
thread (mode I), on two OS threads handing over by semaphores (mode T), with AddressSanitizer for a sub-alphabet, and (thorough)
with two preemptions (mode N: A stops at its callback i, B stops at its callback j, A completes, B completes; all (i,j)).
"""
import os, re, time, shutil, tempfile, collections, itertools
import vlib

READS = ['r2', 'r1', 'rf', 'rq']
SEEKS = ['ps', 'pp', 'rs', 'ts', 'tp']
LAPS = ['PS', 'PP', 'RS', 'TS', 'TP']
OP_DOC = {'r2': 'ov_read 16 bit', 'r1': 'ov_read 8 bit unsigned', 'rf': 'ov_read_float', 'rq': 'ov_read_filter with a filter callback',
          'ps': 'ov_pcm_seek', 'pp': 'ov_pcm_seek_page', 'rs': 'ov_raw_seek', 'ts': 'ov_time_seek', 'tp': 'ov_time_seek_page',
          'PS': 'ov_pcm_seek_lap', 'PP': 'ov_pcm_seek_page_lap', 'RS': 'ov_raw_seek_lap', 'TS': 'ov_time_seek_lap', 'TP': 'ov_time_seek_page_lap',
          'xl': 'ov_crosslap(h1,h2)', 'h1': 'ov_halfrate(h,1)', 'oo': 'ov_open_callbacks of a second handle'}
POS_DOC = {'P0': 'fresh handle', 'P1': 'mid-block, 5 decoded samples pending', 'P5': 'block boundary in mid-stream, nothing pending',
           'P2': 'exactly at the end of link 0 of the chain', 'P3': '3 samples before the end of link 0 of the chain', 'Q1': 'P1 on a half-rate handle'}


def opk(op):
    return op[:2]


def is_lap(op):
    return opk(op) in LAPS or opk(op) == 'xl'


def files():
    """four physical streams of different shape; index = position in the executor's file list"""
    a, ma = vlib.mkzoo('c18r_a', rate=8000, ch=1, n=9000, q=0.3, sig='mix', serial=1811, tag='C18RA', pages='flush')
    b, mb = vlib.mkzoo('c18r_b', rate=44100, ch=2, n=16000, q=0.4, sig='mix', serial=1812, tag='C18RB', pages=2)
    l0 = vlib.mkzoo('c18r_c0', rate=11025, ch=2, n=6000, q=0.3, sig='sine', serial=1813, tag='C18RC0', pages='flush')
    l1 = vlib.mkzoo('c18r_c1', rate=44100, ch=1, n=9000, q=0.2, sig='mix', serial=1814, tag='C18RC1', pages=3)
    c, mc = vlib.chain('c18r_c', [l0, l1])
    d, md = vlib.mkzoo('c18r_d', rate=22050, ch=2, n=9000, q=0.5, sig='noise', serial=1815, tag='C18RD', pages=2)
    shape = lambda m: {'rate': m['rate'], 'ch': m['ch'], 'samples': m['n'], 'blocksizes': [m['bs0'], m['bs1']], 'bytes': m['bytes'], 'pages': m['pages']}
    doc = {'0:a': shape(ma), '1:b': shape(mb), '2:c(chain)': [shape(l0[1]), shape(l1[1])], '3:d': shape(md)}
    return [a, b, c, d], doc


# (fileA, fileA2, fileB, fileB2, A is the chain)
PAIRINGS = [(0, 3, 1, 2, False), (1, 2, 0, 3, False), (2, 0, 3, 1, True)]
PAIRINGS_THOROUGH = PAIRINGS + [(3, 1, 2, 0, False)]


def a_ops(tgt):
    return READS + [s + str(tgt) for s in SEEKS] + [s + str(tgt) for s in LAPS] + ['xl', 'h1', 'oo']


def plan(tier):
    """-> dict phase -> list of case dicts (phase order = execution order: the core alphabet and the slower realisations first, the wide axes of the
    thorough tier last, so that a budget cut on an overloaded machine removes only those)"""
    ph = collections.OrderedDict((k, []) for k in ('inline', 'asan', 'threads', 'nested', 'inline_wide'))

    def add(phase, mode, pr, posA, opA, posB, opB, capA, capB):
        fa, fa2, fb, fb2, _ = pr
        ph[phase].append({'mode': mode, 'fa': fa, 'pa': posA, 'opa': opA, 'fa2': fa2, 'capa': capA, 'fb': fb, 'pb': posB, 'opb': opB, 'fb2': fb2, 'capb': capB})

    def inline(phase, thorough):
        for pr in (PAIRINGS_THOROUGH if thorough else PAIRINGS):
            chain = pr[4]
            posA = ['P1', 'P3', 'P2', 'P0'] if chain else ['P1', 'P5', 'P0']      # a budget cut removes the tail: the mid-stream positions come first
            if thorough:
                posA = posA + (['P5', 'Q1'] if chain else ['Q1'])
            second = [s + '3' for s in (SEEKS + LAPS if thorough else LAPS)]        # second target: inside link 0 / the first quarter
            capsA = [250, 0, 120] if thorough else [250]
            posB = ['P1', 'P0'] if thorough else ['P1']
            for cap in capsA:
                for pa in posA:
                    for oa in a_ops(13) + (second if cap == 250 else []):
                        if oa == 'oo' and pa != 'P1':
                            continue        # the position of handle 1 does not matter to opening handle 2
                        for pb in (posB if cap == 250 else posB[:1]):
                            for ob in a_ops(5):
                                add(phase, 'I', pr, pa, oa, pb, ob, cap, 600)

    inline('inline', False)
    if tier == 'thorough':
        inline('inline_wide', True)
        core = {case_line(c) for c in ph['inline']}
        ph['inline_wide'] = [c for c in ph['inline_wide'] if case_line(c) not in core]
    for pr in (PAIRINGS_THOROUGH if tier == 'thorough' else PAIRINGS):
        # sub-alphabets for the slower realisations
        pos_s = ['P1', 'P3'] if pr[4] else ['P1', 'P5']
        for pa in pos_s:
            for oa in ['r2', 'rq', 'PS13', 'RS13', 'TP13', 'xl']:
                for ob in ['r2', 'rq', 'PS5', 'RS5', 'xl']:
                    add('asan', 'F', pr, pa, oa, 'P1', ob, 250, 600)
            for oa in ['rf', 'rq', 'ps13', 'PS13', 'TS13', 'xl', 'h1']:
                for ob in ['r1', 'rq', 'PP5', 'xl', 'h1']:
                    add('threads', 'T', pr, pa, oa, 'P1', ob, 250, 600)
        if tier == 'thorough':
            for pa in pos_s:
                for oa in ['rq', 'PS13', 'xl']:
                    for ob in ['rq', 'PS5', 'xl']:
                        add('nested', 'N', pr, pa, oa, 'P5', ob, 250, 250)
    # round-robin over the file pairings: a budget cut in the middle of a phase thins every pairing instead of dropping the last one
    for k, cs in ph.items():
        by = collections.OrderedDict()
        for c in cs:
            by.setdefault(c['fa'], []).append(c)
        ph[k] = [c for grp in itertools.zip_longest(*by.values()) for c in grp if c is not None]
    return ph


def case_line(c, only=None):
    s = f"{c['mode']} {c['fa']} {c['pa']} {c['opa']} {c['fa2']} {c['capa']} {c['fb']} {c['pb']} {c['opb']} {c['fb2']} {c['capb']}"
    if only is not None:
        s += ' ' + ' '.join(str(x) for x in only)
    return s


def parse(line):
    """executor answer -> (status, fields, violation fields or None)"""
    line = line or 'NOOUTPUT'
    viol = None
    if ' viol ' in line:
        line, v = line.split(' viol ', 1)
        f = v.split('|')
        viol = {}
        for x in f[:-1]:
            if '=' in x:
                k, val = x.split('=', 1)
                viol[k] = val
        viol['text'] = f[-1]
    parts = line.split(' ')
    d = {}
    for p in parts[1:]:
        if '=' in p:
            k, v = p.split('=', 1)
            d[k] = v
    return parts[0], d, viol


def window_indices(c, d):
    """callback indices of A's solo run that lie inside the lap window of a lapping opA: the handle was INITSET when the call started, so the lap
    buffer is obtained before the call's first callback on the lap-source handle (upper-case kinds), and the splice is the last thing the call
    does (no callback follows it).  -> (all window indices, index at which part of the lap data is already captured or None)"""
    if not is_lap(c['opa']) or d.get('rs0') != '4' or d.get('rcA') != '0':
        return [], None
    kinds = d.get('kinds', '-')
    if kinds == '-':
        return [], None
    w = [i for i, k in enumerate(kinds) if k in 'RS']
    part = None
    if w and kinds[w[0]] == 'R' and 0 < int(d['pend']) < int(d['n1']):
        part = w[0]        # _ov_getlap copied the pending samples and now fetches from the file for the rest
    return w, part


def run_family(chk, tier, budget_s=None):
    """Executes the family; records violations on chk; returns the family's coverage dict (see fold/guards)."""
    t0 = time.time()
    budget_s = float(os.environ.get('C18_REENT_BUDGET_S') or budget_s or (40 if tier == 'quick' else 480))
    rc = {'complete': True, 'phases': {}, 'machinery': [], 'runs': 0, 'lines': 0, 'segments': 0}
    vlib.build('plain', 'asan')
    exe = {'plain': vlib.harness('plain', 'c18_reent'), 'asan': vlib.harness('asan', 'c18_reent')}
    paths, fdoc = files()
    os.makedirs(os.path.join(vlib.BUILD, 'tmp'), exist_ok=True)
    priv = tempfile.mkdtemp(prefix='c18reent.', dir=os.path.join(vlib.BUILD, 'tmp'))     # private copies: see checks/c18.py run()
    try:
        for k in exe:
            exe[k] = shutil.copy2(exe[k], os.path.join(priv, 'c18_reent_' + k))
        paths = [shutil.copy2(p, priv) for p in paths]
        lst = os.path.join(priv, 'files.list')
        open(lst, 'w').write('\n'.join(paths) + '\n')
        ph = plan(tier)
        tb = time.time()          # the budget clock starts after the builds (a cold ASan build on a loaded machine must not eat the exploration)
        cnt = collections.Counter()
        kinds_seen = collections.Counter()
        classes = set()
        samples = []
        ksum = {}
        for phase, cases in ph.items():
            if not cases:
                continue
            flav = 'asan' if phase == 'asan' else 'plain'
            tp = time.time()
            res, done = [], 0
            CH = 1000
            for c0 in range(0, len(cases), CH):          # budget check between chunks: a cut removes the tail of the phase order only
                if time.time() - tb > budget_s and not (phase == 'inline' and c0 == 0):
                    break
                res += vlib.run_cases(exe[flav], [case_line(c) for c in cases[c0:c0 + CH]], ['--files', lst], tag='c18r' + phase[:1])
                done = min(len(cases), c0 + CH)
            if done < len(cases):
                rc['complete'] = False
            if not done:
                rc['phases'][phase] = {'lines': len(cases), 'executed': False}
                continue
            ncases = len(cases)
            cases = cases[:done]
            pruns = 0
            for c, r in zip(cases, res):
                st, d, viol = parse(r)
                rp = {'kind': 'reent', 'flavour': flav, 'case': c}
                if st != 'ok':
                    r = r or 'NOOUTPUT'
                    if r.startswith('DIED') or r.startswith('TIMEOUT'):
                        m = re.search(r'C18R-AT case=\d+ phase=(\w+) i=(-?\d+) j=(-?\d+)(?: kind=(.))?', r)
                        where = f"phase {m.group(1)}, B inside A's callback #{m.group(2)} ({m.group(4) or '?'})" + (f", B stopped at its callback #{m.group(3)}" if m and m.group(3) != '-1' else '') if m else 'position unknown'
                        sm = re.search(r'(ERROR: AddressSanitizer: [^\\\n]{0,160}|runtime error: [^\\\n]{0,160}|C18R-SIGNAL \d+)', r)
                        what = 'did not terminate (watchdog)' if r.startswith('TIMEOUT') else f"died ({sm.group(1) if sm else r[:80]})"
                        if m and m.group(1) != 'inter':
                            side = 'a' if m.group(1) == 'soloA' else 'b'
                            chk.violation(f"reent_solo_crash:{opk(c['op' + side])}", f"{flav} build: {OP_DOC[opk(c['op' + side])]} from {c['p' + side]} on file {c['f' + side]} run ALONE {what}. {r[:1500]}", rp)
                        else:
                            if m:
                                rp['only'] = [int(m.group(2))] + ([int(m.group(3))] if c['mode'] == 'N' else [])
                            chk.violation(f"reent_crash:{opk(c['opa'])}:{opk(c['opb'])}", f"{flav} build, A={OP_DOC[opk(c['opa'])]} from {c['pa']} (file {c['fa']}), B={OP_DOC[opk(c['opb'])]} (file {c['fb']}): the interleaved execution {what}; {where}; alone both threads complete. {r[:1500]}", rp)
                    elif r.startswith('PREPFAIL') and ' oc=0 ' not in r:
                        side = 'a' if r.startswith('PREPFAIL A') else 'b'
                        chk.violation(f"reent_solo_crash:{opk(c['op' + side])}", f"{flav} build: {OP_DOC[opk(c['op' + side])]} from {c['p' + side]} on file {c['f' + side]} run ALONE in a fresh process died: {r[:1500]}", rp)
                    else:
                        rc['machinery'].append(f'{case_line(c)}: {r[:300]}')
                    continue
                K, runs = int(d['K']), int(d['runs'])
                rc['lines'] += 1
                rc['runs'] += runs
                pruns += runs
                rc['segments'] += runs * (4 if c['mode'] == 'N' else 3)
                chk.cov['evaluations'] += runs + 2
                ksum[(c['fa'], c['pa'], c['opa'], c['capa'])] = K
                cnt['unreached'] += int(d['unreached'])
                if viol is not None:
                    rp['only'] = [int(viol.get('i', -1))] + ([int(viol.get('j', -1))] if c['mode'] == 'N' else [])
                    chk.violation(viol.get('key', 'reent'), f"{flav} build, mode {c['mode']}, files A={c['fa']} B={c['fb']}, read cap {c['capa']}: {viol['text']} ({d.get('bad')} of {runs} schedules of this line differ)", rp)
                kinds = d['kinds'] if d['kinds'] != '-' else ''
                per_i = int(d['KB']) if c['mode'] == 'N' else 1
                w, part = window_indices(c, d)
                blap = is_lap(c['opb']) and d['rcB'] == '0'
                bread = opk(c['opb']) in READS and int(d['rcB']) > 0
                for i, k in enumerate(kinds):
                    kinds_seen[k] += per_i
                    classes.add((c['fa'], c['pa'], opk(c['opa']), k, opk(c['opb']), c['mode']))
                if blap:
                    cnt['B_lap_inside_A_lap_window'] += len(w) * per_i
                    if part is not None:
                        cnt['B_lap_while_A_lap_partially_captured'] += per_i
                        if c['opa'] == 'xl':
                            cnt['B_lap_while_A_crosslap_partially_captured'] += per_i
                    if c['pa'] in ('P2', 'P3'):
                        cnt['B_lap_inside_A_lap_window_at_link_boundary'] += len(w) * per_i
                if bread and int(d['nzA']) > 0:
                    cnt['B_read_inside_A_filter_callback'] += kinds.count('F') * per_i
                if opk(c['opa']) in READS:
                    cnt['B_inside_file_read_of_A_read_op'] += kinds.count('R') * per_i
                    if c['pa'] in ('P2', 'P3'):
                        cnt['B_inside_file_read_of_A_read_op_crossing_link_boundary'] += kinds.count('R') * per_i
                if d['rcA'] != '0' and opk(c['opa']) not in READS:
                    cnt['A_op_refused_lines'] += 1
                if phase == 'inline' and K and len(samples) < 6 and (c['opa'], c['pa']) not in [(s['opA'], s['posA']) for s in samples] and c['opb'] == 'PS5':
                    samples.append({'family': 'reent', 'fileA': c['fa'], 'posA': c['pa'], 'opA': c['opa'], 'callbacks_of_opA_alone': kinds, 'opB': c['opb'], 'fileB': c['fb'], 'schedules': runs})
            rc['phases'][phase] = {'lines': ncases, 'lines_executed': done, 'executed': True, 'schedules': pruns, 'build': flav, 'wall_s': round(time.time() - tp, 1)}
        rc.update({
            'files': fdoc,
            'alphabet': {'opA': sorted({opk(c['opa']) for cs in ph.values() for c in cs}), 'opB': sorted({opk(c['opb']) for cs in ph.values() for c in cs}),
                         'positions_A': sorted({c['pa'] for cs in ph.values() for c in cs}), 'positions_B': sorted({c['pb'] for cs in ph.values() for c in cs}),
                         'read_caps_A': sorted({c['capa'] for cs in ph.values() for c in cs}), 'ops': OP_DOC, 'positions': POS_DOC},
            'A_configurations': len(ksum), 'yield_points_of_all_A_configurations': sum(ksum.values()), 'max_yield_points_of_one_op': max(ksum.values()) if ksum else 0,
            'yield_points_by_kind(R/S=read/seek callback of the op\'s handle, r/s=of crosslap\'s second handle, F=filter callback)': dict(kinds_seen),
            'distinct_classes(fileA,posA,opA,yield kind,opB,mode)': len(classes),
            'facts': dict(cnt), 'samples': samples, 'wall_s': round(time.time() - t0, 1),
        })
        rc['_classes'] = len(classes)
        rc['_cnt'] = cnt
        return rc
    finally:
        shutil.rmtree(priv, ignore_errors=True)


def fold(cov, rc):
    """adds the family's counts to the check's evidence (after the scheduler engine has written its totals)"""
    cov['states'] = cov.get('states', 0) + rc['runs'] + 2 * rc['lines']
    cov['transitions'] = cov.get('transitions', 0) + rc['segments']
    cov['traces_validated_against_impl'] = cov.get('traces_validated_against_impl', 0) + rc['runs'] + 2 * rc['lines']
    cov['distinct_nontrivial'] = cov.get('distinct_nontrivial', 0) + rc['_classes']
    cov['rule'] = cov.get('rule', '') + (' REENT family (callback-granularity interleaving of two vorbisfile threads): every executed schedule (A to its callback i, B\'s whole operation, rest of A; '
                                         'thorough also A to i, B to its callback j, rest of A, rest of B) is one decision prefix, one validated trace and 3 (4) scheduling steps; '
                                         'distinct_nontrivial adds the distinct classes (file of A, position of A, operation of A, kind of callback B ran in, operation of B, realisation) - all of them '
                                         'are schedules in which the threads really alternate inside an API call.')
    if not rc['complete']:
        cov['exhaustive'] = False
    cov['samples'] = rc['samples'][:4] + list(cov.get('samples', []))
    cov['reent'] = {k: v for k, v in rc.items() if not k.startswith('_') and k != 'samples'}


def guards(chk, rc, tier):
    cnt = rc['_cnt']
    ex = lambda p: rc['phases'].get(p, {}).get('executed')
    if ex('inline'):
        chk.guard(cnt['B_lap_inside_A_lap_window'] >= 1500, f"REENT: >=1500 schedules in which a lapping call of B (lapped seek / crosslap, successful) ran at a callback of A that lies between A's lap capture and A's splice ({cnt['B_lap_inside_A_lap_window']})")
        chk.guard(cnt['B_lap_while_A_lap_partially_captured'] >= 60 and cnt['B_lap_while_A_crosslap_partially_captured'] >= 12, f"REENT: lapping calls of A really need file reads in mid-capture: >=60 schedules with a lapping call of B at the read callback A's _ov_getlap issues after copying its pending samples ({cnt['B_lap_while_A_lap_partially_captured']}), >=12 of them inside ov_crosslap ({cnt['B_lap_while_A_crosslap_partially_captured']})")
        chk.guard(cnt['B_lap_inside_A_lap_window_at_link_boundary'] >= 100, f"REENT: >=100 of the lap-window schedules start at the end of link 0 of the chain ({cnt['B_lap_inside_A_lap_window_at_link_boundary']})")
        chk.guard(cnt['B_read_inside_A_filter_callback'] >= 30, f"REENT: >=30 schedules in which B completed a read (ov_read / ov_read_float / ov_read_filter delivering samples) inside the filter callback of A's ov_read_filter ({cnt['B_read_inside_A_filter_callback']})")
        chk.guard(cnt['B_inside_file_read_of_A_read_op'] >= 200 and cnt['B_inside_file_read_of_A_read_op_crossing_link_boundary'] >= 100, f"REENT: read operations of A really fetch from the file: >=200 schedules with B inside a read callback of an ov_read* call of A ({cnt['B_inside_file_read_of_A_read_op']}), >=100 while that call crosses the link boundary ({cnt['B_inside_file_read_of_A_read_op_crossing_link_boundary']})")
    for p, n in (('asan', 300), ('threads', 300)) + ((('nested', 300),) if tier == 'thorough' else ()):
        if ex(p):
            chk.guard(rc['phases'][p]['schedules'] >= n, f"REENT: the {p} realisation executed >={n} schedules ({rc['phases'][p]['schedules']})")
    chk.guard(cnt['unreached'] == 0, f"REENT: in every interleaved execution A reached the callback at which B was scheduled ({cnt['unreached']} not reached)")
    for m in rc['machinery'][:8]:
        chk.guard(False, 'machinery (REENT): ' + m)


ASSUMPTIONS = [
    'REENT: operating on a different OggVorbis_File from inside an application callback is legal use (the handles share no object; doc/vorbisfile/threads.html only requires calls on ONE handle to be serialised); '
    'it is the single-threaded realisation of the thread schedule "switch at the callback, run the other thread\'s call, switch back". The same handle is never entered re-entrantly.',
    'REENT: yield points are the application callbacks only (read/seek/tell, filter); switches between two instructions of library code are left to the free-running ThreadSanitizer pass',
    'REENT: both threads\' file images are read-only inputs; every handle has its own data source object',
    'REENT: compared are only values delivered through the API (return codes, PCM bytes/floats, what the filter callback is shown, pcm/raw/time tell, bitstream index, audio read afterwards); internal fields of the handle and the pattern of I/O requests are not judged',
]


def replay(r):
    """re-executes one line (restricted to the failing callback index when known); 0 if it passes now"""
    flav = r.get('flavour', 'plain')
    vlib.build(flav)
    exe = vlib.harness(flav, 'c18_reent')
    paths, _ = files()
    lst = os.path.join(vlib.BUILD, 'tmp', 'c18reent_replay.%d.list' % os.getpid())
    os.makedirs(os.path.dirname(lst), exist_ok=True)
    open(lst, 'w').write('\n'.join(paths) + '\n')
    try:
        out = vlib.run_cases(exe, [case_line(r['case'], r.get('only'))], ['--files', lst], jobs=1, tag='c18rr')
    finally:
        os.unlink(lst)
    print(out[0])
    st, d, viol = parse(out[0])
    return 0 if st == 'ok' and viol is None and d.get('bad') == '0' and d.get('unreached') == '0' else 1
