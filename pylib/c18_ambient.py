"""C18 ambient-state family (executor harness/c18_ambient.c).

Reproducibility clause of C18: "The same inputs and call sequence always give the same outputs, independent of what previously
freed or uninitialised memory happens to contain" and "each produces exactly the bytes or samples it produces when run alone".
Inputs and the call sequence are held fixed; two kinds of ambient state are enumerated exhaustively over a finite alphabet:

 (a) errno of the calling thread
     vf   file image x vorbisfile program: errno forced to each of {0,EIO,EINTR,ENOMEM} before EVERY library call, without / with the
          callbacks leaving that value behind on returns that signal no error; the out-parameters of ov_read / ov_read_float pre-filled
          with each pattern; all observations (return codes, totals, link table, positions, PCM) must be equal to the errno-0 run.
     il   ALL interleavings, at API-call granularity in one thread, of a program on handle A with a program on an independent
          handle B whose read callback fails fread()-style (returns 0, errno=EIO): A's and B's observations equal their solo runs.
 (b) prior contents of caller memory passed as an OUT parameter, patterns {00, ff, a5/5a, 3f}
     ctl1   set-up state class x before/after setup_init x GET request of vorbis_encode_ctl: documented members identical.
     seq    set-up state class x every sequence of <= 3 GET/modify/SET operations: return codes, members, setup_init, public
            vorbis_info fields, the five GETs after setup_init, and the packets of an encode of a fixed signal identical.
     encout / dec   ogg_packet out-parameters of commentheader_out / headerout / flushpacket / vorbis_analysis, pcm pointer of pcmout / lapout.
"""
import os, shutil, itertools, json, time
import vlib

SEEK_KINDS = 'rpgtuRPGTU'        # raw, pcm, pcm_page, time, time_page; upper case: the _lap variants
OPS = ['R2a', 'R2b', 'R2c', 'R2n', 'R2x', 'R1a', 'R1v', 'R1h', 'LP', 'IB', 'CP', 'OFF2', 'OFF1']
OPS_DOC = {
    'R2a': 'RATEMANAGE2_GET; management_active=1; RATEMANAGE2_SET', 'R2b': 'RATEMANAGE2_GET; management_active=1, bitrate_average_kbps=nominal; RATEMANAGE2_SET',
    'R2c': 'RATEMANAGE2_GET; management_active=1, limit min/max set; RATEMANAGE2_SET', 'R2n': 'RATEMANAGE2_GET; RATEMANAGE2_SET unchanged',
    'R2x': 'RATEMANAGE2_GET; reservoir_bits=reservoir_bits/2+1000; RATEMANAGE2_SET', 'R1a': 'RATEMANAGE_GET; management_active=1; RATEMANAGE_SET',
    'R1v': 'RATEMANAGE_GET; av_lo=av_hi=nominal; RATEMANAGE_AVG', 'R1h': 'RATEMANAGE_GET; hard_min/max set; RATEMANAGE_HARD',
    'LP': 'LOWPASS_GET; -=2 kHz; LOWPASS_SET', 'IB': 'IBLOCK_GET; -=4; IBLOCK_SET', 'CP': 'COUPLING_GET; negate; COUPLING_SET',
    'OFF2': 'RATEMANAGE2_SET NULL (management off)', 'OFF1': 'RATEMANAGE_SET NULL (management off)'}
STATES = ['vbr', 'abr', 'man', 'manoff', 'abroff1']
STATES_OFF = ['vbr', 'manoff', 'abroff1']      # classes in which rate management is off when the first request is issued
REQS = ['OV_ECTL_RATEMANAGE_GET', 'OV_ECTL_RATEMANAGE2_GET', 'OV_ECTL_LOWPASS_GET', 'OV_ECTL_IBLOCK_GET', 'OV_ECTL_COUPLING_GET']
CFGS = ['st44', 'mo8']


def vf_programs():
    ps = ['Os.q.R.q.c', 'On.q.R.q.c', 'Of.q.R.q.c', 'Ts.To.q.RF.q.c', 'Os.h1.sp1.l.r.R.q.c']
    for k in SEEK_KINDS:
        ps.append('Os.q.' + '.'.join(f's{k}{t}.l.r' + ('.r' if t == 1 else '') for t in range(5)) + '.R.q.c')
    return ps


IL_A = ['Os.tp.r.sp1.r.c', 'Os.tr.sr2.r.r.c', 'On.r.r.r.r.c', 'Ts.To.tt.sU3.rf.c', 'Os.tp.sg2.r.sP4.c']
IL_B = ['Ob0.r.sp1.c', 'Ob2.r.sp1.c', 'ObL.r.sp1.c']
IL_A_THOROUGH = ['Os.tp.r.sp1.r.sg3.r.c', 'Os.tt.st2.r.r.su3.r.c', 'Os.tr.sR2.rf.sr3.rf.c']      # thorough: 8-step A programs, 5-step B programs, every file image
IL_B_THOROUGH = ['Ob2.r.sp1.r.c']


def make_files(dst):
    """file images of the errno family: intact single link / 2-link chain and damaged tails; returns [(name, path)]"""
    p1, _ = vlib.mkzoo('c18_amb_l1', rate=8000, ch=1, n=6000, q=0.3, sig='mix', serial=1811, tag='C18AMB1', pages=3)
    p2, _ = vlib.mkzoo('c18_amb_l2', rate=44100, ch=2, n=9000, q=0.4, sig='mix', serial=1812, tag='C18AMB2', pages=2)
    l1, l2 = open(p1, 'rb').read(), open(p2, 'rb').read()
    garb = bytes(((i * 37 + 11) & 0xff) for i in range(96)).replace(b'O', b'o')
    out = {}

    def tails(nm, data):
        pg = vlib.parse_pages(data)[-1]
        out[nm + 'trH'] = data[:pg.offset + 13]                      # last page cut inside its header
        out[nm + 'trB'] = data[:pg.offset + pg.size() // 2]           # ... inside its body
        out[nm + 'trE'] = data[:-1]                                  # ... one byte short
        out[nm + 'gaN'] = data + garb                                # trailing bytes that are not Ogg
        out[nm + 'gaO'] = data + b'OggS\0\0' + bytes(range(1, 15))   # trailing bytes that begin like a page
    out['L1'] = l1
    out['CH'] = l1 + l2
    tails('L1', l1)
    tails('CH', l1 + l2)
    pg2 = vlib.parse_pages(l2)
    first_audio = next(p for p in pg2 if p.gran > 0)
    out['CHhd1'] = l1 + l2[:20]                                      # later link cut inside its identification header page
    out['CHhd2'] = l1 + l2[:pg2[1].offset + pg2[1].size() // 2]      # ... inside the comment/setup page
    out['CHhd3'] = l1 + l2[:first_audio.offset]                      # ... right after its header pages (no audio)
    res = []
    for nm, data in out.items():
        path = os.path.join(dst, 'amb_' + nm + '.ogg')
        with open(path, 'wb') as f:
            f.write(data)
        res.append((nm, path))
    return res


IL_FILES = ['L1', 'CH', 'L1trB', 'CHtrB', 'L1gaO', 'CHgaN', 'CHhd2', 'L1trH']


def plan(tier, files):
    names = [n for n, _ in files]
    cases = []
    for f in names:
        for p in vf_programs():
            cases.append(f'vf {f} {p}')
    for f in (IL_FILES if tier == 'quick' else names):
        for a in (IL_A if tier == 'quick' else IL_A + IL_A_THOROUGH):
            for b in (IL_B if tier == 'quick' else IL_B + IL_B_THOROUGH):
                cases.append(f'il {f} {a} L1 {b}')
    for c in CFGS:
        for s in STATES:
            for post in (0, 1):
                for q in range(len(REQS)):
                    cases.append(f'ctl1 {c} {s} {post} {q}')
            for direct in (0, 1):
                cases.append(f'encout {c} {s} {direct}')
    for f in ('L1', 'CH', 'CHtrB'):
        cases.append(f'dec {f}')
    # sequences of <= 3 operations; quick: real encodes up to length 2 (both configurations), length 3 encodes only when the internal set-up
    # state differs between the patterns (stereo configuration); thorough: real encodes everywhere
    for c in CFGS:
        for s in STATES:
            for L in range(0, 4):
                if tier == 'quick' and L == 3 and c != 'st44':
                    continue
                mode = 1 if (tier != 'quick' or L <= 2) else 2
                for seq in itertools.product(OPS, repeat=L):
                    cases.append(f'seq {c} {s} {mode} {",".join(seq) or "-"}')
    return cases


def _kv(line):
    d = {}
    for p in line.split(' ')[1:]:
        if '=' in p:
            k, v = p.split('=', 1)
            d[k] = v
    return d


def _viol(txt):
    f = txt.split('|')
    d = {}
    for x in f[:-1]:
        if '=' in x:
            k, v = x.split('=', 1)
            d[k] = v
    d['text'] = f[-1]
    return d


def run_family(chk, tier, exe_c18, mach):
    """runs the whole family; exe_c18 = path of the private copy of the C18 executor (its directory receives our binary and file images)"""
    priv = os.path.dirname(exe_c18)
    exe = shutil.copy2(vlib.harness('plain', 'c18_ambient'), os.path.join(priv, 'c18_ambient'))
    files = make_files(priv)
    fixed = [f'{n}={p}' for n, p in files]
    cases = plan(tier, files)
    t_start = time.time()
    res = vlib.run_cases(exe, cases, fixed, tag='c18amb')
    wall = time.time() - t_start
    cov = chk.cov
    st = {'vf': {'groups': 0, 'runs': 0, 'library_calls_per_run_sum': 0, 'zero_reads_in_open_or_seek_entered_with_errno_set': 0, 'groups_with_such_reads': 0, 'groups_where_eof_vs_error_matters': 0, 'damaged_groups_where_it_matters': 0},
          'il': {'systems': 0, 'interleavings': 0, 'zero_reads_of_A_in_open_or_seek_entered_with_errno_set': 0, 'B_calls_that_left_errno_set': 0, 'B_programs_that_returned_OV_EREAD': 0},
          'ctl1': {'cases': 0, 'get_calls': 0, 'mgmt_off': {r: 0 for r in REQS}, 'mgmt_on': {r: 0 for r in REQS}},
          'seq': {'sequences': 0, 'programs': 0, 'by_length': {}, 'encodes': 0, 'packets': 0, 'accepted_switch_on_from_off_state': 0, 'managed_at_setup_init': 0, 'sequences_with_encode_on_every_pattern': 0},
          'encout': {'cases': 0, 'packets': 0}, 'dec': {'cases': 0, 'blocks': 0}}
    samples = []
    transient = []
    nviol = 0
    for c, r in zip(cases, res):
        r = r or 'NOOUTPUT'
        w = c.split(' ')
        fam = w[0]
        if (r.startswith('DIED') or r.startswith('TIMEOUT') or r == 'NOOUTPUT') and tier != 'replay':
            r2 = (vlib.run_cases(exe, [c], fixed, jobs=1, tag='c18ambx')[0] or 'NOOUTPUT')      # a crash / hang must reproduce when the case runs alone before it is judged
            if not (r2.startswith('DIED') or r2.startswith('TIMEOUT') or r2 == 'NOOUTPUT'):
                transient.append(f'{c}: {r[:120]}')
                r = r2
        if r.startswith('viol ') or ' viol ' in r:
            v = _viol(r.split('viol ', 1)[1])
            nviol += 1
            chk.violation(v.get('key', 'ambient:' + fam), f'[{c}] ' + v['text'], {'kind': 'ambient', 'case': c, 'order': v.get('order')})
            continue
        if not r.startswith('ok'):
            if r.startswith('DIED') or r.startswith('TIMEOUT'):
                # the library crashed / hung on some member of the alphabet: a result that is certainly not "the same output"
                nviol += 1
                chk.violation(f'ambient:{fam}:died', f'[{c}] executor process {r[:400]}', {'kind': 'ambient', 'case': c})
            else:
                mach.append(f'ambient {c}: {r[:200]}')
            continue
        d = _kv(r)
        if fam == 'vf':
            s = st['vf']
            s['groups'] += 1
            s['runs'] += int(d['runs'])
            s['library_calls_per_run_sum'] += int(d['calls'])
            z = int(d['znfnz'])
            s['zero_reads_in_open_or_seek_entered_with_errno_set'] += z
            s['groups_with_such_reads'] += 1 if z else 0
            if d['probe'] == '1':
                s['groups_where_eof_vs_error_matters'] += 1
                if w[1] not in ('L1', 'CH'):
                    s['damaged_groups_where_it_matters'] += 1
            cov['evaluations'] += int(d['runs'])
            if len(samples) < 3 and z:
                samples.append({'ambient': c, 'result': r[:160]})
        elif fam == 'il':
            s = st['il']
            s['systems'] += 1
            s['interleavings'] += int(d['n'])
            s['zero_reads_of_A_in_open_or_seek_entered_with_errno_set'] += int(d['znfnz'])
            s['B_calls_that_left_errno_set'] += int(d['b_left_errno'])
            s['B_programs_that_returned_OV_EREAD'] += 1 if int(d['b_eread']) else 0
            cov['evaluations'] += int(d['n'])
        elif fam == 'ctl1':
            s = st['ctl1']
            s['cases'] += 1
            s['get_calls'] += int(d['pats'])
            s['mgmt_off' if d['moff'] == '1' else 'mgmt_on'][REQS[int(w[4])]] += 1
            cov['evaluations'] += int(d['pats'])
        elif fam == 'seq':
            s = st['seq']
            s['sequences'] += 1
            s['programs'] += int(d['pats'])
            L = d['nops']
            s['by_length'][L] = s['by_length'].get(L, 0) + 1
            s['encodes'] += int(d['encodes'])
            s['packets'] += int(d['packets'])
            s['accepted_switch_on_from_off_state'] += 1 if int(d['rmw_on']) else 0
            s['managed_at_setup_init'] += 1 if d['managed'] == '1' else 0
            s['sequences_with_encode_on_every_pattern'] += 1 if int(d['encodes']) >= int(d['pats']) else 0
            cov['evaluations'] += int(d['pats'])
            if len(samples) < 6 and int(d['rmw_on']) and int(d['encodes']):
                samples.append({'ambient': c, 'result': r[:160]})
        elif fam == 'encout':
            st['encout']['cases'] += 1
            st['encout']['packets'] += int(d['packets'])
            cov['evaluations'] += int(d['pats'])
        elif fam == 'dec':
            st['dec']['cases'] += 1
            st['dec']['blocks'] += int(d['blocks'])
            cov['evaluations'] += int(d['pats'])
    cov['ambient'] = {
        'what': 'ambient-state axis: inputs and call sequence fixed; errno of the thread (alphabet 0/EIO/EINTR/ENOMEM forced before every library call, optionally left behind by callbacks; '
                'all interleavings with an independent handle whose read callback fails with errno=EIO) and prior contents of out-parameter memory (patterns 00/ff/a5-5a/3f) enumerated exhaustively',
        'files': [n for n, _ in files], 'vf_programs': vf_programs(), 'interleave_programs': {'A': IL_A, 'B': IL_B, 'files': IL_FILES},
        'ctl_state_classes': STATES, 'ctl_requests': REQS, 'ctl_operations': OPS_DOC, 'encoder_configurations': CFGS,
        'cases': len(cases), 'wall_s': round(wall, 1), 'violations': nviol, 'executor_failures_not_reproduced_alone': transient, 'counts': st, 'samples': samples,
        'rule': 'vf: one group = file image x program, runs = 1 reference + 7 (errno value x callback mode) + 3 out-parameter patterns; il: one system = file x A-program x B-program, all C(|A|+|B|,|B|) call orders; '
                'ctl1/seq/encout/dec: one case = all 4 patterns of one (configuration, state class, request or operation sequence)',
    }
    chk.assumptions += [
        'ambient family: a read callback that returns 0 at the end of its data does not touch errno (the library\'s documented way to tell EOF from a read error); every other callback return may leave any errno behind',
        'ambient family: after a GET request of vorbis_encode_ctl that returned 0 every documented member of the argument is defined by the library; padding bytes are not compared; *bitstream of ov_read / the pcm pointers are compared only when the call returned > 0',
        'ambient family (quick): for operation sequences of length 3 the encode is executed only when the internal high-level set-up differs between the patterns (all observable results are compared for every pattern regardless)',
    ]
    if not nviol:
        v, i, c1, sq = st['vf'], st['il'], st['ctl1'], st['seq']
        chk.guard(v['zero_reads_in_open_or_seek_entered_with_errno_set'] >= 1 and v['damaged_groups_where_it_matters'] >= 10,
                  f"ambient/vf: zero-byte reads happened inside open/seek calls entered with errno != 0 ({v['zero_reads_in_open_or_seek_entered_with_errno_set']} reads in {v['groups_with_such_reads']} groups) and "
                  f"in {v['damaged_groups_where_it_matters']} groups on damaged files reporting that read as an error instead changes the observations (the path does not fold OV_EREAD into EOF)")
        chk.guard(i['zero_reads_of_A_in_open_or_seek_entered_with_errno_set'] >= 1 and i['B_programs_that_returned_OV_EREAD'] >= 1 and i['B_calls_that_left_errno_set'] >= 1,
                  f"ambient/il: handle B really failed with OV_EREAD and left errno set ({i['B_calls_that_left_errno_set']} calls), and handle A then made zero-byte reads inside open/seek calls entered with that errno "
                  f"({i['zero_reads_of_A_in_open_or_seek_entered_with_errno_set']} reads over {i['interleavings']} interleavings)")
        chk.guard(all(c1['mgmt_off'][r] >= 1 and c1['mgmt_on'][r] >= 1 for r in REQS),
                  'ambient/ctl1: every GET request was executed in a management-off and in a management-on state, before and after setup_init (%s)' % ', '.join(f"{r[8:]}:{c1['mgmt_off'][r]}/{c1['mgmt_on'][r]}" for r in REQS))
        chk.guard(sq['accepted_switch_on_from_off_state'] >= 1 and sq['encodes'] >= 1 and sq['packets'] >= 1 and sq['managed_at_setup_init'] >= 1,
                  f"ambient/seq: {sq['accepted_switch_on_from_off_state']} sequences contain a GET/modify/SET that was accepted and switched management on from an off state; {sq['encodes']} encodes, {sq['packets']} packets compared")
        chk.guard(st['encout']['packets'] >= 1 and st['dec']['blocks'] >= 1, 'ambient/encout+dec: packets and PCM blocks were produced through pre-filled out-parameters')
    return st


def replay(r):
    vlib.build('plain')
    exe = vlib.harness('plain', 'c18_ambient')
    d = os.path.join(vlib.BUILD, 'tmp', 'c18amb_replay')
    os.makedirs(d, exist_ok=True)
    files = make_files(d)
    c = r['case']
    if c.startswith('il ') and r.get('order'):
        c += ' ' + r['order']
    out = vlib.run_cases(exe, [c], [f'{n}={p}' for n, p in files], jobs=1, tag='c18ambr')
    print(out[0])
    return 0 if (out[0] or '').startswith('ok') else 1
