"""C20 directed exhaustive sweeps (run before the BFS; fixed, completed enumerations).

Family 'rate'  : odd and even sample rates x time seeks (ov_time_seek, ov_time_seek_page and their _lap variants) on a dense time
                 grid (every t=(k+f)/rate for a sample grid k and fractions f), half-rate and full rate, fresh and warm handle.
Family 'tail'  : 256/2048 links whose tail is all-long / all-short / mixed, re-paged so that the final page holds 1, 2, 3 or 8 packets;
                 for every target in the final page and the page before: sample seek from each initial-state class (fresh open, after a
                 read, after a link change in a chain (both directions), the re-seek done by ov_halfrate(1) / ov_halfrate(0) itself, fresh
                 after an on/off pair), then read to the end.

Oracle (property text): under half-rate the seek lands on the even position at or below the target (t*rate for time seeks), positions are
truthful (ov_time_tell == ov_pcm_tell/rate), the link delivers ceil((N-p)/2) samples from landing position p (N-p at full rate), the final
position is the total (total+1 for an odd last link under half-rate), the audio is bit-identical to the (half-rate) linear decode, and all
initial-state classes agree with each other on (landing, count, delivered PCM)."""
import json, subprocess, math
from fractions import Fraction
import vlib, zoo, seekgraph
from vlib import Page, parse_pages, packets_of, pages_from_packets, write_file

SEEKS = ('ps', 'pp', 'ts', 'tp', 'PS', 'PP', 'TS', 'TP')
LAP = ('PS', 'PP', 'TS', 'TP')


# ------------------------------------------------------------------ files
def repaged(name, src, ppp, last, trim=0):
    """Link `src`=(path, meta) (one packet per page, so that every packet's granule position is known) re-paged: header pages as they
    are, audio pages of `ppp` packets, the final page holding exactly `last` packets.  trim>0 pulls the final granule position back by
    `trim` samples (end-trimmed stream, as encoders write it)."""
    p, m = src
    pg = parse_pages(open(p, 'rb').read())
    pk = packets_of(pg, m['serial'])
    aud = pk[3:]
    assert all(g != -1 for (_, g, _, _) in aud), 'source link must be paged one packet per page'
    hdr = [x for x in pg if x.offset < pg[aud[0][2]].offset]
    n = len(aud)
    assert n > last + ppp
    body = n - last
    layout = [ppp] * (body // ppp)
    if body % ppp:
        layout = [body % ppp] + layout       # the odd one goes first so that the page before the final one is a full page
    layout.append(last)
    grans = [g for (_, g, _, _) in aud]
    total = m['n']
    if trim:
        assert grans[-1] - trim > grans[-2]
        grans[-1] -= trim
        total = grans[-1] - m.get('goff', 0)
    pages = hdr + pages_from_packets([b for (b, _, _, _) in aud], m['serial'], grans, layout, bos=False, eos=True, seq0=hdr[-1].seq + 1)
    blob = b''.join(x.encode() for x in pages)
    path = write_file(name + '.ogg', blob)
    mm = dict(m)
    mm.update({'file': path, 'bytes': len(blob), 'pages': len(pages), 'n': total, 'tag': name, 'ppp': ppp, 'last': last})
    return path, mm


TAIL_KINDS = {
    # name: (maker, description); all 44.1 kHz mono with 256/2048 blocks
    'long': lambda: zoo.link('C', 2001, 'flush', sig='sine', n=14001),        # s L L L ... L (every tail block long), odd length
    'short': lambda: zoo.link('C', 2002, 'flush', sig='impulse', n=5800),      # s s s ... s L (all short up to the closing block)
    'mixe': lambda: zoo.link('C', 2003, 'flush', sig='mix', n=15001),          # s s L ... L s s s s s (encoder-made: long run, short tail), odd length
    'mixs': lambda: zoo.synth_link('c20_mixs', 2004, 256, 2048, 29, rate=44100, ppp=1),   # s s s L L L s s s ... (specification-level synthesiser)
}
TAIL_LAST = (1, 2, 3, 8)
TAIL_PPP = 3


_memo = {}


def tail_files():
    """name -> (path, chain meta); single links 'T<kind><last>', chains 'A+T..' (link change into the tail) and 'T..+A' (tail followed by a link)"""
    if 'tail' in _memo:
        return _memo['tail']
    out = {}
    info = {}
    a_first = zoo.link('A', 2090, '3')
    a_last = zoo.link('A', 2091, '3')
    for kind, mk in TAIL_KINDS.items():
        src = mk()
        for last in TAIL_LAST:
            nm = 'c20_T%s%d' % (kind, last)
            x = repaged(nm, src, TAIL_PPP, last, trim=(300 if kind == 'mixs' else 0))
            out[nm] = vlib.chain(nm, [x])
            info[nm] = {'kind': kind, 'last': last, 'link': 0, 'base': nm}
            out[nm + 'c'] = vlib.chain(nm + 'c', [a_first, x])
            info[nm + 'c'] = {'kind': kind, 'last': last, 'link': 1, 'base': nm}
            if x[1]['n'] % 2 == 0:
                out[nm + 'd'] = vlib.chain(nm + 'd', [x, a_last])
                info[nm + 'd'] = {'kind': kind, 'last': last, 'link': 0, 'base': nm}
    _memo['tail'] = (out, info)
    return out, info


RATE_FILES = {
    # name: list of (rate, n, ch, sig, pages)
    'c20_R11025': [(11025, 12000, 1, 'mix', '3')],
    'c20_R8001': [(8001, 9000, 2, 'sine', '4')],
    'c20_R22051': [(22051, 16001, 1, 'mix', '3')],
    'c20_R44101': [(44101, 30000, 1, 'mix', '2')],
    'c20_R22050': [(22050, 12000, 1, 'mix', '3')],                                # even-rate control
    'c20_Rchain': [(8001, 3000, 1, 'mix', '3'), (11025, 2500, 2, 'sine', '2'), (44101, 6001, 1, 'mix', '2')],
}


def rate_files():
    if 'rate' in _memo:
        return _memo['rate']
    out = {}
    ser = 2100
    for nm, links in RATE_FILES.items():
        ls = []
        for (rate, n, ch, sig, pages) in links:
            ser += 1
            ls.append(vlib.mkzoo('c20_L_%d_%d_%d_%s_%s' % (rate, n, ch, sig, pages), rate=rate, ch=ch, n=n, q=0.3, serial=ser, sig=sig, pages=pages, tag=nm))
        out[nm] = vlib.chain(nm, ls)
    _memo['rate'] = out
    return out


def bfs_roots():
    """two of the files above as additional roots of the C20 BFS (reads, seeks and toggles in any order)"""
    r = rate_files()
    t, _ = tail_files()
    return {'c20_R11025': r['c20_R11025'], 'c20_Tlong8': t['c20_Tlong8']}


def load(files):
    """-> (sweep exe, listfile, models, layout)"""
    _, listfile, models = seekgraph.load_models(files)
    exe = vlib.harness('plain', 'c20_sweep')
    lay = json.loads(subprocess.run([exe, '--files', listfile, '--layout'], stdout=subprocess.PIPE, env=vlib.run_env(), text=True, timeout=600).stdout)
    for fm, l in zip(models, lay):
        assert len(l) == fm.nl, (fm.name, len(l), fm.nl)
        fm.layout = l
    return exe, listfile, models


def parse(line):
    if line is None:
        return {'err': 'NOOUTPUT'}
    if line.startswith(('DIED', 'TIMEOUT', 'BAD')):
        return {'err': line}
    d = {}
    for tok in line.split(' '):
        if '=' in tok:
            k, v = tok.split('=', 1)
            d[k] = v
    d['R'] = [tuple(int(y) for y in x.split(':')) for x in d['R'].split(',')] if d.get('R', '-') != '-' else []
    for k in ('M', 'HS', 'N', 'L', 'E', 'T'):
        d[k] = int(d[k])
    d['TT'] = float(d['TT'])
    return d


def caseline(fm, spec):
    return '%d %d %d %s' % (fm.idx, spec['cap'], spec['skip'], ' '.join(spec['ops']))


# ------------------------------------------------------------------ oracle
def judge(chk, fm, spec, r, stats):
    """spec: serialisable description of one case incl. everything the oracle needs (also stored in the replay file)."""
    rep = {'family': 'c20_axes', 'file': fm.name, 'spec': spec}
    ops = spec['ops']
    key = lambda what: '%s:%s:%s:%s' % (fm.name if spec['fam'] == 'rate' else spec['base'], spec['cls'], ops[-1][:2], what)
    chk.cov['evaluations'] += 1
    if 'err' in r:
        chk.violation(f'{fm.name}:crash', f'executor died / timed out on {ops}: {r["err"][:300]}', rep)
        return None
    if r['F'] != '-':
        chk.violation(key(r['F']), f'flags {r["F"]} after {ops}', rep)
    if r['T'] != fm.L:
        chk.violation(key('total_changed'), f'ov_pcm_total={r["T"]} expected {fm.L} after {ops}', rep)
    for o, (rc, tell) in zip(ops, r['R']):
        if (o[:2] in SEEK_OR_TOGGLE and rc != 0) or (o.startswith('rf') and rc <= 0):
            chk.violation(key('op_failed'), f'{o} returned {rc} in {ops}', rep)
            return None
    hs = spec['hs']
    if r['HS'] != hs:
        chk.violation(key('flag_state'), f'half-rate flag is {r["HS"]} after {ops}, expected {hs}', rep)
        return None
    land = r['R'][-1][1]
    k = spec['link']
    s0, n = fm.start[k], fm.links[k]['n']
    # landing
    if 'land' in spec:
        if land not in spec['land']:
            chk.violation(key('halfrate_seek_landing' if hs else 'seek_landing'), f'{ops[-1]} ({spec["what"]}) with half-rate {"on" if hs else "off"} landed at {land}, expected {spec["land"]} (history {ops})', rep)
    else:
        lo, hi = spec['win']
        if not (lo <= land <= hi):
            chk.violation(key('halfrate_page_seek_window' if hs else 'page_seek_window'), f'{ops[-1]} ({spec["what"]}) landed at {land}, allowed [{lo},{hi}] (history {ops})', rep)
    if hs and ((land - s0) & 1):
        chk.violation(key('odd_position'), f'{ops[-1]} left an odd position {land} (link start {s0}) with half-rate on', rep)
        return None
    # truthful time position
    rate = fm.links[k]['rate']
    tt = fm.tstart[k] + (land - s0) / float(rate)
    if not (abs(r['TT'] - tt) <= 1e-9):
        chk.violation(key('time_tell'), f'after {ops}: ov_pcm_tell={land} but ov_time_tell={r["TT"]!r}, expected {tt!r} (rate {rate})', rep)
    # audio, count, final position
    P = r['P']
    if not P.startswith('ok'):
        chk.violation(key('audio:' + (P.split(':')[1] if P.startswith('bad') else P)), f'half-rate={hs}: after {ops} (tell={land}) read-through != {"half-rate" if hs else "full-rate"} linear decode: {P}', rep)
        return None
    if spec['cap'] < 0:
        p = land - s0
        exp = ((n - p + 1) // 2) if hs else (n - p)
        if land <= s0 + n and r['L'] != exp and not (n == 0):
            chk.violation(key('tail_count'), f'after {ops}: link of length {n} delivered {r["L"]} samples from position {p}, expected {exp}', rep)
        lastn = fm.links[-1]['n']
        endok = (fm.L, fm.L + 1) if (hs and lastn % 2) else (fm.L,)
        if r['N'] > 0 and r['E'] not in endok:
            chk.violation(key('final_position'), f'after {ops} and reading to the end: ov_pcm_tell={r["E"]}, total {fm.L}', rep)
    stats['judged'] += 1
    return land


SEEK_OR_TOGGLE = SEEKS + ('h0', 'h1')


# ------------------------------------------------------------------ family: rate axis
def sample_grid(fm, k, tier):
    n = fm.links[k]['n']
    s0 = fm.start[k]
    K = set(range(0, 10)) | set(range(n - 10, n))
    for f in fm.fence[k]:
        K.update(range(f - s0 - 3, f - s0 + 4))
    mid = n // 2
    K.update(range(mid - 24, mid + 24) if tier == 'quick' else range(mid - 100, mid + 100))
    K.update(range(0, n, max(1, n // (48 if tier == 'quick' else 200)) | 1))
    return sorted(x for x in K if 0 <= x < n)


def rate_cases(fm, tier):
    """-> list of spec"""
    specs = []
    fr = [Fraction(0), Fraction(1, 100), Fraction(1, 4), Fraction(1, 2), Fraction(3, 4), Fraction(99, 100)]
    for k in range(fm.nl):
        rate, n, s0 = fm.links[k]['rate'], fm.links[k]['n'], fm.start[k]
        bs0 = fm.layout_bs0[k]
        texact = sum((Fraction(l['n'], l['rate']) for l in fm.links[:k]), Fraction(0))
        grid = sample_grid(fm, k, tier)
        for gi, kk in enumerate(grid):
            for fi, f in enumerate(fr):
                if k > 0 and kk == 0 and f == 0:
                    continue                          # exactly on a link boundary: which link a double-rounded t selects is not specified
                t = fm.tstart[k] + float(kk + f) / rate
                x = (Fraction(t) - texact) * rate      # exact link-local target in samples
                kx = math.floor(x)
                acc = {kx}
                if k == 0:
                    acc.add(int(t * rate))             # one correctly rounded double product, as any implementation computes it
                else:
                    if x - kx < Fraction(1, 10 ** 6):
                        acc.add(kx - 1)
                    if kx + 1 - x < Fraction(1, 10 ** 6):
                        acc.add(kx + 1)
                acc = sorted(a for a in acc if 0 <= a < n)
                if not acc:
                    continue
                for hs in (0, 1):
                    # thinning (fixed, deterministic): the lapped variants and the warm handle on every 4th grid point resp. every 2nd
                    for op in ('ts', 'tp', 'TS', 'TP'):
                        for cls in ('fresh', 'warm'):
                            if tier == 'quick':
                                if op in LAP and (gi % 4 or fi % 2):
                                    continue
                                if cls == 'warm' and (gi + fi) % 2:
                                    continue
                            ops = (['h1'] if hs else []) + (['rf4096'] if cls == 'warm' else []) + [op + repr(t)]
                            spec = {'fam': 'rate', 'cls': cls, 'ops': ops, 'hs': hs, 'link': k, 'cap': -1 if (n - kk) <= 9000 else 6000, 'skip': (bs0 // 2 if op in LAP else 0),
                                    'what': 't*rate=%d+%.2f in link %d' % (kk, float(f), k), 'kk': kk, 'f': float(f), 'x': float(x)}
                            if op in ('ts', 'TS'):
                                if hs:
                                    spec['land'] = sorted(set(s0 + (a & ~1) for a in acc))
                                else:
                                    # full rate: within one sample of t*rate (the C08 reading)
                                    spec['land'] = sorted(set(s0 + v for a in acc for v in (a - 1, a, a + 1, a + 2) if 0 <= v <= n and abs(v - x) <= 1 + Fraction(1, 10 ** 6)))
                            else:
                                lo = fm.page_floor_decodable(max(s0 + min(acc) - 1, s0))
                                spec['win'] = [lo, s0 + max(acc) + 1]
                            specs.append(spec)
    return specs


def run_rate(chk, tier, stats):
    files = rate_files()
    exe, listfile, models = load(files)
    allspecs = []
    for fm in models:
        for k in range(fm.nl):
            assert fm.start[k] % 2 == 0, 'link starts must be even'
        fm.layout_bs0 = [min(p[0] for p in l['packets']) for l in fm.layout]
        for sp in rate_cases(fm, tier):
            allspecs.append((fm, sp))
    res = vlib.run_cases(exe, [caseline(fm, sp) for fm, sp in allspecs], ['--files', listfile], tag='c20rate')
    for (fm, sp), line in zip(allspecs, res):
        r = parse(line)
        land = judge(chk, fm, sp, r, stats)
        if land is None:
            continue
        rate = fm.links[sp['link']]['rate']
        if sp['hs'] and rate % 2 and sp['ops'][-1][:2] in ('ts', 'TS'):
            # does t*(rate/2) lie just above / just below a half-rate output sample boundary?  (t*rate near an even integer)
            stats['odd_rate_hr_time_seeks'] += 1
            stats['odd_rate_parity'].add((sp['kk'] & 1, sp['f'] < 0.5))
            if sp['kk'] % 2 == 0 and 0 < sp['f'] < sp['x'] / rate:
                stats['odd_rate_sensitive'] += 1       # frac(t*rate/2) < t/2: the points where a conversion on the half-rate grid (rate>>1) would come out short
        stats['sigs'].add(('rate', rate % 2, sp['hs'], sp['ops'][-1][:2], sp['cls'], sp['link'], sp['kk'] & 1))
    stats['rate_cases'] = len(allspecs)
    chk.cov['samples'] += [{'family': 'rate', 'file': fm.name, 'history': sp['ops']} for fm, sp in allspecs[7::max(1, len(allspecs) // 3)]][:3]
    return len(allspecs)


# ------------------------------------------------------------------ family: fresh machine x final page
def tail_targets(fm, k, tier):
    """targets (link-local) in the final page and the page before; quick: every packet edge +-2, the last samples, and a stride; thorough: every sample"""
    pk = fm.layout[k]['packets']        # [blocksize, granule, page, eos]
    n = fm.links[k]['n']
    lastpage = pk[-1][2]
    first_final = min(i for i, p in enumerate(pk) if p[2] == lastpage)
    first_prev = min(i for i, p in enumerate(pk) if p[2] == lastpage - 1)
    # packet end positions from block sizes alone (independent of the page granules)
    g = []
    tot = 0
    for i, p in enumerate(pk):
        if i:
            tot += (pk[i - 1][0] + p[0]) // 4
        g.append(min(tot, n))
    lo = g[first_prev - 1] if first_prev > 0 else 0       # the granule position of the page before the page before
    if tier != 'quick':
        T = set(range(lo, n + 1))
    else:
        T = set(range(lo, n + 1, 9)) | set(range(n - 6, n + 1))
        for i in range(first_prev - 1, len(pk)):
            if i >= 0:
                T.update(range(g[i] - 2, g[i] + 3))
                T.update((g[i] + 1023, g[i] + 1024, g[i] + 1025, g[i] + 1026))
    T = sorted(t for t in T if lo <= t <= n)
    deep = g[first_final] + 1024        # beyond this the first packet of the final page is not needed for lapping any more
    return T, {'first_final': first_final, 'g': g, 'deep': deep, 'npk_final': len(pk) - first_final,
               'tail_blocks': ''.join('L' if p[0] == max(q[0] for q in pk) else 's' for p in pk[first_prev:])}


TAIL_CLASSES = {
    # class: (final hs, ops template; '@' = the seek to the target, '#' = a seek into the other link of the chain)
    'fresh': [(0, ['@']), (1, ['h1', '@'])],
    'fresh_after_onoff': [(0, ['h1', 'h0', '@'])],
    'warm': [(0, ['rf4096', '@']), (1, ['h1', 'rf4096', '@'])],
    'toggle_on_at_target': [(1, ['rf4096', '@', 'h1'])],
    'toggle_off_at_target': [(0, ['h1', 'rf4096', '@', 'h0'])],
    'link_change': [(0, ['#', '@']), (1, ['h1', '#', '@'])],
}


def run_tail(chk, tier, stats):
    files, info = tail_files()
    exe, listfile, models = load(files)
    byname = {fm.name: fm for fm in models}
    allspecs = []
    per_file = {}
    for fm in models:
        inf = info[fm.name]
        k = inf['link']
        s0, n = fm.start[k], fm.links[k]['n']
        T, tinfo = tail_targets(fm, k, tier)
        single = fm.nl == 1
        if single:
            per_file[fm.name] = {'N': n, 'targets': len(T), 'final_page_packets': tinfo['npk_final'], 'blocks_from_page_before': tinfo['tail_blocks'], 'first_target': T[0]}
        other = None
        if not single:
            ok_ = 1 - k
            other = fm.start[ok_] + fm.links[ok_]['n'] // 2
        for t in T:
            if t == n and k < fm.nl - 1:
                continue                                  # the end of a link that is followed by another one is a position in the next link
            for cls, variants in TAIL_CLASSES.items():
                if (cls == 'link_change') == single:
                    continue
                for hs, tpl in variants:
                    ops = [('ps%d' % (s0 + t)) if o == '@' else ('ps%d' % other if o == '#' else o) for o in tpl]
                    # landing: a toggle at the target keeps the position (rounded down to the grid when switching on)
                    landl = (t & ~1) if (hs or cls == 'toggle_off_at_target') else t
                    spec = {'fam': 'tail', 'base': inf['base'], 'cls': cls, 'ops': ops, 'hs': hs, 'link': k, 'cap': -1, 'skip': 0, 'what': 'target %d of %d' % (t, n), 't': t,
                            'land': [s0 + landl], 'deep': t > tinfo['deep'], 'npk_final': tinfo['npk_final']}
                    allspecs.append((fm, spec))
    res = vlib.run_cases(exe, [caseline(fm, sp) for fm, sp in allspecs], ['--files', listfile], tag='c20tail')
    groups = {}
    for (fm, sp), line in zip(allspecs, res):
        r = parse(line)
        land = judge(chk, fm, sp, r, stats)
        if land is None:
            continue
        inf = info[fm.name]
        fresh_measured = (sp['cls'] in ('fresh', 'fresh_after_onoff') and r['M'] == 0)
        if sp['cls'] in ('fresh', 'fresh_after_onoff') and r['M'] != 0:
            chk.guard(False, 'a "fresh" history had a decode machine before its seek: %r' % (sp['ops'],))
        if sp['deep']:
            if fresh_measured:
                stats['fresh_final_page_seeks'] += 1
                stats['fresh_final_page_kinds'].add((inf['kind'], sp['hs']))
            elif sp['cls'] in ('toggle_on_at_target', 'toggle_off_at_target', 'link_change'):
                stats['rebuilt_final_page_seeks'] += 1
            else:
                stats['warm_final_page_seeks'] += 1
        stats['sigs'].add(('tail', inf['kind'], inf['last'], sp['cls'], sp['hs'], sp['deep']))
        # differential between the initial-state classes: same link, same position after the history, same flag => same count and
        # (same physical file) the same delivered PCM
        s0 = fm.start[sp['link']]
        groups.setdefault((sp['base'], land - s0, sp['hs']), []).append((sp['cls'], fm.name, land - s0, r['L'], r['X'], sp['ops']))
    for (base, t, hs), g in groups.items():
        stats['diff_groups'] += 1
        ref = g[0]
        for x in g[1:]:
            stats['diff_pairs'] += 1
            if x[2] != ref[2] or x[3] != ref[3] or (x[1] == ref[1] and x[4] != ref[4]):
                chk.violation(f'{base}:{x[0]}_vs_{ref[0]}:differential', f'position {t}, half-rate {hs}: history {x[5]} on {x[1]} gives (landing {x[2]}, {x[3]} samples, pcm {x[4][:12]}) but '
                              f'{ref[5]} on {ref[1]} gives (landing {ref[2]}, {ref[3]} samples, pcm {ref[4][:12]})', {'family': 'c20_axes', 'file': x[1], 'spec': {'ops': x[5]}, 'other': ref[5]})
    stats['tail_cases'] = len(allspecs)
    stats['tail_per_file'] = per_file
    chk.cov['samples'] += [{'family': 'tail', 'file': fm.name, 'history': sp['ops']} for fm, sp in allspecs[11::max(1, len(allspecs) // 3)]][:3]
    return len(allspecs)


def new_stats():
    return {'judged': 0, 'sigs': set(), 'odd_rate_hr_time_seeks': 0, 'odd_rate_parity': set(), 'odd_rate_sensitive': 0, 'fresh_final_page_seeks': 0, 'fresh_final_page_kinds': set(),
            'rebuilt_final_page_seeks': 0, 'warm_final_page_seeks': 0, 'diff_groups': 0, 'diff_pairs': 0}


def run(chk, tier):
    """runs both families, records coverage and guards on chk; returns the stats"""
    st = new_stats()
    run_rate(chk, tier, st)
    run_tail(chk, tier, st)
    chk.cov['axes'] = {'rate_cases': st['rate_cases'], 'tail_cases': st['tail_cases'], 'judged': st['judged'], 'odd_rate_halfrate_time_seeks': st['odd_rate_hr_time_seeks'],
                       'odd_rate_points_where_half_grid_conversion_differs': st['odd_rate_sensitive'], 'fresh_machine_final_page_seeks': st['fresh_final_page_seeks'],
                       'rebuilt_machine_final_page_seeks': st['rebuilt_final_page_seeks'], 'warm_machine_final_page_seeks': st['warm_final_page_seeks'],
                       'differential_groups': st['diff_groups'], 'differential_pairs': st['diff_pairs'], 'signatures': len(st['sigs']), 'tail_files': st['tail_per_file'],
                       'rule': 'rate: every t=(k+f)/rate, k in a sample grid (link edges, page fences +-3, a dense mid run, a stride), f in {0,.01,.25,.5,.75,.99}, x {ts,tp,TS,TP} x {half,full} x {fresh,warm}; '
                               'tail: every target in the final page and the page before (quick: packet edges +-2, +1024 thresholds, stride 9, last samples) x initial-state classes x {half,full}; both complete, not deadline-cut'}
    chk.assumptions += ['time seeks: the target of ov_time_seek(t) is floor(t*rate) in the containing link; where double rounding of t*rate is within 1e-6 of an integer (exact grid points k/rate) both neighbours are accepted; '
                        'under half-rate the landing must be that target rounded down to even, at full rate within one sample of t*rate (the C08 reading); page variants: the C08 window',
                        'lapped seek variants (ov_time_seek_lap, ov_time_seek_page_lap): the first blocksize[0]/2 delivered samples are blended by design and exempt from the PCM comparison (C19 judges them)',
                        'c20_Tmixs*: a 256/2048 link written by the specification-level synthesiser with an interleaved short/long pattern and the final granule position pulled back by 300 samples (the encoder zoo has no signal that switches block size inside the tail)']
    chk.guard(st['fresh_final_page_seeks'] >= 200, '>= 200 seeks whose decode start lies inside the final page on a handle that had no decode machine before (got %d)' % st['fresh_final_page_seeks'])
    chk.guard(len(st['fresh_final_page_kinds']) >= 6, 'fresh-machine final-page seeks on long, short and mixed tails, half and full rate (got %r)' % sorted(st['fresh_final_page_kinds']))
    chk.guard(st['rebuilt_final_page_seeks'] >= 200 and st['warm_final_page_seeks'] >= 100, 'final-page seeks after link change / toggle re-seek (%d) and on warm handles (%d)' % (st['rebuilt_final_page_seeks'], st['warm_final_page_seeks']))
    chk.guard(st['odd_rate_hr_time_seeks'] >= 500 and len(st['odd_rate_parity']) == 4, 'odd-rate half-rate time seeks with t*rate on both sides of even and odd sample boundaries (%d, %r)' % (st['odd_rate_hr_time_seeks'], sorted(st['odd_rate_parity'])))
    chk.guard(st['odd_rate_sensitive'] >= 100, 'odd-rate time seeks at points where frac(t*rate/2) < t/2 (a conversion on the half-rate grid differs there): %d' % st['odd_rate_sensitive'])
    chk.guard(st['diff_pairs'] >= 1000, 'initial-state differential pairs compared (%d)' % st['diff_pairs'])
    return st


def replay(rp):
    """re-executes one case of these families; 0 if it passes now"""
    files = rate_files()
    tf, info = tail_files()
    spec = rp['spec']
    fam_files = files if rp['file'] in files else tf
    exe, listfile, models = load(fam_files)
    fm = [m for m in models if m.name == rp['file']][0]
    if 'cap' not in spec:
        spec = dict(spec, cap=-1, skip=0)
    out = vlib.run_cases(exe, [caseline(fm, spec)], ['--files', listfile], jobs=1)
    print(out[0])
    if 'fam' not in spec:
        return 0 if ' P=ok' in (out[0] or '') else 1
    chk = vlib.Check('C20', 'quick', 'model_checking')
    judge(chk, fm, spec, parse(out[0]), new_stats())
    for k, d, _ in chk.violations:
        print('  still failing:', k, d)
    return 1 if chk.violations else 0
