"""C15 lifecycle family: all legal call sequences up to a bound over two encoder slots that share ONE successfully set-up vorbis_info
(executor harness/c15_life.c).  Pure enumeration, fixed order.

alphabet (per slot s in {1,2}):  A analysis_init, B block_init, H headerout, E encode one chunk, F end of stream (wrote 0 + drain),
                                 C block_clear + dsp_clear;  vorbis_info_clear (twice) always last, after every dsp state was cleared.
legality filter (object lifetime + documented call order):
   A only on an uninitialised / cleared slot; B only after A (once per lifetime); H needs an initialised dsp state, at most once per lifetime and
   before the first audio; E / F need dsp + block and no earlier F in this lifetime; C needs an initialised dsp state.
symmetry: the two slots are interchangeable objects, so only sequences whose first call is on slot 1 are generated.
oracle: no sanitizer report; every call returns its documented success code; everything an encoder lifetime emits (header packets, audio
   packets: bytes, b_o_s, e_o_s, granulepos, packetno) is identical to what the same calls emit when that encoder is the only one ever created
   on a fresh, identically set-up info (solo reference, run by the executor)."""
import re

LETTERS = 'ABHEFC'


def _next(st):
    out = []
    for s in (0, 1):
        ph, hdr, ne, fin = st[s]
        if ph == 0:
            out.append(('A', s))
        if ph == 1:
            out.append(('B', s))
        if ph >= 1 and not hdr and ne == 0:
            out.append(('H', s))
        if ph == 2 and not fin:
            out.append(('E', s))
            out.append(('F', s))
        if ph >= 1:
            out.append(('C', s))
    return out


def _apply(st, op):
    l, s = op
    ph, hdr, ne, fin = st[s]
    n = {'A': (1, 0, 0, 0), 'B': (2, hdr, ne, fin), 'H': (ph, 1, ne, fin), 'E': (ph, hdr, ne + 1, fin), 'F': (ph, hdr, ne, 1), 'C': (0, 0, 0, 0)}[l]
    r = list(st)
    r[s] = n
    return tuple(r)


def sequences(depth):
    """every legal sequence of 1..depth calls (first call on slot 1), as strings like 'A1A2B2C1E2', shortest first, then lexicographic in generation order"""
    res = []

    def rec(st, seq):
        if seq:
            res.append(''.join('%s%d' % (l, s + 1) for l, s in seq))
        if len(seq) == depth:
            return
        for op in _next(st):
            if not seq and op[1] == 1:
                continue
            rec(_apply(st, op), seq + [op])
    rec(((0, 0, 0, 0), (0, 0, 0, 0)), [])
    res.sort(key=len)            # stable: generation order within a length
    return res


def plan(tier):
    """[(cfg index, depth)]: quick = three set-ups to depth 6; thorough = all seven to depth 6 and the first three to depth 7"""
    if tier == 'quick':
        return [(0, 6), (1, 6), (2, 6)]
    return [(0, 7), (1, 7), (2, 7), (3, 6), (4, 6), (5, 6), (6, 6)]


def parse(line):
    d = {'bad': []}
    for tok in line.split(' ')[1:]:
        if '=' not in tok:
            d.setdefault('flags', []).append(tok)
            continue
        k, v = tok.split('=', 1)
        if k == 'bad':
            d['bad'] = [tuple((x.split('@', 1) + ['?'])[:2]) for x in v.split(';') if x]
        else:
            d[k] = int(v)
    return d


def run(vlib, exe, tier, crash_site, deadline=None, time_fn=None):
    """runs the family; returns (coverage dict, violations [(key, description, replay dict)], exhaustive)"""
    cases = []
    for cfg, depth in plan(tier):
        for s in sequences(depth):
            cases.append((len(s) // 2, cfg, s))
    cases.sort(key=lambda x: (x[0], x[1]))        # by length first: a defect that breaks many sequences is met on the short ones
    cov = {'case_lines': len(cases), 'executed': 0, 'by_length': {}, 'lifetimes': 0, 'two_encoders_alive': 0, 'encoded_after_peer_cleared_ops': 0, 'sequences_encoding_after_peer_cleared': 0,
           'reuse_lifetimes_with_packets': 0, 'packets': 0, 'packets_compared_with_solo': 0, 'leak_observations(C13, not judged here)': {}, 'plan(cfg,depth)': plan(tier)}
    viol, groups, exhaustive = [], {}, True
    pos = 0
    lengths = sorted({c[0] for c in cases})
    for L in lengths:
        chunk = [c for c in cases if c[0] == L]
        if L > 6 and deadline is not None and time_fn() > deadline:      # lengths <= 6 always run (quick has exactly those); longer ones only while there is time
            exhaustive = False
            cov['deadline'] = 'stopped before length %d' % L
            break
        out = vlib.run_cases(exe, ['Q %d %s' % (c[1], c[2]) for c in chunk], ['--timeout', '120'], tag='c15q')
        nbad = 0
        for c, r in zip(chunk, out):
            r = r or 'NOOUTPUT'
            line = 'Q %d %s' % (c[1], c[2])
            if r.startswith('ok'):
                d = parse(r)
                cov['executed'] += 1
                cov['by_length'][L] = cov['by_length'].get(L, 0) + 1
                cov['lifetimes'] += d['lives']
                cov['two_encoders_alive'] += d['two']
                cov['encoded_after_peer_cleared_ops'] += d['cwo']
                cov['sequences_encoding_after_peer_cleared'] += 1 if d['cwo'] else 0
                cov['reuse_lifetimes_with_packets'] += d['reuse']
                cov['packets'] += d['pk']
                cov['packets_compared_with_solo'] += d['cmp']
                if d['leak']:
                    cov['leak_observations(C13, not judged here)'].setdefault('cfg%d:%d bytes' % (c[1], d['leak']), line)
                for kind, det in d['bad']:
                    nbad += 1
                    kind_key = kind.split(':')[0] + (':' + kind.split(':')[1] if kind.startswith('rc:') or '_differ_from_solo_run' in kind else '')
                    groups.setdefault('lifecycle:' + kind_key, []).append((line, kind + '@' + det))
            elif r.startswith('TIMEOUT'):
                nbad += 1
                groups.setdefault('watchdog:lifecycle', []).append((line, r[:200]))
            elif r.startswith('DIED'):
                nbad += 1
                groups.setdefault('sanitizer:%s:lifecycle' % re.sub(r'[^A-Za-z0-9_.:+-]', '_', crash_site(r)), []).append((line, r[:1500]))
            else:
                nbad += 1
                groups.setdefault('executor:lifecycle:' + r[:30].replace(' ', '_'), []).append((line, r[:300]))
        if nbad:
            # a failing length: longer sequences extend these, nothing new would be learnt and every sanitizer death costs a process restart
            if L != lengths[-1]:
                exhaustive = False
                cov['stopped'] = 'violations at length %d: longer sequences not run' % L
            break
    for key, lst in sorted(groups.items()):
        lst.sort(key=lambda x: (len(x[0]), x[0]))
        viol.append((key, '%d call sequences on a shared vorbis_info: %s; shortest: %s -> %s; more: %s' % (len(lst), key, lst[0][0], lst[0][1][:400] if key.startswith('sanitizer') else lst[0][1],
                                                                                                        [x[0] for x in lst[1:4]]), {'life_case': lst[0][0], 'detail': lst[0][1][:1500]}))
    return cov, viol, exhaustive
