"""C14 part E3: set-up REQUEST SEQUENCES in front of real managed encodes (executor harness/c14_seq.c).

"The configured reservoir" of the property is what the APPLICATION requested through the documented control interface, under every
ORDER of set-up requests between vorbis_encode_setup_managed / _vbr and vorbis_encode_setup_init.  Per set-up (base call x sample
rate x channel count) the executor explores the real set-up object as a state graph (states deduplicated by value, transitions =
real vorbis_encode_ctl requests from an alphabet, ALL request sequences up to the depth bound), checks a boring reference model of
the rate-management configuration on every transition (last accepted request that sets a member wins; a request that does not
mention rate management must not change it) and encodes every reachable managed state with a hard limit on signals that press
against the limit, judging every contiguous packet run against the REQUESTED reservoir (same oracle and slack as part E2).
"""
import re
import vlib

# per (rate, channels): nominal kbps of the managed template, VBR quality of the 'v' base, hard max of request A, hard min of B/H,
# (hi, lo) of C and the 'x' base, lowpass of L (kHz), samples per encode
SETUPS = {
    (8000, 1): dict(tmpl=16, q=0.3, mx=6, mn=24, hi=10, lo=8, lp=3.0, n=20000, shards=2),
    (8000, 2): dict(tmpl=16, q=0.3, mx=6, mn=24, hi=10, lo=8, lp=3.0, n=20000, shards=2),
    (44100, 1): dict(tmpl=80, q=0.3, mx=40, mn=128, hi=56, lo=48, lp=12.0, n=66150, shards=6),
    (44100, 2): dict(tmpl=96, q=0.3, mx=48, mn=160, hi=64, lo=56, lp=12.0, n=66150, shards=8),
}
SETUPS_THOROUGH = {
    (22050, 2): dict(tmpl=48, q=0.3, mx=24, mn=80, hi=32, lo=28, lp=7.0, n=44100, shards=4),
}
SIGS = {'max': 'noise,alt', 'min': 'sil,alt', 'both': 'tla,alt'}
SIGS_THOROUGH = {'max': 'noise,alt,mix', 'min': 'sil,alt,imp', 'both': 'tla,alt,noise,sil'}


def plan(tier):
    q = (tier == 'quick')
    alpha = 'ABCSHVKkLIg' if q else 'ABCNSHVKkLIg'
    depth = 3 if q else 4
    setups = dict(SETUPS)
    if not q:
        setups.update(SETUPS_THOROUGH)
    sg = SIGS if q else SIGS_THOROUGH
    groups = []
    for base in (('m', 'v') if q else ('m', 'x', 'v')):
        for (rate, ch), s in sorted(setups.items()):
            ns = s['shards'] * (1 if q else 3)
            head = f"{base} {rate} {ch} {s['tmpl']} {s['q']} {s['mx']} {s['mn']} {s['hi']} {s['lo']} {s['lp']}"
            lines = [f"bfs {head} {alpha} {depth} {s['n']} {k} {ns} {sg['max']} {sg['min']} {sg['both']}" for k in range(ns)]
            groups.append(dict(base=base, rate=rate, ch=ch, head=head, n=s['n'], lines=lines, name=f"{base}:{rate}:{ch}"))
    return alpha, depth, groups


def kv(line):
    d = {}
    for m in re.finditer(r'(\w+)=("[^"]*"|\S+)', line):
        d[m.group(1)] = m.group(2).strip('"')
    return d


GRAPH_KEYS = ('states', 'trans', 'paths', 'rejected', 'resync', 'acc', 'layers', 'judged', 'jmax', 'jmin', 'jboth', 'jcbr', 'off', 'nolimit', 'unsat', 'kafter_judged_states', 'kafter_paths')
SUM_KEYS = ('enc', 'validated', 'diverged', 'packets', 'runs', 'trunc', 'pad', 'hit0', 'hitfull', 'short', 'long', 'nearmax', 'nearmin', 'kafter_near_states', 'kafter_near_paths')


def run_family(chk, tier, exe, broken):
    """Runs E3, registers violations / coverage / guards on chk; returns (states, transitions, validated, nontrivial) to add to the totals."""
    alpha, depth, groups = plan(tier)
    lines = [ln for g in groups for ln in g['lines']]
    # heavy lines (44.1 kHz) first so that the shards of one set-up do not all end up at the tail of one worker
    order = sorted(range(len(lines)), key=lambda i: -int(lines[i].split()[2]))
    res_sorted = vlib.run_cases(exe, [lines[i] for i in order], ['--timeout', '900'], tag='c14e3')
    res = [None] * len(lines)
    for i, r in zip(order, res_sorted):
        res[i] = r
    tot = {k: 0 for k in SUM_KEYS}
    tot.update(states=0, trans=0, paths=0, rejected=0, resync=0, judged=0, jmax=0, jmin=0, jboth=0, jcbr=0, off=0, nolimit=0, unsat=0, kafter_judged_states=0, kafter_paths=0)
    accepted = [[0] * len(alpha) for _ in range(depth)]
    table = []
    samples = []
    disagree = []
    worstp = worstm = -1e18
    pos = 0
    for g in groups:
        rs = res[pos:pos + len(g['lines'])]
        pos += len(g['lines'])
        first = None
        gsum = {k: 0 for k in SUM_KEYS}
        for ln, r in zip(g['lines'], rs):
            r = r or 'NOOUTPUT'
            if r.startswith('cfgerr'):
                broken.append('e3 ' + ln + ' -> ' + r)
                continue
            if not (r.startswith('ok') or r.startswith('VIOL')):
                chk.violation(f"e3:executor_{r.split()[0].lower()}:{g['base']}:{g['rate']}", f"set-up sequence executor failed on [{ln}]: {r[:300]}", {'part': 'e3', 'case': ln})
                continue
            d = kv(r)
            chk.cov['evaluations'] += int(d['enc'])
            if first is None:
                first = d
            elif any(d[k] != first[k] for k in GRAPH_KEYS):
                disagree.append(g['name'])
            for k in SUM_KEYS:
                gsum[k] += int(d[k])
            if d['worstp'] != 'na':
                worstp = max(worstp, float(d['worstp']))
            if d['worstm'] != 'na':
                worstm = max(worstm, float(d['worstm']))
            for i in range(int(d.get('nv', 0))):
                kind, mode, seq, sig, det = d[f'v{i}'].split('|', 4)
                rsig = sig if sig != '-' else {'max': 'noise', 'min': 'sil'}.get(mode, 'alt')
                case = f"seq {g['head']} {seq} {rsig} {g['n']}"
                key = f"e3:{kind}" if kind.startswith('cfg:') else f"e3:{kind}:{mode}"
                chk.violation(key, f"base '{g['base']}' ({g['rate']} Hz, {g['ch']} ch) + requests '{seq}'" + (f", signal {sig}" if sig != '-' else '') + f": {det}", {'part': 'e3', 'case': case})
        if first is None:
            continue
        for k in ('states', 'trans', 'paths', 'rejected', 'resync', 'judged', 'jmax', 'jmin', 'jboth', 'jcbr', 'off', 'nolimit', 'unsat', 'kafter_judged_states', 'kafter_paths'):
            tot[k] += int(first[k])
        for k in SUM_KEYS:
            tot[k] += gsum[k]
        for p, row in enumerate(first['acc'].split('/')):
            for a, bit in enumerate(row):
                accepted[p][a] |= int(bit)
        table.append(f"{g['name']} states={first['states']} transitions={first['trans']} sequences={first['paths']} layers={first['layers']} rejected={first['rejected']} judged_states={first['judged']}"
                     f"(max {first['jmax']} min {first['jmin']} both {first['jboth']} cbr {first['jcbr']}) off={first['off']} nolimit={first['nolimit']} encodes={gsum['enc']} near_full={gsum['nearmax']} near_empty={gsum['nearmin']}"
                     f" coupling_after_r2set: states={first['kafter_judged_states']} sequences={first['kafter_paths']} near_full_sequences={gsum['kafter_near_paths']}")
        if len(samples) < 2:
            samples.append({'e3': g['lines'][0], 'result': (rs[0] or '')[:300]})
    never = [f"{alpha[a]}@{p + 1}" for p in range(depth) for a in range(len(alpha)) if not accepted[p][a]]
    chk.cov['e3'] = {
        'alphabet': alpha, 'depth': depth, 'setups': len(groups), 'states': tot['states'], 'transitions': tot['trans'], 'request_sequences_covered': tot['paths'],
        'rejected_requests': tot['rejected'], 'model_reread_after_v1_or_rejected_rate_request': tot['resync'],
        'judged_states': {'total': tot['judged'], 'max': tot['jmax'], 'min': tot['jmin'], 'both': tot['jboth'], 'cbr': tot['jcbr']},
        'not_judged_states': {'management_off': tot['off'], 'no_hard_limit': tot['nolimit'], 'min_above_max': tot['unsat']},
        'encodes': tot['enc'], 'packets': tot['packets'], 'runs': tot['runs'], 'trunc': tot['trunc'], 'pad': tot['pad'], 'hit0': tot['hit0'], 'hitfull': tot['hitfull'],
        'short': tot['short'], 'long': tot['long'], 'histories_replayed_on_fresh_objects': tot['validated'], 'diverged': tot['diverged'],
        'encodes_max_monitor_within_10pct_of_requested_reservoir': tot['nearmax'], 'encodes_min_monitor_within_10pct_of_requested_reservoir': tot['nearmin'],
        'worst_excess_minus_R': round(worstp, 1), 'worst_deficit_minus_R': round(worstm, 1),
        'coupling_set_after_ratemanage2_set_with_max': {'judged_states': tot['kafter_judged_states'], 'sequences': tot['kafter_paths'], 'states_near_full': tot['kafter_near_states'], 'sequences_near_full': tot['kafter_near_paths']},
        'never_accepted_request_at_position': never, 'table': table,
    }
    chk.cov['samples_e3'] = samples
    chk.assumptions += [
        'E3 reference model of the rate-management configuration: initialised from OV_ECTL_RATEMANAGE2_GET after the base set-up call; an accepted RATEMANAGE2_SET(struct) sets all seven members to the requested values '
        '(read-back judged); RATEMANAGE2_SET(NULL) clears management_active (documented), the other members are re-read; requests that do not mention rate management (COUPLING_SET, LOWPASS_SET, IBLOCK_SET and all '
        'read requests), accepted or rejected, must leave all seven members as they were',
        'E3: the deprecated v1 requests (RATEMANAGE_SET / _AVG / _HARD) are documented only as a simulation of the old windowing interface (and the header gives kbps where the code takes bps), so their mapping onto '
        'reservoir / limits is not judged: the model is re-read through RATEMANAGE2_GET right after them; likewise after a REJECTED rate request (the header does not promise that a refused request has no effect). '
        'What is judged for them is everything that follows: later requests must not change what they left, and the encode must honour the values the application can read back',
        'E3: states of the set-up object are deduplicated by value (all highlevel_encode_setup members, vorbis_info scalars, hash of the rest of codec_setup_info, reference model); an encode is a function of that state, '
        'so one encode per distinct state covers every request sequence that reaches it; each encoded state is re-created on a fresh object from its shortest history and compared with the copy',
        'E3: request A uses reservoir_bias 0 because with a hard max only the reservoir never drops below its preferred fill level, so only bias 0 lets a run exceed the rate by the whole reservoir',
    ]
    chk.guard(not disagree, f"E3: all shards of a set-up agree on the explored graph ({sorted(set(disagree))[:3]})")
    chk.guard(tot['diverged'] == 0, f"E3: request histories replayed on fresh objects reproduce the copied states ({tot['diverged']} divergences)")
    chk.guard(tot['validated'] >= tot['judged'] > 0, f"E3: every judged state was re-created on a fresh object ({tot['validated']}/{tot['judged']})")
    chk.guard(not never, f"E3: each request kind was accepted at each sequence position at least once (never: {never[:6]})")
    chk.guard(tot['rejected'] > 0, 'E3: some requests were rejected (COUPLING_SET 0 in managed mode)')
    chk.guard(tot['jmax'] > 0 and tot['jmin'] > 0 and tot['jboth'] > 0, 'E3: states with max only, min only and both limits were encoded')
    chk.guard(tot['kafter_near_paths'] >= 40 and tot['kafter_near_states'] >= 8,
              f"E3: in >= 40 request sequences (>= 8 states) with an accepted COUPLING_SET after a RATEMANAGE2_SET with a hard max the max monitor came within 10% of the requested reservoir ({tot['kafter_near_paths']} / {tot['kafter_near_states']})")
    chk.guard(tot['nearmax'] >= 50 and tot['nearmin'] >= 50, f"E3: signals drive the reservoir to its limits (max monitor near R in {tot['nearmax']} encodes, min monitor in {tot['nearmin']})")
    chk.guard(tot['trunc'] > 0 and tot['pad'] > 0 and tot['hit0'] > 0 and tot['hitfull'] > 0, 'E3: truncation, padding, reservoir empty and reservoir full all occurred')
    nontriv = tot['states'] - len(groups)
    return tot['states'], tot['trans'], tot['validated'], nontriv
