"""Stream synthesis on top of vspec + execution of synthesised streams on the real library (c01_dec) + comparison."""
import os, struct, subprocess, itertools
import numpy as np
import vlib, vspec
from vspec import Codebook, Floor0, Floor1, Residue, Mapping, Mode, Setup, float32_pack, ilog


# ------------------------------------------------------------------ choosers
class Filler:
    """Deterministic symbol source for WriteIO.  `fixed` pins named symbols (type/mode/prev/next ...);
    everything else comes from `fn(kind, what, ctx, domain, k)` where k counts the free choices made so far,
    default: a multiplicative sequence over the symbol's domain."""

    def __init__(self, fixed=None, fn=None, a=7, b=3):
        self.fixed = dict(fixed or {})
        self.fn = fn
        self.k = 0
        self.a, self.b = a, b
        self.trace = []

    def __call__(self, kind, what, ctx, dom):
        if what in self.fixed:
            v = self.fixed[what]
            if callable(v):
                v = v(ctx, dom)
        else:
            k = self.k
            self.k += 1
            if self.fn is not None:
                v = self.fn(kind, what, ctx, dom, k)
            else:
                v = None
            if v is None:
                x = (k * self.a + self.b + (k >> 3))
                lim = ctx[1] if (isinstance(ctx, tuple) and ctx and ctx[0] == 'lim') else None
                if kind == 'bits':
                    v = x % (min(1 << dom, lim) if lim else (1 << dom)) if dom else 0
                else:
                    used = [e for e, l in enumerate(dom.lengths) if l > 0 and (lim is None or e < lim)]
                    v = used[x % len(used)]
        self.trace.append(v)
        return v


def make_packet(setup, mode, filler, prev=1, nxt=1):
    io = vspec.WriteIO(filler)
    filler.fixed.update({'type': 0, 'mode': mode, 'prev': prev, 'next': nxt})
    vspec.PacketCodec(setup).run(io)
    return io.w.bytes()


def flags_for(setup, modeseq):
    """consistent previous/next window flags for a sequence of mode numbers"""
    out = []
    for i, m in enumerate(modeseq):
        W = setup.modes[m].blockflag
        pv = setup.modes[modeseq[i - 1]].blockflag if i > 0 else W
        nx = setup.modes[modeseq[i + 1]].blockflag if i + 1 < len(modeseq) else W
        out.append((pv, nx))
    return out


# ------------------------------------------------------------- book builders
def flat_book(entries, dim=1, lookup=0, **kw):
    """all codewords of equal length (entries must be a power of two, or 1)"""
    l = max(1, ilog(entries - 1))
    assert entries == 1 or (1 << l) == entries
    return Codebook(dim, [l] * entries, lookup, **kw)


def lattice_book(dim, per_dim, minv=-1, delta=1, value_bits=None, sequence_p=0, lengths=None):
    """lookup type 1 book with per_dim**dim entries (padded to a power of two by unused... no: full tree over exactly per_dim**dim entries needs explicit lengths)"""
    entries = per_dim ** dim
    if lengths is None:
        lengths = complete_lengths(entries)
    vb = value_bits or max(1, ilog(per_dim - 1))
    return Codebook(dim, lengths, 1, minv=fpack(minv), delta=fpack(delta), value_bits=vb, sequence_p=sequence_p, mults=list(range(per_dim)))


def complete_lengths(n):
    """a complete prefix code for n >= 1 symbols: lengths floor/ceil(log2 n)"""
    if n == 1:
        return [1]
    l = ilog(n - 1)
    short = (1 << l) - n       # number of codewords of length l-1
    return [l - 1] * short + [l] * (n - short)


def fpack(x):
    """pack a float that is exactly m * 2**e with small m"""
    if x == 0:
        return float32_pack(0, 0)
    import math
    m, e = math.frexp(x)
    mant = int(round(m * (1 << 20)))
    e2 = e - 20
    while mant and mant % 2 == 0:
        mant //= 2
        e2 += 1
    assert abs(mant) < (1 << 21)
    v = float32_pack(mant, e2)
    assert vspec.float32_unpack(v) == x, (x, vspec.float32_unpack(v))
    return v


def base_setup(channels=1, bs0=64, bs1=128, rate=8000, restype=1, floortype=1, mult=2, coupling=(), psize=4, vqdim=2):
    """S1: small but complete: classbook, floor book(s), one lattice VQ book; two modes (short, long)."""
    books = [
        Codebook(1, [1, 1], 0),                                        # 0 classbook: 2 classes
        flat_book(8, 1, 0),                                            # 1 floor1 Y book / floor0 unused
        lattice_book(vqdim, 3, minv=-1, delta=1),                      # 2 VQ: {-1,0,1}^vqdim
        lattice_book(2, 2, minv=0.3125, delta=0.1875, sequence_p=1),     # 3 floor0 LSP book (strictly ascending, well separated)
    ]
    if floortype == 1:
        rb = ilog(bs0 // 2) - 1      # X range = half short block
        xs = sorted(set([(1 << rb) * k // 5 for k in range(1, 5)]))
        fl = Floor1([0, 0], [2], [0], [0], [[1]], mult, rb, xs[:4])
    else:
        fl = Floor0(4, rate, 16, 4, 20, [3])
    rs = Residue(restype, 0, bs1 // 2 * (channels if restype == 2 else 1), psize, 2, 0, [0, 1], [[-1] * 8, [2] + [-1] * 7])
    mp = Mapping(1, list(coupling), [0] * channels, [0], [0])
    return Setup(channels, rate, bs0, bs1, books, [fl], [rs], [mp], [Mode(0, 0), Mode(1, 0)])


# ------------------------------------------------------ running on the library
class Stream:
    def __init__(self, setup, packets, grans=None, eos=None, headers=None, tag=None):
        self.setup, self.packets = setup, list(packets)
        self.grans = grans or [-1] * len(packets)
        self.eos = eos or [0] * len(packets)
        self.headers = headers or vspec.headers(setup)
        self.tag = tag


def write_batch(path, streams):
    with open(path, 'wb') as f:
        f.write(struct.pack('<i', len(streams)))
        for st in streams:
            allp = [(h, 0, 1 if i == 0 else 0) for i, h in enumerate(st.headers)] + [(p, g, 2 if e else 0) for p, g, e in zip(st.packets, st.grans, st.eos)]
            f.write(struct.pack('<i', len(allp)))
            for p, g, fl in allp:
                f.write(struct.pack('<iqi', len(p), g, fl))
                f.write(p)


def read_batch(path, streams):
    data = open(path, 'rb').read()
    o = 0
    out = []
    for st in streams:
        if o + 20 > len(data):
            out.append(None)          # executor died before this stream
            continue
        hrc = struct.unpack_from('<3i', data, o)
        initrc, ch = struct.unpack_from('<2i', data, o + 12)
        o += 20
        pk = []
        ok = True
        for _ in st.packets:
            if o + 16 > len(data):
                ok = False
                break
            src, brc, bits, n = struct.unpack_from('<4i', data, o)
            o += 16
            pcm = None
            if n > 0:
                need = 4 * n * ch
                if o + need > len(data):
                    ok = False
                    break
                pcm = np.frombuffer(data, dtype='<f4', count=n * ch, offset=o).reshape(ch, n)
                o += need
            pk.append((src, brc, bits, n, pcm))
        out.append({'hrc': hrc, 'initrc': initrc, 'ch': ch, 'packets': pk} if ok else None)
    return out


_seq = itertools.count()


def run_lib(streams, flavour='plain', tag='c01'):
    exe = vlib.harness(flavour, 'c01_dec')
    tmp = os.path.join(vlib.BUILD, 'tmp')
    os.makedirs(tmp, exist_ok=True)
    base = os.path.join(tmp, f'{tag}.{os.getpid()}.{next(_seq)}')
    write_batch(base + '.in', streams)
    p = subprocess.run([exe, base + '.in', base + '.out'], stdout=subprocess.PIPE, stderr=subprocess.PIPE, env=vlib.run_env())
    res = read_batch(base + '.out', streams)
    rc = p.returncode
    err = p.stderr.decode('latin-1')[-2000:]
    os.unlink(base + '.in')
    os.unlink(base + '.out')
    return res, rc, err


def reference(st):
    """reference decode of a stream: list per packet of None (discarded) or (pcm, tol); plus decoder (for .outside)"""
    rd = vspec.RefDecoder(st.setup)
    out = []
    for p in st.packets:
        out.append(rd.feed(p))
    return out, rd


def compare(st, lib, ref, rd):
    """returns list of discrepancy strings (empty = conforming).  Only sample counts and sample values are judged."""
    bad = []
    stats = {'samples': 0, 'judged': 0, 'maxratio': 0.0, 'nonzero': 0}
    if lib is None:
        return ['executor produced no result (crash / watchdog)'], stats
    if lib['hrc'] != (0, 0, 0) or lib['initrc'] != 0:
        return [f'valid headers rejected: headerin={lib["hrc"]} init={lib["initrc"]}'], stats
    for i, ((src, brc, bits, n, pcm), r) in enumerate(zip(lib['packets'], ref)):
        if r is None:
            if src == 0:
                bad.append(f'packet {i}: reference discards the packet, library accepted it')
            continue
        if src != 0 or brc != 0:
            bad.append(f'packet {i}: valid packet rejected (synthesis={src} blockin={brc})')
            break
        rp, rt = r
        # granule-position trimming (spec A.2): samples discarded at the start of the second audio packet's output / at the end of the eos packet's
        ts = getattr(st, 'trim_start', 0)
        if ts and i == 1:
            rp, rt = rp[:, ts:], rt[:, ts:]
        te = getattr(st, 'trim_end_keep', None)
        if te is not None and i == len(st.packets) - 1:
            rp, rt = rp[:, :te], rt[:, :te]
        if rp.shape[1] != n:
            bad.append(f'packet {i}: sample count {n}, specification {rp.shape[1]}')
            break
        if n == 0:
            continue
        diff = np.abs(pcm.astype(np.float64) - rp)
        stats['samples'] += diff.size
        fin = np.isfinite(rt) & (rt < 1e-3 * (np.abs(rp) + 1e-12) + 1e-9)      # samples whose budget is tight enough to mean something
        stats['judged'] += int(fin.sum())
        stats['nonzero'] += int((np.abs(rp) > 0).sum())
        over = diff > rt
        if over.any():
            c, k = np.argwhere(over)[0]
            bad.append(f'packet {i} ch {c} sample {k}: library {pcm[c, k]!r} specification {rp[c, k]!r} |diff| {diff[c, k]:.3e} > tolerance {rt[c, k]:.3e}')
            break
        with np.errstate(divide='ignore', invalid='ignore'):
            ratio = np.where(rt > 0, diff / rt, 0)
        stats['maxratio'] = max(stats['maxratio'], float(ratio.max()))
    return bad, stats
