"""C12 open-API family: every fault schedule of an OPEN, through every public open flavour, with a judged
"failure surfaces" clause.

Space (bound 1, exhaustive): for every file of FILES x open flavour
    o  ov_open_callbacks (seekable)            O  ov_open_callbacks (read/close callbacks only)
    t  ov_test_callbacks + ov_test_open        T  the same, streaming
    c  ov_test_callbacks + ov_clear            C  the same, streaming
the open is run fault-free to count its N callback invocations (both steps of a two-step open are counted through)
and to learn the callback class of every invocation from the executor's trace; then once for every invocation index
k < N x every fault kind of k's callback class {read: 0 bytes + errno, 0 bytes, 1 byte; seek: -1; tell: -1} x
{one-shot, persisting from k}.  (A fault kind of another class at k is never applied by the scripted source, so
that schedule IS the fault-free run: exact reduction.)

Oracle
  safety   no sanitizer report / crash, every call returns (CPU watchdog, confirmed alone with 10x the limit),
           return values are 0 or an OV_* code;
  source   a failed open of ANY flavour, in either step, leaves the handle all-zero, never invokes the close callback,
           and neither do two ov_clear calls on that handle; a successful open (or a successful first step followed by
           ov_clear) is closed exactly once by the first ov_clear;
  api      the same schedule through the two-step flavour and through ov_open_callbacks: both succeed or both fail, and
           if they succeed the application-visible views and the canonical internal state are identical;
  surfaces a HARD failure of a callback (read returning 0 with errno set; seek or tell returning -1) that was really
           applied during an open either makes the open return a negative code, or has no effect: the handle's view
           (links, serial numbers, raw/pcm/time totals, rates, channels, comments per link; the position after open
           and the first read from it; a raw seek to every page boundary of the file + read + sample seek) is identical
           to the fault-free handle's.  "Surfaces as end-of-file" is accepted too: position after open == pcm total and
           the first read returns 0, everything else identical.  Benign short reads (1 byte) must have no effect at all
           when the open succeeds.  Premature zero reads (no errno) are legitimate end-of-data answers: safety, source
           and api clauses only.
           Classes in which the unchanged tree swallows a hard failure AND changes the view are named in EXEMPT below
           (candidate defects reported to the lead), counted in the evidence and not judged.
"""
import os, json, time
import vlib, zoo

CHUNKSIZE = 65536
# fault kinds: name -> (memio deviation number, arg, callback class)
FAULTS = {'err': (3, 0, 'R'), 'zero': (2, 0, 'R'), 'one': (1, 1, 'R'), 'seek': (4, 0, 'S'), 'tell': (5, 0, 'T')}
FORDER = ('err', 'zero', 'one', 'seek', 'tell')
HARD = ('err', 'seek', 'tell')
OV_CODES = set([-1, -2, -3] + list(range(-138, -127)))
SEEKABLE_APIS = ('o', 't', 'c')
STREAM_APIS = ('O', 'T', 'C')
TWOSTEP = {'t': 'o', 'T': 'O'}


def parse(line):
    if line is None:
        return {'err': 'NOOUTPUT'}
    if line.startswith('DIED') or line.startswith('TIMEOUT') or line.startswith('BAD'):
        return {'err': line}
    d = {}
    for tok in line.split(' '):
        if '=' in tok:
            k, v = tok.split('=', 1)
            d[k] = v
    try:
        d['A'] = int(d['A'])
        d['B'] = None if d['B'] == 'x' else int(d['B'])
        for k in ('E1', 'E', 'D', 'FH', 'C', 'C1', 'C2', 'NP'):
            d[k] = int(d[k])
    except (KeyError, ValueError):
        return {'err': 'BADOUT ' + line[:200]}
    d['ok'] = d['A'] == 0 and (d['B'] is None or d['B'] == 0)
    d['rc'] = d['A'] if d['A'] != 0 or d['B'] is None else d['B']
    return d


def parse_trace(tr):
    """'R<pos>:<n>,S<off>:<rc>,N..,U..,T<ret>:0' -> list of (class, kind letter, a, b)"""
    out = []
    if tr in (None, '-', ''):
        return out
    for it in tr.split(','):
        k, rest = it[0], it[1:]
        a, b = rest.split(':')
        out.append(('R' if k == 'R' else 'T' if k == 'T' else 'S', k, int(a), int(b)))
    return out


def env_str(f):
    if not f:
        return '-'
    return ';'.join('%d:%d:%d:%d' % (k, FAULTS[kind][0], FAULTS[kind][1], per) for k, kind, per in f)


def fault_name(f):
    return '+'.join('%s%s@%d' % (kind, '*' if per else '', k) for k, kind, per in f) or 'none'


class OFile:
    def __init__(self, idx, name, path, meta):
        self.idx, self.name, self.path, self.meta = idx, name, path, meta
        self.data = open(path, 'rb').read()
        self.pages = vlib.parse_pages(self.data)
        self.size = len(self.data)
        self.nl = len(meta['links'])
        self.shape = 'single' if self.nl == 1 else 'chain%d' % self.nl
        if meta['links'][-1].get('foreign'):
            self.shape += '_muxtail'


def files_for(tier, std=None, extra=None):
    """name -> (path, meta).  single links (small, with a non-zero initial granule position, larger than CHUNKSIZE), 2- and 3-link chains
    (small and with links larger than CHUNKSIZE), chains whose last link ends in a foreign page (open's inner backward search)."""
    allf = std or zoo.standard_files()
    extra = extra or {}
    f = {}
    f['F1'] = allf['F1']
    f['F4'] = allf['F4']                                                          # single link, first granule position 1000
    f['M1'] = vlib.chain('c12_m1', [zoo.link('M', 1401, 'natural', goff=5000, n=110000)])   # single link > CHUNKSIZE, first granule position 5000
    f['TWO'] = vlib.chain('c12_two', [zoo.link('A', 1411, '3'), zoo.link('B', 1412, '3')])
    f['F2'] = allf['F2']
    f['BIG2'] = vlib.chain('c12_big2', [zoo.link('M', 1421, 'natural'), zoo.link('G', 1422, '3')])   # 2 links, bisection hops; 2nd link starts at granule 1000
    for n in ('MT2', 'MT3', 'BIG'):
        if n in extra:
            f[n] = extra[n]
    if tier == 'thorough':
        f['F2z'] = allf['F2z']
        f['F6'] = allf['F6']
        f['F5'] = allf['F5']
    return f


class OpenFamily:
    def __init__(self, chk, tier, files, deadline, timeout):
        self.chk, self.tier, self.deadline, self.timeout = chk, tier, deadline, timeout
        self.exe = vlib.harness('asan', 'c12_open')
        names = list(files.keys())
        self.listfile = vlib.write_file('c12_open_files_%s.txt' % tier, ('\n'.join(files[n][0] for n in names) + '\n').encode())
        self.files = [OFile(i, n, files[n][0], files[n][1]) for i, n in enumerate(names)]
        self.executed = 0
        self.cut = False
        self.machinery = []
        self.stats = {}
        self.effective = set()
        self.outcomes = set()
        self.samples = []
        self.pending_timeouts = []
        self.base = {}        # (file, api) -> parsed fault-free result
        self.trace = {}       # (file, api) -> trace
        self.results = {}     # (file, api, faults) -> parsed
        self.swallow = {}     # measured: (kind, per?, file shape, region) -> [same view, eof view, changed view]
        self.exempt_hits = {}
        self.timing = []
        self.twostep_fail = {}       # (api, failing step) -> {(kind, persisting)}
        self.afp_hits = {}           # file -> {(api, persisting, k)}: hard read errors injected after the first page of the first backward-scan chunk
        self.after_first_page = {}

    # -------------------------------------------------------------- plumbing
    def case(self, of, api, f, verbose=False):
        return '%d %s%s %s' % (of.idx, api, 'v' if verbose else '', env_str(f))

    def run(self, cases, timeout=None, jobs=None):
        if not cases:
            return []
        args = ['--files', self.listfile, '--timeout', str(timeout or self.timeout)]
        res = vlib.run_cases(self.exe, cases, args, tag='c12o', jobs=jobs)
        self.executed += len(cases)
        for _ in range(8):
            # a worker that printed TIMEOUT exits; run_cases marks the next case of the shard DIED rc=3 without running it
            redo = [i for i, r in enumerate(res) if r is None or r.startswith('DIED rc=3 ')]
            if not redo:
                break
            again = vlib.run_cases(self.exe, [cases[i] for i in redo], args, tag='c12or', jobs=jobs)
            self.executed += len(redo)
            stable = all(a == res[i] for i, a in zip(redo, again))
            for i, a in zip(redo, again):
                res[i] = a
            if stable:
                break
        return [parse(r) for r in res]

    def bump(self, k, n=1):
        self.stats[k] = self.stats.get(k, 0) + n

    def replay_of(self, of, api, f, what):
        return {'family': 'openapi', 'file': of.name, 'path': of.path, 'api': api, 'faults': [list(x) for x in f], 'env': env_str(f), 'what': what,
                'case': self.case(of, api, f, True), 'tier': self.tier}

    # -------------------------------------------------------------- baselines
    def baselines(self):
        cases, idx = [], []
        for of in self.files:
            for api in SEEKABLE_APIS + STREAM_APIS:
                cases.append(self.case(of, api, (), True))
                idx.append((of, api))
        res = self.run(cases)
        live = []
        for (of, api), r in zip(idx, res):
            if 'err' in r or not r['ok']:
                what = r.get('err', 'open returned %s' % r.get('rc'))
                if 'err' in r and (r['err'].startswith('BAD') or r['err'].startswith('DIED rc=2 ') or r['err'] == 'NOOUTPUT'):
                    self.machinery.append((of.name, api, what[:200]))
                elif 'err' in r:
                    self.chk.violation('openapi_%s:fault_free_baseline:%s' % ('timeout' if r['err'].startswith('TIMEOUT') else 'crash', of.shape),
                                       'fault-free open of %s through flavour %s: %s' % (of.name, api, what[:500]), self.replay_of(of, api, (), 'safety'))
                else:
                    self.chk.guard(False, 'fault-free open of %s through flavour %s succeeds (%s)' % (of.name, api, what))
                continue
            self.base[(of.name, api)] = r
            self.trace[(of.name, api)] = parse_trace(r.get('TR'))
            live.append((of, api))
            if len(self.trace[(of.name, api)]) < r['E']:
                self.machinery.append((of.name, api, 'trace shorter than the point count'))
        # fault-free: source discipline and the flavours agree with each other
        for of, api in live:
            b = self.base[(of.name, api)]
            self.judge_source(of, api, (), b)
            one = TWOSTEP.get(api)
            if one and (of.name, one) in self.base:
                self.judge_api(of, api, (), b, self.base[(of.name, one)])
        return live

    # -------------------------------------------------------------- judging
    def view(self, r):
        return (r['SV'], r['IV'], r['DV'], r['NP'])

    def judge_source(self, of, api, f, r):
        """close-callback / handle discipline of one executed case; returns False if it could not be judged"""
        where = '%s through %s, faults %s' % (of.name, api, fault_name(f))
        kf = self.kinds(f)
        if r['ok']:
            if not (r['C'] == 0 and r['C1'] == 1 and r['C2'] == 1):
                self.chk.violation('openapi_close_count_after_success:%s:%s:%s' % (api, kf, of.shape),
                                   '%s: open succeeded; close callback count after open / first ov_clear / second ov_clear = %d/%d/%d, expected 0/1/1' % (where, r['C'], r['C1'], r['C2']),
                                   self.replay_of(of, api, f, 'source'))
        else:
            step = 1 if r['A'] != 0 else 2
            if r['C'] != 0:
                self.chk.violation('openapi_failed_open_closed_source:%s:step%d:%s:%s' % (api, step, kf, of.shape),
                                   '%s: step %d of the open returned %d and the close callback had been invoked %d time(s) when it returned: the data source was closed behind the caller\'s back'
                                   % (where, step, r['rc'], r['C']), self.replay_of(of, api, f, 'source'))
            elif r['C2'] != 0:
                self.chk.violation('openapi_clear_after_failed_open_closed_source:%s:step%d:%s:%s' % (api, step, kf, of.shape),
                                   '%s: step %d of the open returned %d; ov_clear (twice) on the handle then invoked the close callback %d time(s)' % (where, step, r['rc'], r['C2']),
                                   self.replay_of(of, api, f, 'source'))
            if r['Z'] != '1':
                self.chk.violation('openapi_failed_open_not_zeroed:%s:step%d:%s:%s' % (api, step, kf, of.shape),
                                   '%s: step %d of the open returned %d but the handle is not all-zero' % (where, step, r['rc']), self.replay_of(of, api, f, 'source'))
            if r['rc'] not in OV_CODES:
                self.chk.violation('openapi_open_code:%s:step%d:%s:%s' % (api, step, kf, of.shape), '%s: step %d returned %d, not an OV_* code' % (where, step, r['rc']),
                                   self.replay_of(of, api, f, 'safety'))
        return True

    def judge_api(self, of, api, f, r2, r1):
        """two-step result r2 against the one-step result r1 of the same schedule"""
        where = '%s, faults %s' % (of.name, fault_name(f))
        kf = self.kinds(f)
        if r2['ok'] != r1['ok']:
            self.chk.violation('openapi_two_step_differs_from_one_step_success:%s:%s:%s' % (api, kf, of.shape),
                               '%s: ov_test_callbacks+ov_test_open returned %d/%s, ov_open_callbacks under the same callback answers returned %d' % (where, r2['A'], r2['B'], r1['rc']),
                               self.replay_of(of, api, f, 'api'))
        elif r2['ok'] and (self.view(r2) != self.view(r1) or r2['H'] != r1['H'] or r2['E'] != r1['E']):
            what = 'stream structure' if r2['SV'] != r1['SV'] else 'position after open' if r2['IV'] != r1['IV'] else 'seek behaviour' if r2['DV'] != r1['DV'] else 'internal state / callback count'
            self.chk.violation('openapi_two_step_handle_differs_from_one_step:%s:%s:%s' % (api, kf, of.shape),
                               '%s: the handle opened by ov_test_callbacks+ov_test_open differs from the one opened by ov_open_callbacks under the same callback answers in its %s: %s | %s  vs  %s | %s'
                               % (where, what, r2['SV'][:300], r2['IV'], r1['SV'][:300], r1['IV']), self.replay_of(of, api, f, 'api'))
        self.bump('api_pairs_compared')

    @staticmethod
    def kinds(f):
        return '+'.join('%s%s' % (kind, '*' if per else '') for _, kind, per in f) or 'none'

    def region(self, of, api, k):
        """names the part of the fault-free open that consumes callback k, from the executor's trace alone:
        seekable_probe  index 0, the SEEK_CUR by which the library finds out whether the source can seek at all
        headers         the rest of step 1 (ov_test_callbacks: fetch of the first link's headers)
        first_pcm_offset reads between step 1 and the SEEK_END (initial PCM offset of the first link)
        seek_end, tell_end   the SEEK_END / tell pair that measures the file
        end_scan        the SEEK_SET that follows and the reads after it, up to the next seek: the first backward-scan chunk (last page of the file)
        structure_scan  everything between that and the last SEEK_SET of the open (further backward scans, bisection, header fetches of later links)
        final_seek, final_seek_reads   the last SEEK_SET of the open and the reads after it (ov_raw_seek to the first audio page)"""
        tr = self.trace[(of.name, api)]
        b = self.base[(of.name, api)]
        n = b['E']
        if api in STREAM_APIS:
            return 'headers'
        cls, kl = tr[k][0], tr[k][1]
        if k == 0 and kl == 'U':
            return 'seekable_probe'
        e1 = self.base[(of.name, 'c')]['E'] if (of.name, 'c') in self.base else None
        if e1 is not None and k < e1:
            return 'headers'
        iend = next((i for i in range(n) if tr[i][1] == 'N'), None)
        if iend is None:
            return 'phase2'
        if k < iend:
            return 'first_pcm_offset'
        if k == iend:
            return 'seek_end'
        if k == iend + 1 and cls == 'T':
            return 'tell_end'
        last_set = max(i for i in range(n) if tr[i][1] == 'S')
        if k == last_set:
            return 'final_seek'
        if k > last_set:
            return 'final_seek_reads'
        nxt = next((i for i in range(iend + 3, n) if tr[i][0] != 'R'), n)
        if tr[iend + 2][1] == 'S' and iend + 2 <= k < nxt:
            return 'end_scan'
        return 'structure_scan'

    def judge_surfaces(self, of, api, f, r):
        """failure-surfaces clause for a schedule whose deviation was applied (D >= 1) and whose open succeeded"""
        b = self.base[(of.name, api)]
        k, kind, per = f[0]
        reg = self.region(of, api, r['FH'] if r['FH'] >= 0 else k)
        same = self.view(r) == self.view(b)
        eof = False
        if reg == 'seekable_probe' and not same and api in ('o', 't'):
            # the library asks the source whether it can seek; "no" is an answer, not a failure: the handle must then be the streaming handle
            sb = self.base.get((of.name, api.upper()))
            same = sb is not None and r['SV'] == sb['SV']
            self.bump('seekable_probe_refused_handle_is_streaming_handle' if same else 'seekable_probe_refused_handle_differs')
        if not same and api in SEEKABLE_APIS and r['SV'] == b['SV'] and r['DV'] == b['DV'] and r['NP'] == b['NP']:
            # "surfaces as end-of-file": the handle stands at the end of the stream (what the first read after the callbacks work again delivers
            # from there is the business of the seek checks: ov_raw_seek answers a failing read this way after open, too)
            tot = self.total_of(b['SV'])
            eof = tot is not None and r['IV'].split(':')[0] == 'p%d' % tot
        cls = 'same' if same else 'eof' if eof else 'changed'
        sk = (kind + ('*' if per else ''), of.shape, reg)
        self.swallow.setdefault(sk, [0, 0, 0])[('same', 'eof', 'changed').index(cls)] += 1
        self.bump('open_succeeded_with_applied_%s_fault_view_%s' % ('hard' if kind in HARD else kind, cls))
        if kind == 'zero':
            return
        if cls == 'changed' or (cls == 'eof' and kind == 'one'):
            dk = self.diff_kind(r, b)
            key = 'open_swallowed_%s_fault:%s_changed:%s:%s' % (kind, dk, reg, 'single' if of.nl == 1 else 'chain')
            if key in EXEMPT:
                self.exempt_hits[key] = self.exempt_hits.get(key, 0) + 1
                return
            self.chk.violation(key, '%s through %s: the %s callback %s at invocation %d of the open (%s%s) and the open nevertheless returned 0; the handle differs from the fault-free one (%s): '
                               '%s | %s   fault-free: %s | %s' % (of.name, api, FAULTS[kind][2] == 'R' and 'read' or FAULTS[kind][2] == 'S' and 'seek' or 'tell',
                                                                 {'err': 'failed (0 bytes, errno set)', 'one': 'returned 1 byte', 'seek': 'returned -1', 'tell': 'returned -1'}[kind], r['FH'], reg,
                                                                 ', persisting' if per else '', dk, r['SV'][:400], r['IV'], b['SV'][:400], b['IV']),
                               self.replay_of(of, api, f, 'surfaces'))

    @staticmethod
    def diff_kind(r, b):
        """how a handle's view differs from the fault-free one: link_table (number of links, serial numbers, raw lengths, rates, channels or comments differ),
        pcm_length (the link table is intact, only PCM / time lengths and the bitrates derived from them differ), seek_behaviour, position (after open)"""
        if r['SV'] != b['SV']:
            def skel(sv):
                return '|'.join(':'.join(x for x in ent.split(':') if not (x.startswith('pcm') or x.startswith('t') or x.startswith('br'))) for ent in sv.split('|'))
            return 'pcm_length' if skel(r['SV']) == skel(b['SV']) else 'link_table'
        return 'seek_behaviour' if (r['DV'], r['NP']) != (b['DV'], b['NP']) else 'position'

    @staticmethod
    def total_of(sv):
        try:
            ent = sv.split('|')[1]
            return int([x for x in ent.split(':') if x.startswith('pcm')][0][3:])
        except (IndexError, ValueError):
            return None

    # -------------------------------------------------------------- enumeration
    def schedules(self, of, api):
        tr = self.trace[(of.name, api)]
        n = self.base[(of.name, api)]['E']
        out = []
        for k in range(n):
            for kind in FORDER:
                if FAULTS[kind][2] != tr[k][0]:
                    self.bump('skipped_other_class_noop', 2)
                    continue
                out.append(((k, kind, 0),))
                out.append(((k, kind, 1),))
        return out

    def explore(self, live):
        todo = []
        for of, api in live:
            for f in self.schedules(of, api):
                todo.append((of, api, f))
        # one-step flavours first: the two-step verdicts compare against them
        todo.sort(key=lambda t: (0 if t[1] in ('o', 'O') else 1))
        step = 3000
        for i in range(0, len(todo), step):
            if time.time() > self.deadline:
                self.cut = True
                self.bump('cut_cases', len(todo) - i)
                break
            part = todo[i:i + step]
            t0 = time.time()
            res = self.run([self.case(of, api, f) for of, api, f in part])
            self.timing.append((len(part), round(time.time() - t0, 1)))
            for (of, api, f), r in zip(part, res):
                self.results[(of.name, api, f)] = r
                self.judge(of, api, f, r)
        # api clause
        for (name, api, f), r2 in sorted(self.results.items(), key=lambda kv: (kv[0][0], kv[0][1], kv[0][2])):
            one = TWOSTEP.get(api)
            if len(f) != 1 or not one or 'err' in r2:
                continue
            r1 = self.results.get((name, one, f))
            if r1 is None or 'err' in r1:
                continue
            of = [x for x in self.files if x.name == name][0]
            self.judge_api(of, api, f, r2, r1)

    def explore_pairs(self, live, names):
        """bound 2 (thorough): all pairs of one-shot faults (k1,x1) < (k2,x2) on the small files; the first must have been applied in its single-fault run and
        the second index ranges over the callback invocations of THAT run (all five kinds: its callback classes are not known in advance).
        Judged: safety, source and api clauses (the surfaces clause needs the region of every fault and is bound-1 only)."""
        todo = []
        for of, api in live:
            if of.name not in names:
                continue
            for f1 in self.schedules(of, api):
                if f1[0][2]:
                    continue
                r = self.results.get((of.name, api, f1))
                if r is None or 'err' in r or r['D'] < 1:
                    continue
                for k2 in range(f1[0][0] + 1, r['E']):
                    for kind2 in FORDER:
                        todo.append((of, api, (f1[0], (k2, kind2, 0))))
        todo.sort(key=lambda t: (0 if t[1] in ('o', 'O') else 1))
        self.bump('pairs', len(todo))
        step = 6000
        for i in range(0, len(todo), step):
            if time.time() > self.deadline:
                self.cut = True
                self.bump('cut_cases', len(todo) - i)
                break
            part = todo[i:i + step]
            t0 = time.time()
            res = self.run([self.case(of, api, f) for of, api, f in part])
            self.timing.append((len(part), round(time.time() - t0, 1)))
            for (of, api, f), r in zip(part, res):
                self.results[(of.name, api, f)] = r
                if 'err' in r:
                    self.judge(of, api, f, r)
                    continue
                if r['D'] < 2:
                    self.bump('pair_second_not_applied')
                    continue
                self.effective.add((of.name, api, f))
                self.bump('pairs_applied')
                step_ = 0 if r['ok'] else 1 if r['A'] != 0 else 2
                self.outcomes.add((of.shape, api, self.kinds(f), r['rc'], step_, r['C'], r['C2'], r['Z']))
                if api in TWOSTEP and step_ == 2:
                    self.bump('pairs_two_step_failed_in_step2')
                self.judge_source(of, api, f, r)
        for (name, api, f), r2 in sorted(self.results.items(), key=lambda kv: (kv[0][0], kv[0][1], kv[0][2])):
            one = TWOSTEP.get(api)
            if len(f) != 2 or not one or 'err' in r2:
                continue
            r1 = self.results.get((name, one, f))
            if r1 is None or 'err' in r1:
                continue
            self.judge_api([x for x in self.files if x.name == name][0], api, f, r2, r1)

    def judge(self, of, api, f, r):
        k, kind, per = f[0]
        if 'err' in r:
            e = r['err']
            if e.startswith('TIMEOUT'):
                self.pending_timeouts.append((of, api, f))
            elif e.startswith('BAD') or e.startswith('DIED rc=2 ') or e == 'NOOUTPUT':
                self.machinery.append((of.name, api, fault_name(f) + ': ' + e[:200]))
            else:
                self.chk.violation('openapi_crash:%s:%s:%s' % (api, self.kinds(f), of.shape), '%s through %s, faults %s: executor died: %s' % (of.name, api, fault_name(f), e[:600]),
                                   self.replay_of(of, api, f, 'safety'))
            self.effective.add((of.name, api, f))
            return
        b = self.base[(of.name, api)]
        if r['D'] == 0:
            self.bump('not_reached')
            if (r['A'], r['B'], r['E'], r['H'], self.view(r), r['C'], r['C1'], r['C2']) != (b['A'], b['B'], b['E'], b['H'], self.view(b), b['C'], b['C1'], b['C2']):
                self.machinery.append((of.name, api, 'nondeterminism: %s not applied but the run differs from the fault-free one' % fault_name(f)))
            return
        self.effective.add((of.name, api, f))
        self.bump('applied')
        step = 0 if r['ok'] else 1 if r['A'] != 0 else 2
        if api in TWOSTEP:
            self.bump('two_step_failed_in_step%d_under_%s' % (step, kind) if step else 'two_step_succeeded_under_%s' % kind)
            if step:
                self.twostep_fail.setdefault((api, step), set()).add((kind, per))
        self.outcomes.add((of.shape, api, kind, per, r['rc'], step, r['C'], r['C2'], r['Z']))
        if len(self.samples) < 600:
            self.samples.append({'file': of.name, 'api': api, 'faults': fault_name(f), 'case': self.case(of, api, f), 'step1': r['A'], 'step2': r['B'], 'closes': r['C2']})
        self.judge_source(of, api, f, r)
        if r['ok'] and api not in ('c', 'C'):
            self.judge_surfaces(of, api, f, r)
        elif not r['ok'] and kind in HARD:
            self.bump('hard_fault_open_failed')
        # guard bookkeeping: hard read errors after the first page of the first backward-scan chunk was delivered
        if kind == 'err' and api in ('o', 't') and k in self.after_first_page.get((of.name, api), ()):
            self.afp_hits.setdefault(of.name, set()).add((api, per, k))

    def mark_backward_scan(self, live):
        """per (file, api): read indices of the FIRST backward-scan chunk of phase 2 (the reads that follow SEEK_END, tell, SEEK_SET(begin)) at which at least
        one complete page of the chunk has already been delivered by the earlier reads of that chunk"""
        self.after_first_page, self.afp_hits, self.twostep_fail = {}, {}, {}
        for of, api in live:
            if api not in ('o', 't'):
                continue
            tr = self.trace[(of.name, api)]
            n = self.base[(of.name, api)]['E']
            iend = next((i for i in range(n) if tr[i][1] == 'N'), None)
            if iend is None or iend + 2 >= n or tr[iend + 1][0] != 'T' or tr[iend + 2][1] != 'S':
                continue
            begin = tr[iend + 2][2]
            S = set()
            for i in range(iend + 3, n):
                if tr[i][0] != 'R':
                    break
                pos = tr[i][2]        # position before this read = everything in [begin, pos) has been delivered
                if any(p.offset >= begin and p.offset + p.size() <= pos for p in of.pages):
                    S.add(i)
            self.after_first_page[(of.name, api)] = S

    def confirm_timeouts(self):
        groups = {}
        for of, api, f in self.pending_timeouts:
            k, kind, per = f[0]
            key = 'openapi_timeout:%s:%s:%s:%s' % (api, self.kinds(f), self.region(of, api, k) if (of.name, api) in self.base and k < self.base[(of.name, api)]['E'] else 'x', of.shape)
            groups.setdefault(key, []).append((of, api, f))
        for key, ts in sorted(groups.items()):
            self.bump('timeouts', len(ts))
            ts.sort(key=lambda t: (t[0].size, t[0].name, t[1], t[2]))
            pick = ts[:2]
            res = self.run([self.case(of, api, f) for of, api, f in pick], timeout=self.timeout * 10, jobs=len(pick))
            for (of, api, f), r in zip(pick, res):
                if 'err' in r and r['err'].startswith('TIMEOUT'):
                    self.bump('timeouts_confirmed')
                    self.chk.violation(key, '%s through %s with faults %s: the open never returned (CPU watchdog %d s, confirmed alone with %d s); %d cases of this class timed out'
                                       % (of.name, api, fault_name(f), self.timeout, self.timeout * 10, len(ts)), dict(self.replay_of(of, api, f, 'timeout'), timeout=self.timeout * 10))
                    break
                elif 'err' in r:
                    self.machinery.append((of.name, api, 'timeout re-run: ' + r['err'][:200]))
                else:
                    self.bump('slow_not_hung')
                    self.judge(of, api, f, r)
        self.pending_timeouts = []


# Classes where the unchanged tree swallows a hard callback failure during an open that returns 0 AND the handle's view changes.  Reported to the lead as candidate
# defects (docs/C12_open_swallowed_faults.md); counted in the evidence (exempt_hits), not judged.  Everything else is judged.
# (history) Six classes were exempted here while the tree still swallowed hard failures at three places of the seekable open (ignored SEEK_END result; unchecked
# _get_prev_page_serial result in _bisect_forward_serialno; _initial_pcmoffset treating OV_EREAD as "no more pages").  They were repaired by fix c769fb9
# (known_findings.json, docs/C12_open_swallowed_faults.diff), so nothing is exempted any more: every class is judged.
EXEMPT = set()
PAIR_FILES = ('F1', 'F4', 'TWO', 'MT2', 'F2')


def run_family(chk, tier, extra_files, deadline, timeout):
    fam = OpenFamily(chk, tier, files_for(tier, extra=extra_files), deadline, timeout)
    live = fam.baselines()
    fam.mark_backward_scan(live)
    fam.explore(live)
    fam.confirm_timeouts()
    if tier == 'thorough' and not fam.cut:
        fam.explore_pairs(live, PAIR_FILES)
        fam.confirm_timeouts()
    return fam


def report(fam, chk):
    """evidence, assumptions and vacuity guards of the family"""
    seek_files = [of for of in fam.files if (of.name, 'o') in fam.base and (of.name, 't') in fam.base]
    ev = {
        'rule': 'every file x open flavour {o: ov_open_callbacks, t: ov_test_callbacks+ov_test_open, c: ov_test_callbacks+ov_clear; O/T/C: the same with read/close callbacks only} is run fault-free '
                'to count its N callback invocations across both steps; then every k<N x every fault kind of k\'s callback class x {one-shot, persisting}; thorough adds all pairs of one-shot '
                'faults on ' + ', '.join(PAIR_FILES) + '. Effective = the deviation(s) were applied (D>=1; both for pairs).',
        'files': {of.name: {'bytes': of.size, 'pages': len(of.pages), 'links': of.nl} for of in fam.files},
        'open_points': {'%s/%s' % k: v['E'] for k, v in sorted(fam.base.items())},
        'step1_points': {of.name: fam.base[(of.name, 'c')]['E'] for of in fam.files if (of.name, 'c') in fam.base},
        'executed': fam.executed, 'effective': len(fam.effective), 'distinct_outcomes': len(fam.outcomes),
        'stats': dict(sorted(fam.stats.items())),
        'open_succeeded_although_a_fault_was_applied__kind_shape_region__same_eof_changed': {'%s/%s/%s' % k: v for k, v in sorted(fam.swallow.items())},
        'not_judged_candidate_defect_classes': sorted(EXEMPT), 'not_judged_hits': dict(sorted(fam.exempt_hits.items())),
        'hard_read_errors_after_first_page_of_end_scan_chunk': {n: len(v) for n, v in sorted(fam.afp_hits.items())},
        'two_step_failures_by_step': {'%s/step%d' % k: sorted('%s%s' % (a, '*' if b else '') for a, b in v) for k, v in sorted(fam.twostep_fail.items())},
        'stage_timing_cases_wall_s': fam.timing, 'exhaustive': not fam.cut,
        'samples': fam.samples[::max(1, len(fam.samples) // 8)][:8],
    }
    chk.cov['open_api_family'] = ev
    chk.cov['rule'] = chk.cov.get('rule', '') + ' || open-API family (pylib/c12_open.py): ' + ev['rule']
    chk.assumptions += [
        'open family: a seek callback returning -1 at the very first invocation (SEEK_CUR probe of ov_open_callbacks/ov_test_callbacks) is the documented way to say "cannot seek"; '
        'the handle must then be the streaming handle (static view equal to the one opened with read/close callbacks only)',
        'open family: "surfaces" = the open returns a negative code, or the swallowed hard failure has no effect on anything the application can observe afterwards (structure, totals, '
        'position, first read, raw seek + read + sample seek at every page boundary), or the handle stands at end-of-file (ov_pcm_tell == ov_pcm_total, rest identical); '
        'a 1-byte read is a legitimate answer and must have no effect when the open succeeds; premature zero reads without errno are end-of-data answers and only judged for safety / source / api',
        'open family: classes in which the unchanged tree swallows a hard failure and the view changes (%s) are candidate defects reported separately and not judged' % ', '.join(sorted(EXEMPT)),
        'open family: the two-step open is compared with ov_open_callbacks under the same callback answers (both steps are one invocation sequence): same success, same views, same canonical state; '
        'error codes are not compared',
    ]
    g = chk.guard
    cut = fam.cut
    g(not fam.machinery, 'open family: executor ran every case: %d failures, e.g. %r' % (len(fam.machinery), fam.machinery[:1]))
    g(len(seek_files) >= 5 and any(of.nl == 1 for of in seek_files) and any(of.nl == 2 for of in seek_files) and any(of.nl >= 3 for of in seek_files)
      and any(of.size > CHUNKSIZE and of.nl == 1 for of in seek_files) and any(of.size > CHUNKSIZE and of.nl > 1 for of in seek_files),
      'open family: single-link, 2-link and 3-link files, single and chained files larger than CHUNKSIZE')
    for of in seek_files:
        hits = fam.afp_hits.get(of.name, set())
        g(cut or all(any(a == api and p == per for a, p, _ in hits) for api in ('o', 't') for per in (0, 1)),
          'open family: %s: >= 1 hard read error (one-shot and persisting, one-step and two-step) injected after the first page of the first backward-scan chunk had been delivered: %d' % (of.name, len(hits)))
        g(fam.base[(of.name, 't')]['E'] == fam.base[(of.name, 'o')]['E'] and fam.base[(of.name, 'c')]['E'] < fam.base[(of.name, 't')]['E'],
          'open family: %s: both steps of the two-step open invoke callbacks, together as many as ov_open_callbacks' % of.name)
    big1 = [of for of in seek_files if of.nl == 1 and of.size > CHUNKSIZE]
    g(cut or any(len(fam.after_first_page.get((of.name, 'o'), ())) >= 8 for of in big1), 'open family: the backward scan of a single-link file larger than CHUNKSIZE has >= 8 reads after its first page')
    want2 = set((k, p) for k in ('err', 'zero', 'seek', 'tell') for p in (0, 1))
    g(cut or fam.twostep_fail.get(('t', 2), set()) >= want2, 'open family: two-step opens failed in step 2 (ov_test_open) under every fault kind that can fail it, one-shot and persisting: %r'
      % sorted(fam.twostep_fail.get(('t', 2), set())))
    g(cut or (fam.twostep_fail.get(('t', 1)) and fam.twostep_fail.get(('T', 1))), 'open family: two-step opens failed in step 1 (ov_test_callbacks), seekable and streaming')
    g(cut or fam.stats.get('api_pairs_compared', 0) >= 500, 'open family: two-step results compared with one-step results of the same schedule')
    g(cut or fam.stats.get('open_succeeded_with_applied_one_fault_view_same', 0) >= 100, 'open family: view comparison exercised (opens that succeed under 1-byte reads)')
    g(cut or fam.stats.get('hard_fault_open_failed', 0) >= 200, 'open family: hard faults that make the open fail')
    g(cut or fam.stats.get('seekable_probe_refused_handle_is_streaming_handle', 0) >= 2, 'open family: refused seekability probe compared with the streaming handle')
    ev['not_judged_classes_without_a_hit_in_this_run'] = sorted(k for k in EXEMPT if not fam.exempt_hits.get(k))    # a stale exemption should be removed
    return ev


def replay(rec):
    files = {rec['file']: (rec['path'], None)}
    exe = vlib.harness('asan', 'c12_open')
    listfile = vlib.write_file('c12_open_replay.txt', (rec['path'] + '\n').encode())
    wd = int(rec.get('timeout', 10))
    args = ['--files', listfile, '--timeout', str(wd)]
    f = tuple(tuple(x) for x in rec['faults'])
    apis = [rec['api']] + ([TWOSTEP[rec['api']]] if rec['api'] in TWOSTEP else [])
    cases = ['0 %sv %s' % (a, e) for a in apis for e in (env_str(f), '-')]
    res = [parse(r) for r in vlib.run_cases(exe, cases, args, jobs=1, tag='c12orp')]
    bad = []
    for c, r in zip(cases, res):
        print('case   :', c)
        print('result :', r.get('err') or {k: r[k] for k in ('A', 'B', 'E', 'D', 'FH', 'Z', 'C', 'C1', 'C2', 'SV', 'IV', 'DV')})
    r, b = res[0], res[1]
    if 'err' in r:
        bad.append('executor: ' + r['err'][:300])
    else:
        if r['ok'] and (r['C'], r['C1'], r['C2']) != (0, 1, 1):
            bad.append('close count after success %d/%d/%d' % (r['C'], r['C1'], r['C2']))
        if not r['ok'] and (r['C'] or r['C2'] or r['Z'] != '1' or r['rc'] not in OV_CODES):
            bad.append('failed open: closes %d/%d zeroed=%s rc=%d' % (r['C'], r['C2'], r['Z'], r['rc']))
        kind = f[0][1] if f else None
        if r['ok'] and 'err' not in b and r['D'] >= 1 and kind in HARD + ('one',) and rec['api'] not in ('c', 'C'):
            v, w = (r['SV'], r['IV'], r['DV'], r['NP']), (b['SV'], b['IV'], b['DV'], b['NP'])
            if kind == 'seek' and r['FH'] == 0:
                # refused seekability probe: the handle must be the streaming handle
                sb = parse(vlib.run_cases(exe, ['0 %s -' % rec['api'].upper()], args, jobs=1, tag='c12orp')[0])
                if 'err' in sb or sb['SV'] != r['SV']:
                    bad.append('seekability probe refused, but the handle is not the streaming handle')
            elif v != w:
                tot = OpenFamily.total_of(b['SV'])
                iv = r['IV'].split(':')
                eof = kind != 'one' and v[0] == w[0] and v[2:] == w[2:] and iv[0] == 'p%s' % tot
                if not eof:
                    bad.append('open swallowed the %s fault and the view differs from the fault-free handle' % kind)
        if len(apis) == 2 and 'err' not in res[2]:
            r1 = res[2]
            if r['ok'] != r1['ok'] or (r['ok'] and (r['SV'], r['IV'], r['DV'], r['H'], r['E']) != (r1['SV'], r1['IV'], r1['DV'], r1['H'], r1['E'])):
                bad.append('two-step open differs from the one-step open under the same callback answers')
    for x in bad:
        print('FAIL   :', x)
    return 1 if bad else 0
