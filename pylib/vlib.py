"""Shared plumbing for the /verif checks: build, zoo, executors, evidence, known findings."""
import os, sys, json, subprocess, hashlib, time, struct, shutil, concurrent.futures as cf

ROOT = os.path.dirname(os.path.dirname(os.path.abspath(__file__)))
REPO = os.environ.get('VERIF_REPO', '/repo')
BUILD = os.environ.get('VERIF_BUILD', os.path.join(ROOT, 'build'))
OUT = os.environ.get('VERIF_OUT', ROOT)   # evidence/ and replays/ live here (overridden for mutant runs)
NPROC = int(os.environ.get('VERIF_JOBS', '16'))
SEED = int(os.environ.get('VERIF_SEED', '0') or 0)
LIBOGG = '/usr/lib/x86_64-linux-gnu/libogg.a'
WRAP = ('-Wl,--wrap=malloc,--wrap=calloc,--wrap=realloc,--wrap=free'
        ',--wrap=ogg_page_version,--wrap=ogg_page_continued,--wrap=ogg_page_bos,--wrap=ogg_page_eos,--wrap=ogg_page_granulepos'
        ',--wrap=ogg_page_serialno,--wrap=ogg_page_pageno,--wrap=ogg_page_packets')   # allocator + instrumented Ogg page accessors (harness/common.h)

FLAV = {
    'asan': ('clang', '-O1 -g -fno-omit-frame-pointer -fsanitize=address,integer-divide-by-zero,bounds,null -fno-sanitize-recover=integer-divide-by-zero,bounds,null'),
    'plain': ('gcc', '-O2 -g'),
    'tsan': ('clang', '-O1 -g -fsanitize=thread'),
}
ASAN_ENV = {'ASAN_OPTIONS': 'exitcode=77:detect_leaks=0:allocator_may_return_null=1:abort_on_error=0:handle_segv=1:max_allocation_size_mb=3000:malloc_context_size=8',
            'UBSAN_OPTIONS': 'print_stacktrace=1:halt_on_error=1:exitcode=77'}

_key = None


def sh(cmd, **kw):
    return subprocess.run(cmd, shell=isinstance(cmd, str), check=True, stdout=subprocess.PIPE, stderr=subprocess.PIPE, text=True, **kw).stdout


def build(*flavours):
    """(Re)build the library from the current tree; returns the tree key."""
    global _key
    env = dict(os.environ, VERIF_REPO=REPO, VERIF_BUILD=BUILD)
    p = subprocess.run([os.path.join(ROOT, 'bin/build.sh')] + list(flavours), env=env, stdout=subprocess.PIPE, stderr=subprocess.PIPE, text=True)
    if p.returncode != 0:
        sys.stderr.write(p.stdout + p.stderr)
        raise SystemExit(2)
    _key = p.stdout.strip().split()[-1]
    return _key


def harness(flavour, name, extra='', srcs=None, wrap=True, incl_lib=False):
    """Compile /verif/harness/<name>.c against the flavour's library. Returns binary path."""
    if _key is None:
        build(flavour)
    cc, fl = FLAV[flavour]
    src = srcs or [os.path.join(ROOT, 'harness', name + '.c')]
    d = os.path.join(BUILD, flavour, 'bin')
    os.makedirs(d, exist_ok=True)
    h = hashlib.sha256()
    for s in src + [os.path.join(ROOT, 'harness', 'common.h')] + [os.path.join(ROOT, 'harness', x) for x in sorted(os.listdir(os.path.join(ROOT, 'harness'))) if x.endswith('.h')]:
        h.update(open(s, 'rb').read())
    h.update((extra + str(wrap) + _key).encode())
    out = os.path.join(d, name)
    stamp = out + '.stamp'
    if os.path.exists(out) and os.path.exists(stamp) and open(stamp).read() == h.hexdigest():
        return out
    cmd = f"{cc} {fl} -w -I{REPO}/include -I{REPO}/lib -I{ROOT}/harness {extra} {' '.join(src)} -o {out} {'' if incl_lib else BUILD + '/' + flavour + '/libvorbisall.a'} {LIBOGG} {WRAP if wrap else ''} -lm -lpthread"
    p = subprocess.run(cmd, shell=True, stdout=subprocess.PIPE, stderr=subprocess.STDOUT, text=True)
    if p.returncode != 0:
        sys.stderr.write(cmd + '\n' + p.stdout)
        raise SystemExit(2)
    open(stamp, 'w').write(h.hexdigest())
    return out


def run_env():
    e = dict(os.environ)
    e.update(ASAN_ENV)
    return e


# ----------------------------------------------------------------- Ogg pages
_crc_table = []
for _i in range(256):
    _r = _i << 24
    for _ in range(8):
        _r = ((_r << 1) ^ 0x04c11db7) & 0xffffffff if _r & 0x80000000 else (_r << 1) & 0xffffffff
    _crc_table.append(_r)


def ogg_crc(data):
    c = 0
    for b in data:
        c = ((c << 8) & 0xffffffff) ^ _crc_table[((c >> 24) & 0xff) ^ b]
    return c


class Page:
    __slots__ = ('flags', 'gran', 'serial', 'seq', 'lacing', 'body', 'offset', 'crc_ok', 'version')

    def __init__(self, flags=0, gran=-1, serial=0, seq=0, lacing=(), body=b'', offset=0):
        self.flags, self.gran, self.serial, self.seq = flags, gran, serial, seq
        self.lacing, self.body, self.offset, self.crc_ok, self.version = list(lacing), bytes(body), offset, True, 0

    def encode(self, fixcrc=True, crc=None):
        h = bytearray(b'OggS' + bytes([self.version, self.flags & 0xff]) + struct.pack('<q', self.gran) + struct.pack('<I', self.serial & 0xffffffff) + struct.pack('<I', self.seq & 0xffffffff) + b'\0\0\0\0' + bytes([len(self.lacing)]) + bytes(self.lacing))
        if fixcrc:
            c = ogg_crc(bytes(h) + self.body)
        else:
            c = crc if crc is not None else 0
        h[22:26] = struct.pack('<I', c)
        return bytes(h) + self.body

    def size(self):
        return 27 + len(self.lacing) + len(self.body)

    def copy(self):
        p = Page(self.flags, self.gran, self.serial, self.seq, self.lacing, self.body, self.offset)
        p.version = self.version
        return p


def parse_pages(data):
    """Strict parse of a well-formed physical stream into pages (no resync)."""
    pages = []
    o = 0
    while o + 27 <= len(data):
        if data[o:o + 4] != b'OggS':
            raise ValueError('lost sync at %d' % o)
        nseg = data[o + 26]
        lac = list(data[o + 27:o + 27 + nseg])
        blen = sum(lac)
        p = Page(data[o + 5], struct.unpack('<q', data[o + 6:o + 14])[0], struct.unpack('<I', data[o + 14:o + 18])[0], struct.unpack('<I', data[o + 18:o + 22])[0], lac, data[o + 27 + nseg:o + 27 + nseg + blen], o)
        p.version = data[o + 4]
        pages.append(p)
        o += 27 + nseg + blen
    return pages


def packets_of(pages, serial=None):
    """Reassemble packets of one logical stream: list of (bytes, granule_of_completing_page, page_index_where_completed, page_index_where_started)."""
    out = []
    cur = b''
    start = None
    for pi, p in enumerate(pages):
        if serial is not None and p.serial != serial:
            continue
        o = 0
        nl = len(p.lacing)
        # index of last completed packet on this page
        last_complete = -1
        for i, l in enumerate(p.lacing):
            if l < 255:
                last_complete = i
        for i, l in enumerate(p.lacing):
            if start is None:
                start = pi
            cur += p.body[o:o + l]
            o += l
            if l < 255:
                out.append((cur, p.gran if i == last_complete else -1, pi, start))
                cur = b''
                start = None
    return out


def pages_from_packets(packets, serial, grans, layout, bos=True, eos=True, seq0=0):
    """Build pages from packets. layout: list of packet counts per page (or int k for fixed). grans[i] = granulepos after packet i."""
    pages = []
    if isinstance(layout, int):
        k = layout
        layout = []
        n = len(packets)
        while n > 0:
            layout.append(min(k, n))
            n -= k
    idx = 0
    seq = seq0
    for cnt in layout:
        lac = []
        body = b''
        g = -1
        for j in range(cnt):
            pk = packets[idx]
            n = len(pk)
            while n >= 255:
                lac.append(255)
                n -= 255
            lac.append(n)
            body += pk
            g = grans[idx]
            idx += 1
        assert len(lac) <= 255
        fl = 0
        if bos and seq == seq0:
            fl |= 2
        if eos and idx == len(packets):
            fl |= 4
        pages.append(Page(fl, g, serial, seq, lac, body))
        seq += 1
    return pages


# ---------------------------------------------------------------------- zoo
def zoo_dir():
    d = os.path.join(BUILD, 'zoo')
    os.makedirs(d, exist_ok=True)
    return d


def mkzoo(name, **kw):
    """Encode one link with the real encoder (plain build). Returns (path, meta)."""
    exe = harness('plain', 'mkzoo')
    path = os.path.join(zoo_dir(), name + '.ogg')
    meta_p = path + '.json'
    args = [f'{k}={v}' for k, v in sorted(kw.items())]
    sig = ' '.join(args) + ' ' + (_key or '')
    if os.path.exists(path) and os.path.exists(meta_p):
        m = json.load(open(meta_p))
        if m.get('_sig') == sig:
            return path, m
    out = subprocess.run([exe, path] + args, stdout=subprocess.PIPE, stderr=subprocess.PIPE, text=True)
    if out.returncode != 0:
        raise RuntimeError('mkzoo failed: ' + out.stderr)
    m = json.loads(out.stdout.strip().splitlines()[-1])
    m['_sig'] = sig
    json.dump(m, open(meta_p, 'w'))
    return path, m


def write_file(name, data):
    path = os.path.join(zoo_dir(), name)
    with open(path, 'wb') as f:
        f.write(data)
    return path


def chain(name, links):
    """Concatenate link files -> chain file. links: list of (path, meta). Returns (path, meta)."""
    data = b''.join(open(p, 'rb').read() for p, _ in links)
    path = write_file(name + '.ogg', data)
    off = 0
    lm = []
    for p, m in links:
        m = dict(m)
        m['offset'] = off
        off += m['bytes']
        lm.append(m)
    return path, {'links': lm, 'bytes': off, 'total': sum(m['n'] for m in lm)}


# ------------------------------------------------------------- parallel run
def run_cases(exe, cases, fixed_args=(), jobs=None, timeout=3600, tag='x'):
    """Shard `cases` (list of str lines) over processes of `exe --cases <file>`; returns list of output lines per case (in order).
    Executor protocol: one output line per case, starting with the case index: '<idx> ...'.
    A worker that dies mid-chunk yields ('DIED', rc, stderr_tail) for the first unanswered case and is restarted on the rest."""
    jobs = jobs or NPROC
    n = len(cases)
    res = [None] * n
    tmp = os.path.join(BUILD, 'tmp')
    os.makedirs(tmp, exist_ok=True)
    chunks = [list(range(w, n, jobs)) for w in range(jobs)]

    def work(w):
        idxs = chunks[w]
        pos = 0
        while pos < len(idxs):
            cf_ = os.path.join(tmp, f'{tag}.{os.getpid()}.{w}.cases')
            with open(cf_, 'w') as f:
                for i in idxs[pos:]:
                    f.write(f'{i} {cases[i]}\n')
            p = subprocess.run([exe, '--cases', cf_] + list(fixed_args), stdout=subprocess.PIPE, stderr=subprocess.PIPE, env=run_env(), timeout=timeout)
            got = 0
            for line in p.stdout.decode('latin-1').splitlines():
                if not line or not line[0].isdigit():
                    continue
                sp = line.split(' ', 1)
                i = int(sp[0])
                res[i] = sp[1] if len(sp) > 1 else ''
                got += 1
            os.unlink(cf_)
            if got >= len(idxs) - pos:
                break
            if got > 0 and (res[idxs[pos + got - 1]] or '').startswith('TIMEOUT'):
                # the watchdog answered for the case it killed the worker in; nobody else is to blame
                pos += got
                continue
            # died on case idxs[pos+got]
            bad = idxs[pos + got]
            res[bad] = 'DIED rc=%d %s' % (p.returncode, json.dumps(p.stderr.decode('latin-1')[:6000]))
            pos += got + 1
        return True

    with cf.ThreadPoolExecutor(max_workers=jobs) as ex:
        list(ex.map(work, range(jobs)))
    return res


# -------------------------------------------------- evidence / findings / io
def load_known():
    p = os.path.join(ROOT, 'known_findings.json')
    if not os.path.exists(p):
        return []
    return json.load(open(p))['findings']


class Check:
    def __init__(self, pid, tier, level):
        self.pid, self.tier, self.level = pid, tier, level
        self.t0 = time.time()
        self.violations = []      # (key, description, replay dict)
        self.known_hits = {}      # key -> count
        self.cov = {'evaluations': 0, 'distinct_nontrivial': 0, 'rule': '', 'samples': [], 'exhaustive': True}
        self.assumptions = []
        self.known = [k for k in load_known() if k['property'] == pid]
        self.guards = []
        self.deadline = None

    def violation(self, key, desc, replay):
        """key: specific finding key computed from the failing case."""
        for k in self.known:
            if k.get('status') == 'known' and k['key'] == key:
                self.known_hits[key] = self.known_hits.get(key, 0) + 1
                return False
        self.violations.append((key, desc, replay))
        return True

    def guard(self, cond, what):
        """Vacuity guard: a failed guard is a broken check (exit 2), never a silent pass."""
        self.guards.append((bool(cond), what))

    def finish(self):
        wall = time.time() - self.t0
        os.makedirs(os.path.join(OUT, 'evidence'), exist_ok=True)
        rc = 0
        for key, n in sorted(self.known_hits.items()):
            k = [x for x in self.known if x['key'] == key][0]
            print(f"KNOWN-FINDING: property={self.pid} {k['what']} (key={key}, {n} cases)")
        seen = set()
        for key, desc, replay in self.violations:
            if key in seen:
                continue
            seen.add(key)
            d = os.path.join(OUT, 'replays', self.pid)
            os.makedirs(d, exist_ok=True)
            hname = hashlib.sha256((key + json.dumps(replay, sort_keys=True, default=str)).encode()).hexdigest()[:12]
            path = os.path.join(d, hname + '.json')
            json.dump({'property': self.pid, 'key': key, 'description': desc, 'replay': replay}, open(path, 'w'), indent=1, default=str)
            print(f'VIOLATION property={self.pid} replay={path}')
            print(f'  key={key}: {desc}')
            rc = 1
            if len(seen) >= 20:
                break
        bad_guards = [w for ok, w in self.guards if not ok]
        cov = dict(self.cov)
        # A run that its own wall-clock deadline cut short (exhaustive:false) on an overloaded machine has not covered what the coverage guards
        # describe; that is reported as reduced coverage, not as a broken check.  Checks whose guards do not depend on how far the enumeration got
        # (the BFS checks: C07, C08, C20) set soft_guards_when_cut=False and keep them binding.
        if bad_guards and cov.get('exhaustive') is False and getattr(self, 'soft_guards_when_cut', True):
            cov['guards_unmet_in_cut_run'] = bad_guards
            print(f'NOTE property={self.pid} the run was cut by its deadline (exhaustive=false); coverage guards not reached and not judged: {bad_guards}', file=sys.stderr)
            bad_guards = []
        cov['samples'] = cov['samples'][:12]
        cov['guards'] = [w for ok, w in self.guards if ok]
        cov['known_finding_hits'] = self.known_hits
        ev = {'property_id': self.pid, 'tier': self.tier, 'seed': SEED, 'level': self.level, 'coverage': cov,
              'assumptions': self.assumptions, 'wall_s': round(wall, 2), 'violations': len(self.violations)}
        json.dump(ev, open(os.path.join(OUT, 'evidence', self.pid + '.json'), 'w'), indent=1, default=str)
        if bad_guards and rc == 0:
            print(f'BROKEN-CHECK property={self.pid} vacuity guard failed: {bad_guards}', file=sys.stderr)
            rc = 2
        print(f"{self.pid} {self.tier}: evaluations={cov.get('evaluations')} states={cov.get('states', '-')} transitions={cov.get('transitions', '-')} "
              f"distinct_nontrivial={cov.get('distinct_nontrivial')} exhaustive={cov.get('exhaustive')} violations={len(self.violations)} known={sum(self.known_hits.values())} wall={wall:.1f}s")
        return rc
